import HipVerif.Lemmas.ConcClock

/-!
# C04, happens-before half: every step of the model preserves `Wf2`
-/

namespace HipVerif.Model.Conc
open HipVerif.Model

/-- When `t` holds the only handle, every payload access is known to `t` or covered by the
release view of the count's last message. -/
theorem Wf2.sole_owner_knows {c : Cfg} {s : State} (h1 : Wf1 c s) (h : Wf2 c s) {t : Nat}
    {th : Thread} (ht : s.thr[t]? = some th) (ho : 1 ≤ owned th) (htot : total s = 1)
    (hp : th.handles = 0 ∨ pinned s t = false) (w : Nat) :
    vat s.acc w ≤ max (vat th.view w) (vat s.last.rel w) := by
  obtain ⟨hf0, hnox⟩ := h1.owner_facts ht (Or.inl ho)
  have hle := owned_le_total s t th ht
  cases hw : s.thr[w]? with
  | none => rw [h.N w hw]; omega
  | some wh =>
    by_cases hwt : w = t
    · subst hwt
      have : wh = th := by rw [ht] at hw; injection hw with hw; exact hw.symm
      subst this
      have := h.B _ wh ht; omega
    · have hadd := owned_add_le_total s t w th wh (Ne.symm hwt) ht hw
      have hnr : wh.refs = [] := h1.sole_no_refs ht (by omega) htot hp hw
      rcases h.K hf0 w wh hw (by omega) hnr (hnox w wh hwt hw) with hl | ⟨v, vh, hv, hvo, hvk⟩
      · omega
      · by_cases hvt : v = t
        · subst hvt
          have : vh = th := by rw [ht] at hv; injection hv with hv; exact hv.symm
          subst this
          omega
        · have := owned_add_le_total s t v th vh (Ne.symm hvt) ht hv
          omega

/-- The remaining code after a fence of a reachable local program point is local. -/
theorem PcOk.fence_rest {c : Cfg} (sh : Shape c) {k : Kont} {o : Ord} {rest : List AStep} {old : Nat}
    (hok : PcOk c ⟨k, .simple (.fence o) :: rest, old⟩) : ∃ r, localRet rest = some r := by
  cases k <;> simp only [PcOk, sh.hdecr, sh.hincr, sh.huniq, sh.hget, List.tail] at hok
  · rcases hok with h1 | h1 | h1 | h1
    · simp at h1
    · simp at h1
    · exact ⟨_, by simpa [localRet] using h1⟩
    · exact ⟨_, by simpa [localRet] using h1⟩
  · rcases hok with h1 | h1 | h1
    · simp at h1
    · exact ⟨_, by simpa [localRet] using h1⟩
    · exact ⟨_, by simpa [localRet] using h1⟩
  · rcases hok with h1 | ⟨b, h1⟩
    · simp at h1
    · exact ⟨_, by simpa [localRet] using h1⟩
  · rcases hok with h1 | ⟨b, h1⟩
    · simp at h1
    · exact ⟨_, by simpa [localRet] using h1⟩
  · rcases hok with h1 | ⟨b, h1⟩
    · simp at h1
    · exact ⟨_, by simpa [localRet] using h1⟩

theorem Wf2.fenceStep {c : Cfg} (sh : Shape c) {s : State} (h1 : Wf1 c s) (h : Wf2 c s) {t : Nat}
    {th : Thread} (ht : s.thr[t]? = some th) {k : Kont} {o : Ord} {rest : List AStep} {old : Nat}
    (hpc : th.pc = some ⟨k, .simple (.fence o) :: rest, old⟩) :
    Wf2 c { s with thr := s.thr.set t { th with view := if o.isAcquire then vjoin th.view th.pend else th.view, pc := some ⟨k, norm c.ceil rest old, old⟩ } } := by
  obtain ⟨hok, _⟩ := h1.pcok t th _ ht hpc
  obtain ⟨r, hr⟩ := hok.fence_rest sh
  rw [norm_of_localRet c.ceil old hr]
  have hex : excl { th with view := if o.isAcquire then vjoin th.view th.pend else th.view, pc := some ⟨k, rest, old⟩ } = excl th := by
    cases k <;> simp [excl, hpc, localRet]
  refine h.upd ht rfl rfl rfl rfl rfl rfl (Or.inl rfl) ?_ rfl ?_ ?_ ?_
  · cases k <;> simp [owned, inflight, hpc, localRet] <;> congr
  · intro u
    dsimp only
    split
    · simp only [vat, vat_vjoin]; omega
    · exact Nat.le_refl _
  · intro he _
    rw [hex] at he; exact he
  · intro he u
    rw [hex] at he
    have hk := h.XK t th ht he u
    simp only [know, pendUse, hpc, localAcq] at hk ⊢
    by_cases ha : o.isAcquire = true
    · simp only [ha, Bool.true_or, if_true] at hk ⊢
      split <;> simp only [vat, vat_vjoin] at hk ⊢ <;> omega
    · simp only [ha, Bool.false_or] at hk ⊢
      simpa using hk

/-- A method return that does not touch the payload. -/
theorem Wf2.retStep {c : Cfg} {s s' : State} (h : Wf2 c s) {t : Nat} {th th' : Thread}
    (ht : s.thr[t]? = some th) (hthr : s'.thr = s.thr.set t th') (hlast : s'.last = s.last)
    (hfreed : s'.freed = s.freed) (hacc : s'.acc = s.acc) (hwr : s'.wr = s.wr)
    (hrace : s'.race = s.race) (huaf : s'.uaf = s.uaf)
    (hown : owned th' = owned th) (hview : th'.view = th.view) (hpc : th'.pc = none)
    (hrefs : th'.refs = th.refs)
    (hx : excl th = false) : Wf2 c s' := by
  refine h.upd ht hthr hlast hfreed hacc hwr hrace (Or.inl huaf) hown hrefs ?_ ?_ ?_
  · intro u; rw [hview]; exact Nat.le_refl _
  · intro _ _; exact hx
  · intro he; simp [excl, hpc] at he

/-- A load (or failed CAS) that does not establish exclusive access. -/
theorem Wf2.loadStep {c : Cfg} {s : State} (h : Wf2 c s) {t : Nat} {th : Thread}
    (ht : s.thr[t]? = some th) (hf0 : s.freed = 0) (i : Nat) (o : Ord) (pc' : Pc)
    (hown : owned (acquireInto { th with coh := i, pc := some pc' } o (s.msgAt i).rel) = owned th)
    (hx : excl th = false)
    (hx' : excl (acquireInto { th with coh := i, pc := some pc' } o (s.msgAt i).rel) = false) :
    Wf2 c (doLoad s t th i o pc') := by
  refine h.upd ht rfl rfl rfl rfl rfl rfl (Or.inr ⟨hf0, rfl⟩) hown (by simp) ?_ ?_ ?_
  · intro u
    exact vat_acquireInto_view_le { th with coh := i, pc := some pc' } o (s.msgAt i).rel u
  · intro _ _; exact hx
  · intro he; rw [hx'] at he; simp at he

/-- The load of `is_unique`. -/
theorem Wf2.loadUniq {c : Cfg} (sh : Shape c) (ho : Ords sh) {s : State} (h1 : Wf1 c s) (h : Wf2 c s)
    {t : Nat} {th : Thread} (ht : s.thr[t]? = some th) {k : Kont} (hk : k = .mutate ∨ k = .unwrap)
    {old : Nat} (hpc : th.pc = some ⟨k, c.proto.isUnique, old⟩) (hh : 1 ≤ th.handles)
    (hnp : pinned s t = false) {ch : Nat} (hch : th.coh ≤ ch) :
    Wf2 c (doLoad s t th ch sh.ul ⟨k, norm c.ceil [.branch .eq (.lit 0) sh.uthn (.bool true) sh.uels (.bool false)] (s.msgAt ch).val, (s.msgAt ch).val⟩) := by
  have hownth : owned th = th.handles := by
    rcases hk with rfl | rfl <;> simp [owned, inflight, hpc]
  have hxth : excl th = false := by
    rcases hk with rfl | rfl <;> simp [excl, hpc, sh.huniq, localRet]
  refine h.upd ht rfl rfl rfl rfl rfl rfl (Or.inr ⟨(h1.owner_facts ht (Or.inl (by omega))).1, rfl⟩) ?_ (by simp) ?_ ?_ ?_
  · rcases hk with rfl | rfl <;> simp [owned, inflight, hpc]
  · intro u
    exact vat_acquireInto_view_le' _ sh.ul (s.msgAt ch).rel u _ rfl
  · intro _ _; exact hxth
  · intro he u
    by_cases hv : (s.msgAt ch).val = 0
    · have hlast : s.msgAt ch = s.last := by
        unfold State.msgAt
        cases hm : s.hist[ch]? with
        | none => rfl
        | some m =>
          exfalso
          simp [State.msgAt, hm] at hv
          rcases h1.J ch m hm hv t th ht (by omega) with h' | ⟨w, wh, hw, hmem, _⟩
          · omega
          · exact not_mem_of_not_pinned hnp hw hmem
      rw [hlast] at hv
      have hle := owned_le_total s t th ht
      have htr := h1.track (by omega)
      have hkn := h.sole_owner_knows h1 ht (by omega) (by omega) (Or.inr hnp) u
      refine Nat.le_trans hkn ?_
      rw [hlast]
      have hq := ho.uniq_acquire
      simp only [know, pendUse, acquireInto_pc, norm, Cmp.eval, Bound.eval, hv, beq_self_eq_true,
        if_true, localAcq_armCode _ _ sh.huthn]
      simp only [acquireInto]
      by_cases ha : sh.ul.isAcquire = true
      · simp only [ha, if_true]
        split <;> simp [vat] <;> omega
      · have hl : acqFenceArm sh.uthn = true := by simpa [ha] using hq
        simp [ha, hl, vat]; omega
    · exfalso
      rcases hk with rfl | rfl <;>
        simp [excl, norm, Cmp.eval, Bound.eval, hv, localRet_armCode _ _ sh.huels] at he

theorem Wf2.startStep {c : Cfg} (sh : Shape c) {s s' : State} (h1 : Wf1 c s) (h : Wf2 c s) {t : Nat}
    {a : Action} (hs : startStep c s t a = some s') : Wf2 c s' := by
  unfold Conc.startStep at hs
  split at hs
  · simp at hs
  rename_i th ht
  split at hs
  · simp at hs
  rename_i hidle
  have hpc : th.pc = none := by simpa using hidle
  have hx : excl th = false := by simp [excl, hpc]
  have hownth : owned th = th.handles := by simp [owned, inflight, hpc]
  cases a <;> simp only at hs <;> split at hs <;> try (simp at hs; done)
  all_goals rename_i hcan
  all_goals simp only [Option.some.injEq] at hs
  all_goals subst hs
  · -- read
    have huse : 1 ≤ owned th ∨ th.refs ≠ [] := by
      rcases canUse_iff.1 hcan with h' | h'
      · exact Or.inl (by omega)
      · exact Or.inr h'
    refine h.read (th' := { tick th t with res := th.res ++ [s.pval] }) h1 ht huse ?_ rfl hpc
      rfl rfl rfl rfl rfl rfl rfl
    simp [owned, hpc]
  · -- clone
    refine h.upd ht rfl rfl rfl rfl rfl rfl (Or.inl rfl) ?_ rfl (fun _ => Nat.le_refl _) (fun _ _ => hx) ?_
    · simp [owned, inflight, hpc, sh.hincr, norm, localRet]
    · intro he; simp [excl] at he
  · -- drop
    obtain ⟨hh, hnp⟩ := canOwn_iff.1 hcan
    refine h.upd ht rfl rfl rfl rfl rfl rfl (Or.inl rfl) ?_ rfl (fun _ => Nat.le_refl _) (fun _ _ => hx) ?_
    · simp [owned, inflight, hpc, sh.hdecr, norm, localRet]; omega
    · intro he; simp [excl, sh.hdecr, norm, localRet] at he
  · -- mutate
    refine h.upd ht rfl rfl rfl rfl rfl rfl (Or.inl rfl) ?_ rfl (fun _ => Nat.le_refl _) (fun _ _ => hx) ?_
    · simp [owned, inflight, hpc]
    · intro he; simp [excl, sh.huniq, norm, localRet] at he
  · -- unwrap
    refine h.upd ht rfl rfl rfl rfl rfl rfl (Or.inl rfl) ?_ rfl (fun _ => Nat.le_refl _) (fun _ _ => hx) ?_
    · simp [owned, inflight, hpc]
    · intro he; simp [excl, sh.huniq, norm, localRet] at he
  · -- count
    refine h.upd ht rfl rfl rfl rfl rfl rfl (Or.inl rfl) ?_ rfl (fun _ => Nat.le_refl _) (fun _ _ => hx) ?_
    · simp [owned, inflight, hpc]
    · intro he; simp [excl] at he

theorem Wf2.sendStep {c : Cfg} {s s' : State} (h1 : Wf1 c s) (h : Wf2 c s) {t u : Nat}
    (hs : sendStep s t u = some s') : Wf2 c s' := by
  unfold Conc.sendStep at hs
  split at hs
  · rename_i th uh ht hu
    split at hs
    · simp at hs
    · rename_i hc
      simp at hc
      obtain ⟨⟨⟨htu, hpt⟩, hpu⟩, hcan'⟩ := hc
      obtain ⟨hh, _⟩ := canOwn_iff.1 hcan'
      simp only [Option.some.injEq] at hs
      subst hs
      exact h.send h1 ht hu htu hpt hpu hh _ _ _ rfl rfl
  · simp at hs

theorem Wf2.borrowStep {c : Cfg} {s s' : State} (h : Wf2 c s) {t u : Nat}
    (hs : borrowStep s t u = some s') : Wf2 c s' := by
  unfold Conc.borrowStep at hs
  split at hs
  · rename_i th uh ht hu
    split at hs
    · simp at hs
    · rename_i hc
      simp at hc
      obtain ⟨⟨⟨htu, hpt⟩, hpu⟩, hh⟩ := hc
      simp only [Option.some.injEq] at hs
      subst hs
      exact h.borrow ht hu hpt (by omega) _ _ rfl
  · simp at hs

theorem Wf2.unborrowStep {c : Cfg} {s s' : State} (h1 : Wf1 c s) (h : Wf2 c s) {t u : Nat}
    (hs : unborrowStep s t u = some s') : Wf2 c s' := by
  unfold Conc.unborrowStep at hs
  split at hs
  · rename_i th uh ht hu
    split at hs
    · simp at hs
    · rename_i hc
      simp at hc
      obtain ⟨⟨⟨htu, hpt⟩, hpu⟩, hm'⟩ := hc
      simp only [Option.some.injEq] at hs
      subst hs
      exact h.unborrow h1 ht hu htu hpt hpu hm' _ _ _ rfl rfl
  · simp at hs

theorem Wf2.microStep {c : Cfg} (sh : Shape c) (ho : Ords sh) {s s' : State} (h1 : Wf1 c s)
    (h : Wf2 c s) {t ch : Nat} (hs : microStep c s t ch = some s') : Wf2 c s' := by
  unfold Conc.microStep at hs
  split at hs
  · simp at hs
  rename_i th ht
  split at hs
  · simp at hs
  rename_i pc hpc
  obtain ⟨k, code, old⟩ := pc
  obtain ⟨hok, hside⟩ := h1.pcok t th _ ht hpc
  cases k
  · -- clone
    have hx : excl th = false := by simp [excl, hpc]
    have huse : 1 ≤ owned th ∨ th.refs ≠ [] := by
      rcases hside.1 (Or.inl rfl) with h' | h'
      · exact Or.inl (by simp [owned]; omega)
      · exact Or.inr h'
    have hf0 : s.freed = 0 := (h1.owner_facts ht huse).1
    simp only [PcOk, sh.hincr, List.tail] at hok
    rcases hok with rfl | rfl | hl | hl
    · dsimp only at hs
      split at hs
      · simp only [Option.some.injEq] at hs; subst hs
        refine h.loadStep ht hf0 _ _ _ ?_ hx ?_
        · simp [owned, inflight, hpc, norm, localRet]
        · simp [excl]
      · simp at hs
    · dsimp only at hs
      split at hs
      · split at hs
        · split at hs
          · simp only [Option.some.injEq] at hs; subst hs
            exact h.casSucc h1 ht hpc (by simp [localRet]) _ _
          · simp at hs
        · split at hs
          · simp only [Option.some.injEq] at hs; subst hs
            refine h.loadStep ht hf0 _ _ _ ?_ hx ?_
            · simp [owned, inflight, hpc, localRet]
            · simp [excl]
          · simp at hs
      · split at hs
        · simp only [Option.some.injEq] at hs; subst hs
          refine h.upd ht rfl rfl rfl rfl rfl rfl (Or.inl rfl) ?_ rfl (fun _ => Nat.le_refl _) (fun _ _ => hx) ?_
          · simp [owned, inflight, hpc, norm, localRet]
          · intro he; simp [excl] at he
        · simp at hs
    · rcases localRet_cases hl with ⟨tl, rfl⟩ | ⟨o, rest, rfl, hr⟩
      · dsimp only at hs
        split at hs
        · simp only [finish, Option.some.injEq] at hs; subst hs
          refine h.retStep ht rfl rfl rfl rfl rfl rfl rfl ?_ rfl rfl rfl hx
          simp [owned, inflight, hpc, localRet]
        · simp at hs
      · dsimp only at hs
        split at hs
        · simp only [Option.some.injEq] at hs; subst hs
          exact h.fenceStep sh h1 ht hpc
        · simp at hs
    · rcases localRet_cases hl with ⟨tl, rfl⟩ | ⟨o, rest, rfl, hr⟩
      · dsimp only at hs
        split at hs
        · simp only [finish, Option.some.injEq] at hs; subst hs
          refine h.read (th' := { tick { th with pc := none } t with res := th.res ++ [1] }) h1 ht
            huse ?_ rfl rfl rfl rfl rfl rfl rfl rfl rfl
          simp [owned, inflight, hpc, localRet]
        · simp at hs
      · dsimp only at hs
        split at hs
        · simp only [Option.some.injEq] at hs; subst hs
          exact h.fenceStep sh h1 ht hpc
        · simp at hs
  · -- drop
    simp only [PcOk, sh.hdecr] at hok
    rcases hok with rfl | hl | hl
    · dsimp only at hs
      split at hs
      · simp only [Option.some.injEq] at hs; subst hs
        refine h.rmwSub h1 ht hpc (by simp [localRet]) _ _ ho.decr_release ?_ ?_ _
        · simp only [norm, Cmp.eval, Bound.eval]
          by_cases hv : s.last.val = 0
          · simp [hv, localRet_armCode _ _ sh.hdthn]
          · simp [hv, localRet_armCode _ _ sh.hdels]
        · intro hv
          have := ho.decr_acquire
          simpa [norm, Cmp.eval, Bound.eval, hv, localAcq_armCode _ _ sh.hdthn] using this
      · simp at hs
    · rcases localRet_cases hl with ⟨tl, rfl⟩ | ⟨o, rest, rfl, hr⟩
      · dsimp only at hs
        split at hs
        · simp only [finish, Option.some.injEq] at hs; subst hs
          have hx : excl th = true := by simp [excl, hpc, localRet]
          have hown := (h1.X t th ht hx).2.1
          refine h.exclAccess (th' := { tick { th with pc := none } t with res := th.res ++ [1] })
            h1 ht hx (by simp [pendUse, hpc, localAcq]) rfl rfl rfl rfl rfl
            (Or.inr ⟨rfl, ?_⟩) rfl rfl rfl rfl
          simp [owned, inflight, hpc, localRet, exclOwn] at hown
          simp [owned, inflight, hown]
        · simp at hs
      · dsimp only at hs
        split at hs
        · simp only [Option.some.injEq] at hs; subst hs
          exact h.fenceStep sh h1 ht hpc
        · simp at hs
    · rcases localRet_cases hl with ⟨tl, rfl⟩ | ⟨o, rest, rfl, hr⟩
      · dsimp only at hs
        split at hs
        · simp only [finish, Option.some.injEq] at hs; subst hs
          refine h.retStep ht rfl rfl rfl rfl rfl rfl rfl ?_ rfl rfl rfl ?_
          · simp [owned, inflight, hpc, localRet]
          · simp [excl, hpc, localRet]
        · simp at hs
      · dsimp only at hs
        split at hs
        · simp only [Option.some.injEq] at hs; subst hs
          exact h.fenceStep sh h1 ht hpc
        · simp at hs
  · -- mutate
    have hh1 : 1 ≤ th.handles := hside.2.1 (by simp)
    have hnp : pinned s t = false := hside.2.2 (by simp) (by simp)
    simp only [PcOk, sh.huniq] at hok
    rcases hok with rfl | ⟨b, hl⟩
    · dsimp only at hs
      split at hs
      · rename_i hch
        simp only [Option.some.injEq] at hs; subst hs
        exact h.loadUniq sh ho h1 ht (Or.inl rfl) (by rw [sh.huniq]; exact hpc) hh1 hnp hch.1
      · simp at hs
    · rcases localRet_cases hl with ⟨tl, rfl⟩ | ⟨o, rest, rfl, hr⟩
      · dsimp only at hs
        split at hs
        · cases b <;> simp only [finish, Option.some.injEq] at hs <;> subst hs
          · refine h.retStep ht rfl rfl rfl rfl rfl rfl rfl ?_ rfl rfl rfl ?_
            · simp [owned, inflight, hpc]
            · simp [excl, hpc, localRet]
          · have hx : excl th = true := by simp [excl, hpc, localRet]
            refine h.exclAccess (th' := { tick { th with pc := none } t with res := th.res ++ [1] })
              h1 ht hx (by simp [pendUse, hpc, localAcq]) rfl rfl rfl rfl rfl
              (Or.inl ⟨rfl, ?_, ?_⟩) rfl rfl rfl rfl
            · simp [owned, inflight, hpc]
            · simp [owned]; omega
        · simp at hs
      · dsimp only at hs
        split at hs
        · simp only [Option.some.injEq] at hs; subst hs
          exact h.fenceStep sh h1 ht hpc
        · simp at hs
  · -- unwrap
    have hh1 : 1 ≤ th.handles := hside.2.1 (by simp)
    have hnp : pinned s t = false := hside.2.2 (by simp) (by simp)
    simp only [PcOk, sh.huniq] at hok
    rcases hok with rfl | ⟨b, hl⟩
    · dsimp only at hs
      split at hs
      · rename_i hch
        simp only [Option.some.injEq] at hs; subst hs
        exact h.loadUniq sh ho h1 ht (Or.inr rfl) (by rw [sh.huniq]; exact hpc) hh1 hnp hch.1
      · simp at hs
    · rcases localRet_cases hl with ⟨tl, rfl⟩ | ⟨o, rest, rfl, hr⟩
      · dsimp only at hs
        split at hs
        · cases b <;> simp only [finish, Option.some.injEq] at hs <;> subst hs
          · refine h.retStep ht rfl rfl rfl rfl rfl rfl rfl ?_ rfl rfl rfl ?_
            · simp [owned, inflight, hpc]
            · simp [excl, hpc, localRet]
          · have hx : excl th = true := by simp [excl, hpc, localRet]
            have hown := (h1.X t th ht hx).2.1
            refine h.exclAccess
              (th' := { tick { th with pc := none } t with handles := th.handles - 1, res := th.res ++ [1] })
              h1 ht hx (by simp [pendUse, hpc, localAcq]) rfl rfl rfl rfl rfl
              (Or.inr ⟨rfl, ?_⟩) rfl rfl rfl rfl
            simp [owned, inflight, hpc, exclOwn] at hown
            simp [owned, inflight, hown]
        · simp at hs
      · dsimp only at hs
        split at hs
        · simp only [Option.some.injEq] at hs; subst hs
          exact h.fenceStep sh h1 ht hpc
        · simp at hs
  · -- count
    have hx : excl th = false := by simp [excl, hpc]
    have huse : 1 ≤ owned th ∨ th.refs ≠ [] := by
      rcases hside.1 (Or.inr rfl) with h' | h'
      · exact Or.inl (by simp [owned]; omega)
      · exact Or.inr h'
    have hf0 : s.freed = 0 := (h1.owner_facts ht huse).1
    simp only [PcOk, sh.hget] at hok
    rcases hok with rfl | ⟨b, hl⟩
    · dsimp only at hs
      split at hs
      · simp only [Option.some.injEq] at hs; subst hs
        refine h.loadStep ht hf0 _ _ _ ?_ hx ?_
        · simp [owned, inflight, hpc]
        · simp [excl]
      · simp at hs
    · rcases localRet_cases hl with ⟨tl, rfl⟩ | ⟨o, rest, rfl, hr⟩
      · dsimp only at hs
        split at hs
        · simp only [finish, Option.some.injEq] at hs; subst hs
          refine h.retStep ht rfl rfl rfl rfl rfl rfl rfl ?_ rfl rfl rfl hx
          simp [owned, inflight, hpc]
        · simp at hs
      · dsimp only at hs
        split at hs
        · simp only [Option.some.injEq] at hs; subst hs
          exact h.fenceStep sh h1 ht hpc
        · simp at hs

/-- Every step of the model preserves the happens-before invariant. -/
theorem Wf2.step {c : Cfg} (sh : Shape c) (ho : Ords sh) {s s' : State} (h1 : Wf1 c s) (h : Wf2 c s)
    (l : Label) (hs : step c s l = some s') : Wf2 c s' := by
  cases l with
  | start t a => exact h.startStep sh h1 hs
  | micro t ch => exact h.microStep sh ho h1 hs
  | send t u => exact h.sendStep h1 hs
  | borrow t u => exact h.borrowStep hs
  | unborrow t u => exact h.unborrowStep h1 hs

/-- The initial states satisfy the happens-before invariant. -/
theorem Wf2.init {c : Cfg} (hs : List Nat) : Wf2 c (init hs) := by
  refine ⟨?_, ?_, ?_, ?_, ?_, rfl, rfl⟩ <;> intros <;> simp [Conc.init, vat]

/-- Both invariants hold after every schedule. -/
theorem Wf.run {c : Cfg} (sh : Shape c) (ho : Ords sh) {s s' : State} (h1 : Wf1 c s) (h2 : Wf2 c s)
    (ls : List Label) (hr : run c s ls = some s') : Wf1 c s' ∧ Wf2 c s' := by
  induction ls generalizing s with
  | nil => simp [Conc.run] at hr; subst hr; exact ⟨h1, h2⟩
  | cons l ls ih =>
    simp only [Conc.run] at hr
    split at hr
    · simp at hr
    · rename_i s1 hs1
      exact ih (h1.step sh l hs1) (h2.step sh ho h1 l hs1) hr

end HipVerif.Model.Conc
