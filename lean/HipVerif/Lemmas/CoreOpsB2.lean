/-
`Wf`, refinement, `srcs` and `NormOk` through `pushSlice`, `spareCapacity`, `intoVec`, `toVec`,
`mutate`, `mutateLeak` of the Core state machine (continuation of `CoreOpsB.lean`).
-/
import HipVerif.Lemmas.CorePrimsB

namespace HipVerif.Core
open HipVerif.Spec.Std

/-! ### `push_slice` -/

/-- the non-in-place path of `push_slice`: re-inline or re-allocate -/
def pushRealloc (cfg : Cfg) (s : State) (h : Nat) (hd : Handle) (bs : List UInt8) : State × Out :=
  if hlen hd + bs.length ≤ cfg.icap then
    ok (setH (if isInline hd = true then (s, []) else dropRepr cfg s hd.repr).1 h
        (some { hd with repr := .inline (view s hd ++ bs) }))
      .unit (if isInline hd = true then (s, []) else dropRepr cfg s hd.repr).2
  else
    ok (setH (dropRepr cfg (newHeap s (view s hd ++ bs) (hlen hd + bs.length)).1 hd.repr).1 h
        (some { hd with repr := (newHeap s (view s hd ++ bs) (hlen hd + bs.length)).2.1 }))
      .unit ((newHeap s (view s hd ++ bs) (hlen hd + bs.length)).2.2 ++
        (dropRepr cfg (newHeap s (view s hd ++ bs) (hlen hd + bs.length)).1 hd.repr).2)

theorem dropIf_eq (cfg : Cfg) (s : State) (hd : Handle) :
    (if isInline hd = true then ((s, []) : State × List Event) else dropRepr cfg s hd.repr) =
      dropRepr cfg s hd.repr := by
  unfold isInline
  cases hd.repr <;> simp [dropRepr]

theorem pushRealloc_srcs (cfg : Cfg) (s : State) (h : Nat) (hd : Handle) (bs : List UInt8) :
    (pushRealloc cfg s h hd bs).1.srcs = s.srcs := by
  unfold pushRealloc
  rw [dropIf_eq]
  split
  · simp only [ok, srcs_setH, dropRepr_srcs_b]
  · simp only [ok, srcs_setH, dropRepr_srcs_b]; rfl

theorem pushRealloc_spec {cfg : Cfg} {s : State} (w : Wf cfg s) {h : Nat} {hd : Handle}
    (hg : getH s h = some hd) (bs : List UInt8) :
    Wf cfg (pushRealloc cfg s h hd bs).1 ∧
    (pushRealloc cfg s h hd bs).2.ret = .unit ∧
    abs (pushRealloc cfg s h hd bs).1 = (abs s).set h (some (view s hd ++ bs)) ∧
    (NormOk cfg s → NormOk cfg (pushRealloc cfg s h hd bs).1) := by
  have hvl := hlen_eq_view_length (w.handles h hd hg)
  unfold pushRealloc
  rw [dropIf_eq]
  by_cases hc : hlen hd + bs.length ≤ cfg.icap
  · simp only [hc, if_true]
    refine ⟨?_, rfl, ?_, fun hno => ?_⟩
    · exact wf_drop_put_nonheap w hg (hd' := { hd with repr := .inline (view s hd ++ bs) })
        (by show (view s hd ++ bs).length ≤ cfg.icap; simp only [List.length_append]; omega) rfl
    · exact abs_drop_put (cfg := cfg) (s := s) (h := h) (hd := hd) { hd with repr := .inline (view s hd ++ bs) }
    · exact normOk_setH_b hno (dropRepr_pool_b ..) (fun _ he _ => by cases he; rfl)
  · simp only [hc, if_false]
    refine ⟨?_, rfl, ?_, fun hno => ?_⟩
    · exact wf_reheap w hg _ _ (by simp only [List.length_append]; omega) _
    · exact abs_reheap w _ _ _ _
    · refine normOk_setH_b hno (by rw [dropRepr_pool_b]; rfl) ?_
      intro hd' he _
      cases he
      show (false || false || decide ((view s hd ++ bs).length > cfg.icap)) = true
      simp only [List.length_append]
      simp; omega

theorem push_window (l bs : List UInt8) (off len : Nat) (hr : off + len ≤ l.length) :
    ((l.take (off + len) ++ bs).drop off).take (len + bs.length) = (l.drop off).take len ++ bs := by
  have h1 : (l.take (off + len)).length = off + len := by simp; omega
  rw [List.drop_append_of_le_length (by omega), List.drop_take]
  have h2 : off + len - off = len := by omega
  rw [h2]
  apply List.take_of_length_le
  simp only [List.length_append, List.length_take, List.length_drop]
  omega

theorem pushSlice_spec {cfg : Cfg} {s : State} (w : Wf cfg s) {h : Nat} {hd : Handle}
    (hg : getH s h = some hd) (bs : List UInt8) :
    Wf cfg (step cfg s (.pushSlice h bs)).1 ∧
    (step cfg s (.pushSlice h bs)).2.ret = .unit ∧
    abs (step cfg s (.pushSlice h bs)).1 = (abs s).set h (some (view s hd ++ bs)) ∧
    (NormOk cfg s → NormOk cfg (step cfg s (.pushSlice h bs)).1) := by
  have hre := pushRealloc_spec w hg bs
  unfold pushRealloc at hre
  simp only [step, hg]
  cases hr : hd.repr with
  | inline b0 => simp only; rw [hr] at hre; exact hre
  | borrowed a b c => simp only; rw [hr] at hre; exact hre
  | heap o pb off len =>
    simp only
    have hok := w.handles h hd hg
    unfold HandleOk at hok; rw [hr] at hok
    obtain ⟨x, hx, hlive, hpb, hrng⟩ := hok
    simp only [hx]
    by_cases hu : ownerUnique cfg s o = true
    · simp only [hu, if_true]
      have wx := (wf_iff_wfx _ _).mp w
      have hcnt := ownerUnique_count wx hx hlive hu
      have hkl : (x.data.take (off + len) ++ bs).length = off + len + bs.length := by
        simp only [List.length_append, List.length_take]; omega
      have hview : view s hd = (x.data.drop off).take len := view_heap_eq hr hx
      have hnorm : ∀ b', hd.tainted = false → isNormalized cfg hd = true →
          isNormalized cfg { repr := .heap o b' off (len + bs.length), tainted := hd.tainted } = true := by
        intro b' _ hn
        simp only [isNormalized, isInline, isBorrowed, hlen, hr, Bool.false_or, decide_eq_true_eq] at hn ⊢
        exact decide_eq_true (by omega)
      by_cases hfit : (x.data.take (off + len) ++ bs).length ≤ x.cap
      · simp only [hfit, if_true]
        refine ⟨?_, rfl, ?_, fun hno => ?_⟩
        · rw [wf_iff_wfx]
          exact wfx_rewrite_heap wx hg hr hx hcnt _ x.cap x.buf off (len + bs.length) hfit
            (wx.bufFresh o x hx)
            (by intro j y hj hy hyl; exact wx.bufDistinct j o y x hy hx hj hyl hlive)
            (by rw [hkl]; omega) hd.tainted
        · have := abs_rewrite_heap wx hg hr hx hcnt
            { x with data := x.data.take (off + len) ++ bs } x.buf off (len + bs.length) hd.tainted
          simp only [push_window _ _ _ _ hrng] at this
          rw [hview]; exact this
        · exact normOk_setH_b hno rfl (fun _ he ht => by cases he; exact hnorm _ ht (hno h hd hg ht))
      · simp only [hfit, if_false]
        have wb := wfx_bump wx
        refine ⟨?_, rfl, ?_, fun hno => ?_⟩
        · rw [wf_iff_wfx]
          exact wfx_rewrite_heap wb (s := { s with nextBuf := s.nextBuf + 1 }) hg hr hx hcnt _
            (growCap x.cap (x.data.take (off + len) ++ bs).length) s.nextBuf off (len + bs.length)
            (growCap_ge _ _) (Nat.lt_succ_self _)
            (by intro j y hj hy hyl he; have := wx.bufFresh j y hy; omega)
            (by rw [hkl]; omega) hd.tainted
        · have := abs_rewrite_heap wb (s := { s with nextBuf := s.nextBuf + 1 }) hg hr hx hcnt
            { x with data := x.data.take (off + len) ++ bs,
                     cap := growCap x.cap (x.data.take (off + len) ++ bs).length, buf := s.nextBuf }
            s.nextBuf off (len + bs.length) hd.tainted
          simp only [push_window _ _ _ _ hrng, abs_bump] at this
          rw [hview]; exact this
        · exact normOk_setH_b hno rfl (fun _ he ht => by cases he; exact hnorm _ ht (hno h hd hg ht))
    · simp only [hu]
      rw [hr] at hre; exact hre

theorem wf_op_pushSlice {cfg : Cfg} {s : State} (h : Nat) (bs : List UInt8) :
    Wf cfg s → Wf cfg (step cfg s (.pushSlice h bs)).1 := by
  intro w
  cases hg : getH s h with
  | none => simp only [step, hg]; exact w
  | some hd => exact (pushSlice_spec w hg bs).1

theorem ref_op_pushSlice {cfg : Cfg} {s : State} (h : Nat) (bs : List UInt8) :
    Wf cfg s → OpOk s (.pushSlice h bs) →
    Spec.Std.step cfg.icap s.srcs (abs s) (.pushSlice h bs) (retFlag (step cfg s (.pushSlice h bs)).2.ret) =
      (abs (step cfg s (.pushSlice h bs)).1, eraseRet (step cfg s (.pushSlice h bs)).2.ret) := by
  intro w _
  cases hg : getH s h with
  | none => simp only [step, Spec.Std.step, sget_abs, hg]; rfl
  | some hd =>
    simp only [Spec.Std.step, sget_abs, hg, Option.map_some]
    obtain ⟨_, hr, ha, _⟩ := pushSlice_spec w hg bs
    rw [hr, ha]; rfl

theorem srcs_op_pushSlice {cfg : Cfg} {s : State} (h : Nat) (bs : List UInt8) :
    (step cfg s (.pushSlice h bs)).1.srcs = s.srcs := by
  simp only [step]
  cases getH s h with
  | none => rfl
  | some hd =>
    simp only
    have hre := pushRealloc_srcs cfg s h hd bs
    unfold pushRealloc at hre
    cases hr : hd.repr with
    | inline b0 => simp only; rw [hr] at hre; exact hre
    | borrowed a b c => simp only; rw [hr] at hre; exact hre
    | heap o pb off len =>
      simp only
      rw [hr] at hre
      cases getI s o with
      | none => exact hre
      | some x =>
        simp only
        by_cases hu : ownerUnique cfg s o = true
        · simp only [hu, if_true]
          by_cases hfit : (x.data.take (off + len) ++ bs).length ≤ x.cap
          · simp only [hfit, if_true]; rfl
          · simp only [hfit, if_false]; rfl
        · simp only [hu]; exact hre

theorem norm_op_pushSlice {cfg : Cfg} {s : State} (h : Nat) (bs : List UInt8) :
    Wf cfg s → NormOk cfg s → NormOk cfg (step cfg s (.pushSlice h bs)).1 := by
  intro w hno
  cases hg : getH s h with
  | none => simp only [step, hg]; exact hno
  | some hd => exact (pushSlice_spec w hg bs).2.2.2 hno

/-! ### `spare_capacity_mut` -/

theorem spare_window (l : List UInt8) (off len : Nat) :
    ((l.take (off + len)).drop off).take len = (l.drop off).take len := by
  rw [List.drop_take, List.take_take]
  congr 1; omega

theorem spareCapacity_spec {cfg : Cfg} {s : State} (w : Wf cfg s) {h : Nat} {hd : Handle}
    (hg : getH s h = some hd) :
    Wf cfg (step cfg s (.spareCapacity h)).1 ∧
    (∃ n, (step cfg s (.spareCapacity h)).2.ret = .nat n) ∧
    abs (step cfg s (.spareCapacity h)).1 = abs s ∧
    (step cfg s (.spareCapacity h)).1.pool = s.pool := by
  simp only [step, hg]
  cases hr : hd.repr with
  | inline b0 => exact ⟨w, ⟨_, rfl⟩, rfl, rfl⟩
  | borrowed a b c => exact ⟨w, ⟨_, rfl⟩, rfl, rfl⟩
  | heap o pb off len =>
    simp only
    have hok := w.handles h hd hg
    unfold HandleOk at hok; rw [hr] at hok
    obtain ⟨x, hx, hlive, hpb, hrng⟩ := hok
    simp only [hx]
    by_cases hu : ownerUnique cfg s o = true
    · simp only [hu, if_true]
      have wx := (wf_iff_wfx _ _).mp w
      have hcnt := ownerUnique_count wx hx hlive hu
      have hl := getH_some_lt hg
      refine ⟨?_, ⟨_, rfl⟩, ?_, rfl⟩
      · rw [wf_iff_wfx]
        exact wfx_rewrite_keep wx hg hr hx hcnt _
          (by have := wx.datacap o x hx hlive; simp only [List.length_take]; omega)
          (by simp only [List.length_take]; omega)
      · have hself : setH (setI s o { x with data := x.data.take (off + len) }) h (some hd) =
            setI s o { x with data := x.data.take (off + len) } := setH_self (by simpa using hl) (by simpa using hg)
        have hde : (some hd : Option Handle) = some { repr := .heap o pb off len, tainted := hd.tainted } := by
          cases hd; simp_all
        have := abs_rewrite_heap wx hg hr hx hcnt
          { x with data := x.data.take (off + len) } pb off len hd.tainted
        rw [← hde, hself] at this
        simp only [spare_window] at this
        show abs (setI s o _) = abs s
        rw [this, ← view_heap_eq hr hx, abs_set_self hg]
    · simp only [hu]
      exact ⟨w, ⟨_, rfl⟩, rfl, rfl⟩

theorem wf_op_spareCapacity {cfg : Cfg} {s : State} (h : Nat) :
    Wf cfg s → Wf cfg (step cfg s (.spareCapacity h)).1 := by
  intro w
  cases hg : getH s h with
  | none => simp only [step, hg]; exact w
  | some hd => exact (spareCapacity_spec w hg).1

theorem ref_op_spareCapacity {cfg : Cfg} {s : State} (h : Nat) :
    Wf cfg s → OpOk s (.spareCapacity h) →
    Spec.Std.step cfg.icap s.srcs (abs s) (.spareCapacity h) (retFlag (step cfg s (.spareCapacity h)).2.ret) =
      (abs (step cfg s (.spareCapacity h)).1, eraseRet (step cfg s (.spareCapacity h)).2.ret) := by
  intro w _
  cases hg : getH s h with
  | none => simp only [step, Spec.Std.step, sget_abs, hg]; rfl
  | some hd =>
    simp only [Spec.Std.step, sget_abs, hg, Option.map_some]
    obtain ⟨_, ⟨n, hr⟩, ha, _⟩ := spareCapacity_spec w hg
    rw [hr, ha]; rfl

theorem srcs_op_spareCapacity {cfg : Cfg} {s : State} (h : Nat) :
    (step cfg s (.spareCapacity h)).1.srcs = s.srcs := by
  simp only [step]
  repeat' split
  all_goals rfl

theorem norm_op_spareCapacity {cfg : Cfg} {s : State} (h : Nat) :
    Wf cfg s → NormOk cfg s → NormOk cfg (step cfg s (.spareCapacity h)).1 := by
  intro w hno
  cases hg : getH s h with
  | none => simp only [step, hg]; exact hno
  | some hd => exact normOk_pool_b hno (spareCapacity_spec w hg).2.2.2

/-! ### `into_vec` / `Vec::from` -/

/-- the sole owner at offset 0 gives its Vec away: the box dies, the slot empties -/
theorem steal_spec {cfg : Cfg} {s : State} (w : Wf cfg s) {h : Nat} {hd : Handle}
    (hg : getH s h = some hd) {o pb len : Nat} (hr : hd.repr = .heap o pb 0 len) {x : Inner}
    (hx : getI s o = some x) (hu : ownerUnique cfg s o = true) :
    Wf cfg (setH (setI s o { x with live := false }) h none) ∧
    abs (setH (setI s o { x with live := false }) h none) = (abs s).set h none ∧
    x.data.take len = view s hd := by
  have wx := (wf_iff_wfx _ _).mp w
  have hok := w.handles h hd hg
  unfold HandleOk at hok; rw [hr] at hok
  obtain ⟨x1, hx1, hlive, _, _⟩ := hok
  rw [hx] at hx1; cases hx1
  have hc := ownerUnique_count wx hx hlive hu
  have w1 := wfx_take_heap wx hg hr
  obtain ⟨hr0, _⟩ := wfx_sole w1 (x := x) (by simpa using hx) hc
  have w2 := wfx_kill w1 (x := x) (by simpa using hx) hc
  refine ⟨(wf_iff_wfx _ _).mpr w2, ?_, ?_⟩
  · rw [setH_setI_comm, abs_setI_noref hr0, abs_setH]; rfl
  · rw [view_heap_eq hr hx]; simp

theorem intoVec_spec {cfg : Cfg} {s : State} (w : Wf cfg s) {h : Nat} {hd : Handle}
    (hg : getH s h = some hd) :
    Wf cfg (step cfg s (.intoVec h)).1 ∧
    (((step cfg s (.intoVec h)).2.ret = .bytes (view s hd) ∧
        abs (step cfg s (.intoVec h)).1 = (abs s).set h none) ∨
      ((step cfg s (.intoVec h)).2.ret = .bool false ∧ (step cfg s (.intoVec h)).1 = s)) ∧
    (NormOk cfg s → NormOk cfg (step cfg s (.intoVec h)).1) := by
  simp only [step, hg]
  cases hr : hd.repr with
  | inline b0 => exact ⟨w, Or.inr ⟨rfl, rfl⟩, fun hno => hno⟩
  | borrowed a b c => exact ⟨w, Or.inr ⟨rfl, rfl⟩, fun hno => hno⟩
  | heap o pb off len =>
    simp only
    cases hx : getI s o with
    | none => exact ⟨w, Or.inr ⟨rfl, rfl⟩, fun hno => hno⟩
    | some x =>
      simp only
      by_cases hcond : (off == 0 && ownerUnique cfg s o) = true
      · simp only [hcond, if_true]
        have hoff : off = 0 := by simp at hcond; exact hcond.1
        have hu : ownerUnique cfg s o = true := by simp at hcond; exact hcond.2
        subst hoff
        obtain ⟨h1, h2, h3⟩ := steal_spec w hg hr hx hu
        refine ⟨h1, Or.inl ⟨?_, h2⟩, fun hno => ?_⟩
        · show Ret.bytes _ = _; rw [h3]
        · exact normOk_setH_b (s1 := setI s o { x with live := false }) hno rfl
            (fun _ he _ => by cases he)
      · simp only [hcond]
        exact ⟨w, Or.inr ⟨rfl, rfl⟩, fun hno => hno⟩

theorem wf_op_intoVec {cfg : Cfg} {s : State} (h : Nat) :
    Wf cfg s → Wf cfg (step cfg s (.intoVec h)).1 := by
  intro w
  cases hg : getH s h with
  | none => simp only [step, hg]; exact w
  | some hd => exact (intoVec_spec w hg).1

theorem ref_op_intoVec {cfg : Cfg} {s : State} (h : Nat) :
    Wf cfg s → OpOk s (.intoVec h) →
    Spec.Std.step cfg.icap s.srcs (abs s) (.intoVec h) (retFlag (step cfg s (.intoVec h)).2.ret) =
      (abs (step cfg s (.intoVec h)).1, eraseRet (step cfg s (.intoVec h)).2.ret) := by
  intro w _
  cases hg : getH s h with
  | none => simp only [step, Spec.Std.step, sget_abs, hg]; rfl
  | some hd =>
    simp only [Spec.Std.step, sget_abs, hg, Option.map_some]
    rcases (intoVec_spec w hg).2.1 with ⟨hr, ha⟩ | ⟨hr, hs⟩
    · rw [hr, ha]; rfl
    · rw [hr, hs]; rfl

theorem srcs_op_intoVec {cfg : Cfg} {s : State} (h : Nat) :
    (step cfg s (.intoVec h)).1.srcs = s.srcs := by
  simp only [step]
  repeat' split
  all_goals rfl

theorem norm_op_intoVec {cfg : Cfg} {s : State} (h : Nat) :
    Wf cfg s → NormOk cfg s → NormOk cfg (step cfg s (.intoVec h)).1 := by
  intro w hno
  cases hg : getH s h with
  | none => simp only [step, hg]; exact hno
  | some hd => exact (intoVec_spec w hg).2.2 hno

/-- the copying path of `Vec::from(hip)` -/
theorem toVec_copy_spec {cfg : Cfg} {s : State} (w : Wf cfg s) {h : Nat} {hd : Handle}
    (hg : getH s h = some hd) :
    Wf cfg (setH (dropRepr cfg { s with nextBuf := s.nextBuf + 1 } hd.repr).1 h none) ∧
    abs (setH (dropRepr cfg { s with nextBuf := s.nextBuf + 1 } hd.repr).1 h none) = (abs s).set h none := by
  have wb : Wf cfg { s with nextBuf := s.nextBuf + 1 } :=
    (wf_iff_wfx _ _).mpr (wfx_bump ((wf_iff_wfx _ _).mp w))
  have hgb : getH { s with nextBuf := s.nextBuf + 1 } h = some hd := hg
  refine ⟨wf_drop wb hgb, ?_⟩
  rw [abs_setH, abs_dropRepr, abs_bump]; rfl

theorem toVec_spec {cfg : Cfg} {s : State} (w : Wf cfg s) {h : Nat} {hd : Handle}
    (hg : getH s h = some hd) :
    Wf cfg (step cfg s (.toVec h)).1 ∧
    (step cfg s (.toVec h)).2.ret = .bytes (view s hd) ∧
    abs (step cfg s (.toVec h)).1 = (abs s).set h none ∧
    (NormOk cfg s → NormOk cfg (step cfg s (.toVec h)).1) := by
  obtain ⟨c1, c2⟩ := toVec_copy_spec w hg
  have c3 : NormOk cfg s → NormOk cfg (setH (dropRepr cfg { s with nextBuf := s.nextBuf + 1 } hd.repr).1 h none) :=
    fun hno => normOk_setH_b hno (by rw [dropRepr_pool_b]) (fun _ he _ => by cases he)
  simp only [step, hg]
  cases hr : hd.repr with
  | inline b0 => rw [hr] at c1 c2 c3; exact ⟨c1, rfl, c2, c3⟩
  | borrowed a b c => rw [hr] at c1 c2 c3; exact ⟨c1, rfl, c2, c3⟩
  | heap o pb off len =>
    rw [hr] at c1 c2 c3
    simp only
    cases hx : getI s o with
    | none => exact ⟨c1, rfl, c2, c3⟩
    | some x =>
      simp only
      by_cases hcond : (off == 0 && ownerUnique cfg s o) = true
      · simp only [hcond, if_true]
        have hoff : off = 0 := by simp at hcond; exact hcond.1
        have hu : ownerUnique cfg s o = true := by simp at hcond; exact hcond.2
        subst hoff
        obtain ⟨h1, h2, h3⟩ := steal_spec w hg hr hx hu
        refine ⟨h1, ?_, h2, fun hno => ?_⟩
        · show Ret.bytes _ = _; rw [h3]
        · exact normOk_setH_b (s1 := setI s o { x with live := false }) hno rfl
            (fun _ he _ => by cases he)
      · simp only [hcond]
        exact ⟨c1, rfl, c2, c3⟩

theorem wf_op_toVec {cfg : Cfg} {s : State} (h : Nat) :
    Wf cfg s → Wf cfg (step cfg s (.toVec h)).1 := by
  intro w
  cases hg : getH s h with
  | none => simp only [step, hg]; exact w
  | some hd => exact (toVec_spec w hg).1

theorem ref_op_toVec {cfg : Cfg} {s : State} (h : Nat) :
    Wf cfg s → OpOk s (.toVec h) →
    Spec.Std.step cfg.icap s.srcs (abs s) (.toVec h) (retFlag (step cfg s (.toVec h)).2.ret) =
      (abs (step cfg s (.toVec h)).1, eraseRet (step cfg s (.toVec h)).2.ret) := by
  intro w _
  cases hg : getH s h with
  | none => simp only [step, Spec.Std.step, sget_abs, hg]; rfl
  | some hd =>
    simp only [Spec.Std.step, sget_abs, hg, Option.map_some]
    obtain ⟨_, hr, ha, _⟩ := toVec_spec w hg
    rw [hr, ha]; rfl

theorem srcs_op_toVec {cfg : Cfg} {s : State} (h : Nat) :
    (step cfg s (.toVec h)).1.srcs = s.srcs := by
  simp only [step]
  cases getH s h with
  | none => rfl
  | some hd =>
    simp only
    have hc : (setH (dropRepr cfg { s with nextBuf := s.nextBuf + 1 } hd.repr).1 h none).srcs = s.srcs := by
      rw [srcs_setH, dropRepr_srcs_b]
    cases hr : hd.repr with
    | inline b0 => rw [hr] at hc; exact hc
    | borrowed a b c => rw [hr] at hc; exact hc
    | heap o pb off len =>
      rw [hr] at hc
      simp only
      cases getI s o with
      | none => exact hc
      | some x =>
        simp only
        by_cases hcond : (off == 0 && ownerUnique cfg s o) = true
        · simp only [hcond, if_true]; rfl
        · simp only [hcond]; exact hc

theorem norm_op_toVec {cfg : Cfg} {s : State} (h : Nat) :
    Wf cfg s → NormOk cfg s → NormOk cfg (step cfg s (.toVec h)).1 := by
  intro w hno
  cases hg : getH s h with
  | none => simp only [step, hg]; exact hno
  | some hd => exact (toVec_spec w hg).2.2.2 hno

/-! ### the `mutate()` guard -/

theorem normOk_of_pool_set {cfg : Cfg} {s s1 : State} (hn : NormOk cfg s) {h : Nat} {v : Option Handle}
    (hp : s1.pool = s.pool.set h v)
    (hv : ∀ hd', v = some hd' → hd'.tainted = false → isNormalized cfg hd' = true) : NormOk cfg s1 :=
  normOk_pool_b (s := setH s h v) (normOk_setH_b hn rfl hv) hp

theorem mutate_spec {cfg : Cfg} {s : State} (w : Wf cfg s) {h : Nat} {hd : Handle}
    (hg : getH s h = some hd) (script : List VecOp) :
    Wf cfg (step cfg s (.mutate h script)).1 ∧
    (step cfg s (.mutate h script)).2.ret = .unit ∧
    abs (step cfg s (.mutate h script)).1 = (abs s).set h (some (script.foldl applyVecOp (view s hd))) ∧
    (NormOk cfg s → NormOk cfg (step cfg s (.mutate h script)).1) := by
  simp only [step, hg]
  have P := takeVec_spec w hg
  have V := vecApply_spec script (takeVec cfg s h hd).2.1.1 (takeVec cfg s h hd).2.1.2.1
    (takeVec cfg s h hd).2.1.2.2 (takeVec cfg s h hd).1.nextBuf
  obtain ⟨V1, V2, V3, V4, V5⟩ := V
  have hl := getH_some_lt hg
  have w2 := (wf_iff_wfx _ _).mpr (wfx_bump_to ((wf_iff_wfx _ _).mp P.wf) V3)
  have hg1 : getH (takeVec cfg s h hd).1 h = some { hd with repr := .inline [] } := by
    unfold getH; rw [P.pool_eq]; simp [hl]
  have F := fromVecRepr_put w2 (h := h) (hd0 := { hd with repr := .inline [] }) hg1 rfl
    (vecApply (takeVec cfg s h hd).2.1.1 (takeVec cfg s h hd).2.1.2.1
        (takeVec cfg s h hd).2.1.2.2 (takeVec cfg s h hd).1.nextBuf script).1
    (vecApply (takeVec cfg s h hd).2.1.1 (takeVec cfg s h hd).2.1.2.1
        (takeVec cfg s h hd).2.1.2.2 (takeVec cfg s h hd).1.nextBuf script).2.1
    (vecApply (takeVec cfg s h hd).2.1.1 (takeVec cfg s h hd).2.1.2.1
        (takeVec cfg s h hd).2.1.2.2 (takeVec cfg s h hd).1.nextBuf script).2.2.1
    (V2 P.datacap) (V5 P.bufFresh)
    (by
      intro j y hy hyl
      have hy' : getI (takeVec cfg s h hd).1 j = some y := hy
      rcases V4 with e | e
      · rw [e]; exact P.bufFree j y hy' hyl
      · have := P.wf.bufFresh j y hy'; omega)
    hd.tainted
  refine ⟨F.1, rfl, F.2.trans ?_, fun hno => ?_⟩
  · rw [abs_bump, P.abs_eq, List.set_set, V1, P.data_eq]
  · have hn1 : NormOk cfg (takeVec cfg s h hd).1 :=
      normOk_of_pool_set hno P.pool_eq (fun _ he _ => by cases he; rfl)
    show NormOk cfg (setH _ h _)
    refine normOk_setH_b hn1 (by rw [fromVecRepr_pool_b]) ?_
    intro hd' he _
    cases he
    exact fromVecRepr_norm ..

theorem wf_op_mutate {cfg : Cfg} {s : State} (h : Nat) (script : List VecOp) :
    Wf cfg s → Wf cfg (step cfg s (.mutate h script)).1 := by
  intro w
  cases hg : getH s h with
  | none => simp only [step, hg]; exact w
  | some hd => exact (mutate_spec w hg script).1

theorem ref_op_mutate {cfg : Cfg} {s : State} (h : Nat) (script : List VecOp) :
    Wf cfg s → OpOk s (.mutate h script) →
    Spec.Std.step cfg.icap s.srcs (abs s) (.mutate h script) (retFlag (step cfg s (.mutate h script)).2.ret) =
      (abs (step cfg s (.mutate h script)).1, eraseRet (step cfg s (.mutate h script)).2.ret) := by
  intro w _
  cases hg : getH s h with
  | none => simp only [step, Spec.Std.step, sget_abs, hg]; rfl
  | some hd =>
    simp only [Spec.Std.step, sget_abs, hg, Option.map_some]
    obtain ⟨_, hr, ha, _⟩ := mutate_spec w hg script
    rw [hr, ha]; rfl

theorem srcs_op_mutate {cfg : Cfg} {s : State} (h : Nat) (script : List VecOp) :
    (step cfg s (.mutate h script)).1.srcs = s.srcs := by
  simp only [step]
  cases getH s h with
  | none => rfl
  | some hd =>
    simp only [ok, srcs_setH, fromVecRepr_srcs_b]
    exact takeVec_srcs ..

theorem norm_op_mutate {cfg : Cfg} {s : State} (h : Nat) (script : List VecOp) :
    Wf cfg s → NormOk cfg s → NormOk cfg (step cfg s (.mutate h script)).1 := by
  intro w hno
  cases hg : getH s h with
  | none => simp only [step, hg]; exact hno
  | some hd => exact (mutate_spec w hg script).2.2.2 hno

theorem mutateLeak_spec {cfg : Cfg} {s : State} (w : Wf cfg s) {h : Nat} {hd : Handle}
    (hg : getH s h = some hd) (script : List VecOp) :
    Wf cfg (step cfg s (.mutateLeak h script)).1 ∧
    (step cfg s (.mutateLeak h script)).2.ret = .unit ∧
    abs (step cfg s (.mutateLeak h script)).1 = (abs s).set h (some []) ∧
    (NormOk cfg s → NormOk cfg (step cfg s (.mutateLeak h script)).1) := by
  simp only [step, hg]
  have P := takeVec_spec w hg
  obtain ⟨_, _, V3, _, _⟩ := vecApply_spec script (takeVec cfg s h hd).2.1.1 (takeVec cfg s h hd).2.1.2.1
    (takeVec cfg s h hd).2.1.2.2 (takeVec cfg s h hd).1.nextBuf
  refine ⟨(wf_iff_wfx _ _).mpr (wfx_bump_to ((wf_iff_wfx _ _).mp P.wf) V3), rfl, ?_, fun hno => ?_⟩
  · show abs { (takeVec cfg s h hd).1 with nextBuf := _ } = _
    rw [abs_bump, P.abs_eq]
  · exact normOk_of_pool_set hno (s1 := { (takeVec cfg s h hd).1 with nextBuf := _ }) P.pool_eq
      (fun _ he _ => by cases he; rfl)

theorem wf_op_mutateLeak {cfg : Cfg} {s : State} (h : Nat) (script : List VecOp) :
    Wf cfg s → Wf cfg (step cfg s (.mutateLeak h script)).1 := by
  intro w
  cases hg : getH s h with
  | none => simp only [step, hg]; exact w
  | some hd => exact (mutateLeak_spec w hg script).1

theorem ref_op_mutateLeak {cfg : Cfg} {s : State} (h : Nat) (script : List VecOp) :
    Wf cfg s → OpOk s (.mutateLeak h script) →
    Spec.Std.step cfg.icap s.srcs (abs s) (.mutateLeak h script)
        (retFlag (step cfg s (.mutateLeak h script)).2.ret) =
      (abs (step cfg s (.mutateLeak h script)).1, eraseRet (step cfg s (.mutateLeak h script)).2.ret) := by
  intro w _
  cases hg : getH s h with
  | none => simp only [step, Spec.Std.step, sget_abs, hg]; rfl
  | some hd =>
    simp only [Spec.Std.step, sget_abs, hg, Option.map_some]
    obtain ⟨_, hr, ha, _⟩ := mutateLeak_spec w hg script
    rw [hr, ha]; rfl

theorem srcs_op_mutateLeak {cfg : Cfg} {s : State} (h : Nat) (script : List VecOp) :
    (step cfg s (.mutateLeak h script)).1.srcs = s.srcs := by
  simp only [step]
  cases getH s h with
  | none => rfl
  | some hd => exact takeVec_srcs ..

theorem norm_op_mutateLeak {cfg : Cfg} {s : State} (h : Nat) (script : List VecOp) :
    Wf cfg s → NormOk cfg s → NormOk cfg (step cfg s (.mutateLeak h script)).1 := by
  intro w hno
  cases hg : getH s h with
  | none => simp only [step, hg]; exact hno
  | some hd => exact (mutateLeak_spec w hg script).2.2.2 hno

end HipVerif.Core
