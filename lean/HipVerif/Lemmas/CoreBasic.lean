/-
Basic facts about the accessors and primitive transformers of the Core state machine.
-/
import HipVerif.Model.CoreWf

namespace HipVerif.Core

/-! ### pool / inners accessors -/

@[simp] theorem getH_setH_same (s : State) (h : Nat) (v : Option Handle) (hl : h < s.pool.length) :
    getH (setH s h v) h = v := by
  simp [getH, setH, hl]

@[simp] theorem getH_setH_other (s : State) (h h' : Nat) (v : Option Handle) (hne : h ≠ h') :
    getH (setH s h v) h' = getH s h' := by
  simp [getH, setH, List.getElem?_set_ne hne]

theorem getH_some_lt {s : State} {h : Nat} {hd : Handle} (hg : getH s h = some hd) : h < s.pool.length := by
  unfold getH at hg
  by_cases hl : h < s.pool.length
  · exact hl
  · simp [List.getElem?_eq_none (Nat.le_of_not_lt hl)] at hg

theorem getH_eq_getElem {s : State} {h : Nat} (hl : h < s.pool.length) : getH s h = s.pool[h] := by
  simp [getH, hl]

@[simp] theorem getI_setH (s : State) (h : Nat) (v : Option Handle) (i : Nat) :
    getI (setH s h v) i = getI s i := rfl

@[simp] theorem srcs_setH (s : State) (h : Nat) (v : Option Handle) : (setH s h v).srcs = s.srcs := rfl
@[simp] theorem nextBuf_setH (s : State) (h : Nat) (v : Option Handle) : (setH s h v).nextBuf = s.nextBuf := rfl
@[simp] theorem inners_setH (s : State) (h : Nat) (v : Option Handle) : (setH s h v).inners = s.inners := rfl
@[simp] theorem pool_length_setH (s : State) (h : Nat) (v : Option Handle) :
    (setH s h v).pool.length = s.pool.length := by simp [setH]

@[simp] theorem getH_setI (s : State) (i : Nat) (x : Inner) (h : Nat) : getH (setI s i x) h = getH s h := rfl
@[simp] theorem srcs_setI (s : State) (i : Nat) (x : Inner) : (setI s i x).srcs = s.srcs := rfl
@[simp] theorem nextBuf_setI (s : State) (i : Nat) (x : Inner) : (setI s i x).nextBuf = s.nextBuf := rfl
@[simp] theorem pool_setI (s : State) (i : Nat) (x : Inner) : (setI s i x).pool = s.pool := rfl

theorem getI_some_lt {s : State} {i : Nat} {x : Inner} (hg : getI s i = some x) : i < s.inners.length := by
  unfold getI at hg
  by_cases hl : i < s.inners.length
  · exact hl
  · simp [List.getElem?_eq_none (Nat.le_of_not_lt hl)] at hg

@[simp] theorem getI_setI_same (s : State) (i : Nat) (x : Inner) (hl : i < s.inners.length) :
    getI (setI s i x) i = some x := by
  simp [getI, setI, hl]

@[simp] theorem getI_setI_other (s : State) (i j : Nat) (x : Inner) (hne : i ≠ j) :
    getI (setI s i x) j = getI s j := by
  simp [getI, setI, List.getElem?_set_ne hne]

/-! ### reference counting over the pool -/

@[simp] theorem refsTo_setI (s : State) (i : Nat) (x : Inner) (j : Nat) : refsTo (setI s i x) j = refsTo s j := rfl

theorem refsTo_setH (s : State) (h : Nat) (v : Option Handle) (i : Nat) (hl : h < s.pool.length) :
    refsTo (setH s h v) i =
      refsTo s i - (if pointsTo i (getH s h) then 1 else 0) + (if pointsTo i v then 1 else 0) := by
  simp only [refsTo, setH, List.countP_set hl, getH_eq_getElem hl]

/-- a live handle that points to `i` is counted -/
theorem refsTo_pos_of_getH {s : State} {h : Nat} {hd : Handle} {i : Nat}
    (hg : getH s h = some hd) (hp : pointsTo i (some hd) = true) : 0 < refsTo s i := by
  have hl := getH_some_lt hg
  have : s.pool[h] = some hd := by rw [← getH_eq_getElem hl]; exact hg
  unfold refsTo
  apply List.countP_pos_iff.mpr
  exact ⟨some hd, by rw [← this]; exact List.getElem_mem hl, hp⟩

@[simp] theorem pointsTo_none (i : Nat) : pointsTo i none = false := rfl

theorem pointsTo_heap (i o b off len : Nat) (t : Bool) :
    pointsTo i (some { repr := .heap o b off len, tainted := t }) = (o == i) := rfl

theorem pointsTo_inline (i : Nat) (bs : List UInt8) (t : Bool) :
    pointsTo i (some { repr := .inline bs, tainted := t }) = false := rfl

theorem pointsTo_borrowed (i a b c : Nat) (t : Bool) :
    pointsTo i (some { repr := .borrowed a b c, tainted := t }) = false := rfl

/-! ### `Wf` is `WfX` with nothing held -/

theorem wf_iff_wfx (cfg : Cfg) (s : State) : Wf cfg s ↔ WfX cfg s [] := by
  constructor
  · intro w
    exact { handles := w.handles, held := (by intro i hi; cases hi),
            counts := (by intro i x hg hl; simpa using w.counts i x hg hl),
            uniq := w.uniq, ceil := w.ceil, dead := w.dead, datacap := w.datacap,
            bufFresh := w.bufFresh, bufDistinct := w.bufDistinct }
  · intro w
    exact { handles := w.handles,
            counts := (by intro i x hg hl; simpa using w.counts i x hg hl),
            uniq := w.uniq, ceil := w.ceil, dead := w.dead, datacap := w.datacap,
            bufFresh := w.bufFresh, bufDistinct := w.bufDistinct }

/-- the initial state is well-formed -/
theorem wf_init (cfg : Cfg) (srcs : List (List UInt8)) (n : Nat) : Wf cfg (init srcs n) := by
  have hget : ∀ i, getI (init srcs n) i = none := by intro i; simp [getI, init]
  refine { handles := ?_, counts := ?_, uniq := ?_, ceil := ?_, dead := ?_, datacap := ?_,
           bufFresh := ?_, bufDistinct := ?_ }
  · intro h hd hg
    have : getH (init srcs n) h = none := by
      simp only [getH, init]
      by_cases hl : h < n
      · simp [hl]
      · have : (List.replicate n (none : Option Handle))[h]? = none :=
          List.getElem?_eq_none (by simpa using Nat.le_of_not_lt hl)
        simp [this]
    rw [this] at hg; cases hg
  all_goals (intros; simp_all)

end HipVerif.Core
