/-
The tag byte of the three representations (C07: `Option<Hip*>` has a niche because the first
byte of a value is never zero), over the constants GENERATED from src/bytes/raw.rs.

* inline:    first byte = `(len << TAG_BITS) | TAG_INLINE`   (`TaggedU8::new`), `len ≤ INLINE_CAPACITY`
* borrowed:  first byte = `TAG_BORROWED`
* allocated: first word = `addr | TAG_ALLOCATED` with `addr` the address of a `Box<Inner>`
             (aligned to at least 4), so the first byte (little endian) is `(addr | 3) % 256`
-/
import HipVerif.Gen.Consts

namespace HipVerif.Tags
open HipVerif.Gen.Consts

def inlineByte (len : Nat) : Nat := (len <<< inlineShift) ||| inlineTag
def borrowedByte : Nat := tagBorrowed
def allocatedWord (addr : Nat) : Nat := addr ||| tagAllocated

/-- tag extraction as in `HipByt::tag`: `byte & MASK` -/
def tagOf (byte : Nat) : Nat := byte &&& mask

theorem tags_distinct_nonzero :
    tagInline ≠ 0 ∧ tagBorrowed ≠ 0 ∧ tagAllocated ≠ 0 ∧
    tagInline ≠ tagBorrowed ∧ tagInline ≠ tagAllocated ∧ tagBorrowed ≠ tagAllocated ∧
    tagInline ≤ mask ∧ tagBorrowed ≤ mask ∧ tagAllocated ≤ mask ∧ mask = 2 ^ tagBits - 1 := by
  decide

/-- every inline length fits the tagged byte, the byte is non-zero and decodes back to the
length and to the inline tag -/
theorem inline_byte_ok : ∀ len, len ≤ inlineCapacity →
    inlineByte len < 256 ∧ inlineByte len ≠ 0 ∧ tagOf (inlineByte len) = tagInline ∧
    inlineByte len >>> inlineShift = len := by
  have h : ∀ len, len < inlineCapacity + 1 →
      (inlineByte len < 256 ∧ inlineByte len ≠ 0 ∧ tagOf (inlineByte len) = tagInline ∧
        inlineByte len >>> inlineShift = len) := by decide
  intro len hl
  exact h len (Nat.lt_succ_of_le hl)

theorem borrowed_byte_ok : borrowedByte ≠ 0 ∧ tagOf borrowedByte = tagBorrowed := by decide

/-- a 4-aligned address tagged with `TAG_ALLOCATED` has a non-zero first byte carrying the tag -/
theorem allocated_word_ok (addr : Nat) (ha : addr % 4 = 0) :
    (allocatedWord addr) % 256 ≠ 0 ∧ tagOf ((allocatedWord addr) % 256) = tagAllocated := by
  obtain ⟨k, rfl⟩ : ∃ k, addr = 4 * k := ⟨addr / 4, by omega⟩
  have hor : (4 * k) ||| 3 = 4 * k + 3 := by
    have : 4 * k = k <<< 2 := by simp [Nat.shiftLeft_eq, Nat.mul_comm]
    rw [this, ← Nat.shiftLeft_add_eq_or_of_lt (by decide : 3 < 2 ^ 2)]
  have hmod : (4 * k + 3) % 256 % 4 = 3 := by omega
  refine ⟨?_, ?_⟩
  · show ((4 * k) ||| 3) % 256 ≠ 0
    rw [hor]; omega
  · show (((4 * k) ||| 3) % 256) &&& 3 = 3
    rw [hor]
    have : ∀ n, n &&& 3 = n % 4 := fun n => by
      have := Nat.and_two_pow_sub_one_eq_mod n 2
      simpa using this
    rw [this]; exact hmod

end HipVerif.Tags
