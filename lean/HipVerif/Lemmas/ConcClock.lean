import HipVerif.Lemmas.ConcCountStep

/-!
# C04, happens-before half: the invariant `Wf2` and its preservation

On top of the shape conditions this half needs the ordering conditions `Ords`: the decrement
is a release, the `Overflow` branch of `decr` and the `true` branch of `is_unique` acquire.
-/

namespace HipVerif.Model.Conc
open HipVerif.Model

/-- The ordering conditions, on the normal form of the description. -/
structure Ords {c : Cfg} (sh : Shape c) : Prop where
  decr_release : sh.od.isRelease = true
  decr_acquire : (sh.od.isAcquire || acqFenceArm sh.dthn) = true
  uniq_acquire : (sh.ul.isAcquire || acqFenceArm sh.uthn) = true

/-- The ordering conditions (decidable on a concrete description). -/
def OrdOk (c : Cfg) : Prop :=
  decrIsRelease c.proto = true ∧ decrAcquires c.proto = true ∧ uniqAcquires c.proto = true

theorem Ords.ofOk {c : Cfg} (sh : Shape c) (h : OrdOk c) : Ords sh := by
  obtain ⟨h1, h2, h3⟩ := h
  simp only [decrIsRelease, decrAcquires, uniqAcquires, sh.hdecr, sh.huniq] at h1 h2 h3
  exact ⟨h1, h2, h3⟩

/-- The pending (not yet fenced) view will be joined before the method returns. -/
def pendUse (th : Thread) : Bool :=
  match th.pc with
  | some pc => localAcq pc.code
  | none => false

/-- What the thread will know when its in-flight method returns. -/
def know (th : Thread) : List Nat := if pendUse th then vjoin th.view th.pend else th.view

/-- The happens-before invariant. -/
structure Wf2 (c : Cfg) (s : State) : Prop where
  /-- a thread knows its own accesses -/
  B : ∀ (t : Nat) th, s.thr[t]? = some th → vat s.acc t ≤ vat th.view t
  /-- only existing threads access the payload -/
  N : ∀ (u : Nat), s.thr[u]? = none → vat s.acc u = 0
  /-- `K`: the payload accesses of a thread that holds neither a handle nor a reference are covered
  by the release view of the count's last message, or are known to a thread that still holds a handle -/
  K : s.freed = 0 → ∀ (u : Nat) uh, s.thr[u]? = some uh → owned uh = 0 → uh.refs = [] →
        excl uh = false →
        vat s.acc u ≤ vat s.last.rel u ∨
        ∃ (t : Nat) (th : Thread), s.thr[t]? = some th ∧ 1 ≤ owned th ∧ vat s.acc u ≤ vat th.view u
  /-- every write happens-before whatever an owner or a borrower does -/
  R : ∀ (t : Nat) th, s.thr[t]? = some th → (1 ≤ owned th ∨ th.refs ≠ []) →
        ∀ u : Nat, vat s.wr u ≤ vat th.view u
  /-- a thread with exclusive access knows (after its pending fence) every access -/
  XK : ∀ (t : Nat) th, s.thr[t]? = some th → excl th = true → ∀ u : Nat, vat s.acc u ≤ vat (know th) u
  race : s.race = false
  uaf : s.uaf = false

/-- A step of thread `t` that touches neither the count nor the payload. -/
theorem Wf2.upd {c : Cfg} {s s' : State} (h : Wf2 c s) {t : Nat} {th th' : Thread}
    (ht : s.thr[t]? = some th)
    (hthr : s'.thr = s.thr.set t th') (hlast : s'.last = s.last) (hfreed : s'.freed = s.freed)
    (hacc : s'.acc = s.acc) (hwr : s'.wr = s.wr) (hrace : s'.race = s.race)
    (huaf : s'.uaf = s.uaf ∨ (s.freed = 0 ∧ s'.uaf = (s.uaf || decide (0 < s.freed))))
    (hown : owned th' = owned th) (hrefs : th'.refs = th.refs)
    (hview : ∀ u : Nat, vat th.view u ≤ vat th'.view u)
    (hexcl0 : excl th' = false → owned th = 0 → excl th = false)
    (hknow : excl th' = true → ∀ u : Nat, vat s.acc u ≤ vat (know th') u) :
    Wf2 c s' := by
  have huaf' : s'.uaf = false := by
    rcases huaf with hu | ⟨hf0, hu⟩
    · rw [hu]; exact h.uaf
    · rw [hu, h.uaf, hf0]; simp
  refine ⟨?_, ?_, ?_, ?_, ?_, by rw [hrace]; exact h.race, huaf'⟩
  · intro u uh hu
    rw [hthr] at hu
    rw [hacc]
    rcases get_set_cases ht hu with ⟨rfl, rfl⟩ | ⟨_, hu'⟩
    · exact Nat.le_trans (h.B _ th ht) (hview _)
    · exact h.B u uh hu'
  · intro u hu
    rw [hacc]
    apply h.N
    rw [hthr] at hu
    by_cases hut : u = t
    · subst hut; rw [get_set_self ht] at hu; simp at hu
    · rw [get_set_ne hut] at hu; exact hu
  · intro hf u uh hu ho hr hx
    rw [hfreed] at hf
    rw [hthr] at hu
    rw [hacc, hlast]
    have hold : vat s.acc u ≤ vat s.last.rel u ∨
        ∃ (v : Nat) (vh : Thread), s.thr[v]? = some vh ∧ 1 ≤ owned vh ∧ vat s.acc u ≤ vat vh.view u := by
      rcases get_set_cases ht hu with ⟨rfl, rfl⟩ | ⟨_, hu'⟩
      · exact h.K hf _ th ht (by omega) (hrefs ▸ hr) (hexcl0 hx (by omega))
      · exact h.K hf u uh hu' ho hr hx
    rcases hold with hl | ⟨v, vh, hv, hvo, hvk⟩
    · exact Or.inl hl
    · right
      by_cases hvt : v = t
      · subst hvt
        have : vh = th := by rw [ht] at hv; injection hv with hv; exact hv.symm
        subst this
        exact ⟨v, th', by rw [hthr]; exact get_set_self ht, by omega, Nat.le_trans hvk (hview _)⟩
      · exact ⟨v, vh, by rw [hthr, get_set_ne hvt]; exact hv, hvo, hvk⟩
  · intro u uh hu ho w
    rw [hthr] at hu
    rw [hwr]
    rcases get_set_cases ht hu with ⟨rfl, rfl⟩ | ⟨_, hu'⟩
    · exact Nat.le_trans (h.R _ th ht (by rw [← hown, ← hrefs]; exact ho) w) (hview _)
    · exact h.R u uh hu' ho w
  · intro u uh hu hx w
    rw [hthr] at hu
    rw [hacc]
    rcases get_set_cases ht hu with ⟨rfl, rfl⟩ | ⟨_, hu'⟩
    · exact hknow hx w
    · exact h.XK u uh hu' hx w

theorem vat_tick (th : Thread) (t u : Nat) :
    vat (tick th t).view u = if u = t then vat th.view t + 1 else vat th.view u := by
  simp [tick]

theorem vat_tick_le (th : Thread) (t u : Nat) : vat th.view u ≤ vat (tick th t).view u := by
  rw [vat_tick]; split
  · subst_vars; omega
  · exact Nat.le_refl _

theorem vat_acquireInto_view_le (th : Thread) (o : Ord) (r : List Nat) (u : Nat) :
    vat th.view u ≤ vat (acquireInto th o r).view u := by
  unfold acquireInto; split
  · simp only [vat, vat_vjoin]; omega
  · exact Nat.le_refl _

theorem vat_acquireInto_view_le' (th : Thread) (o : Ord) (r : List Nat) (u : Nat) (v : List Nat)
    (hv : th.view = v) : vat v u ≤ vat (acquireInto th o r).view u := by
  subst hv; exact vat_acquireInto_view_le th o r u

/-- In a state where `t` can use the buffer, nothing is freed and nobody else has exclusive access. -/
theorem Wf1.owner_facts {c : Cfg} {s : State} (h1 : Wf1 c s) {t : Nat} {th : Thread}
    (ht : s.thr[t]? = some th) (ho : 1 ≤ owned th ∨ th.refs ≠ []) :
    s.freed = 0 ∧ ∀ (u : Nat) uh, u ≠ t → s.thr[u]? = some uh → excl uh = false :=
  ⟨(h1.user_facts ht ho).1, (h1.user_facts ht ho).2.2⟩

/-- When `t` holds the only handle and that handle is not lent, no reference is out. -/
theorem Wf1.sole_no_refs {c : Cfg} {s : State} (h1 : Wf1 c s) {t : Nat} {th : Thread}
    (ht : s.thr[t]? = some th) (ho : owned th = 1) (htot : total s = 1)
    (hp : th.handles = 0 ∨ pinned s t = false) {w : Nat} {wh : Thread}
    (hw : s.thr[w]? = some wh) : wh.refs = [] := by
  cases hr : wh.refs with
  | nil => rfl
  | cons l rest =>
    exfalso
    have hl : l ∈ wh.refs := by rw [hr]; simp
    obtain ⟨lh, hlh, hh⟩ := h1.Rf w wh l hw hl
    by_cases hlt : l = t
    · subst hlt
      have : lh = th := by rw [ht] at hlh; injection hlh with hlh; exact hlh.symm
      subst this
      rcases hp with hp | hp
      · omega
      · exact not_mem_of_not_pinned hp hw hl
    · have := owned_add_le_total s l t lh th hlt hlh ht
      have : 1 ≤ owned lh := by simp [owned]; omega
      omega

/-- A payload read by an owner. -/
theorem Wf2.read {c : Cfg} {s s' : State} (h1 : Wf1 c s) (h : Wf2 c s) {t : Nat} {th th' : Thread}
    (ht : s.thr[t]? = some th) (hown1 : 1 ≤ owned th ∨ th.refs ≠ []) (hown : owned th' = owned th)
    (hrefs : th'.refs = th.refs)
    (hpc : th'.pc = none) (hview : th'.view = (tick th t).view)
    (hthr : s'.thr = s.thr.set t th') (hlast : s'.last = s.last)
    (hacc : s'.acc = vset s.acc t (vat th'.view t)) (hwr : s'.wr = s.wr)
    (hrace : s'.race = (s.race || !vleb s.wr th'.view))
    (huaf : s'.uaf = (s.uaf || decide (0 < s.freed))) : Wf2 c s' := by
  obtain ⟨hf0, hnox⟩ := h1.owner_facts ht hown1
  have hmono : ∀ u : Nat, vat th.view u ≤ vat th'.view u := by
    intro u; rw [hview]; exact vat_tick_le th t u
  refine ⟨?_, ?_, ?_, ?_, ?_, ?_, ?_⟩
  · intro u uh hu
    rw [hthr] at hu
    rw [hacc]
    rcases get_set_cases ht hu with ⟨rfl, rfl⟩ | ⟨hne, hu'⟩
    · simp
    · simp only [vat, vat_vset, if_neg hne]; exact h.B u uh hu'
  · intro u hu
    rw [hthr] at hu
    by_cases hut : u = t
    · subst hut; rw [get_set_self ht] at hu; simp at hu
    · rw [get_set_ne hut] at hu
      rw [hacc]; simp only [vat, vat_vset, if_neg hut]; exact h.N u hu
  · intro hf u uh hu ho hr hx
    rw [hthr] at hu
    rw [hlast, hacc]
    rcases get_set_cases ht hu with ⟨rfl, rfl⟩ | ⟨hne, hu'⟩
    · rcases hown1 with h' | h'
      · omega
      · exact absurd (hrefs ▸ hr) h'
    · simp only [vat, vat_vset, if_neg hne]
      rcases h.K hf0 u uh hu' ho hr hx with hl | ⟨v, vh, hv, hvo, hvk⟩
      · exact Or.inl hl
      · right
        by_cases hvt : v = t
        · subst hvt
          have : vh = th := by rw [ht] at hv; injection hv with hv; exact hv.symm
          subst this
          exact ⟨v, th', by rw [hthr]; exact get_set_self ht, by omega, Nat.le_trans hvk (hmono _)⟩
        · exact ⟨v, vh, by rw [hthr, get_set_ne hvt]; exact hv, hvo, hvk⟩
  · intro u uh hu ho w
    rw [hthr] at hu
    rw [hwr]
    rcases get_set_cases ht hu with ⟨rfl, rfl⟩ | ⟨_, hu'⟩
    · exact Nat.le_trans (h.R _ th ht hown1 w) (hmono _)
    · exact h.R u uh hu' ho w
  · intro u uh hu hx w
    rw [hthr] at hu
    rcases get_set_cases ht hu with ⟨rfl, rfl⟩ | ⟨hne, hu'⟩
    · simp [excl, hpc] at hx
    · rw [hnox u uh hne hu'] at hx; simp at hx
  · rw [hrace, h.race]
    have : vleb s.wr th'.view = true := by
      rw [vleb_iff]; intro u
      exact Nat.le_trans (h.R t th ht hown1 u) (hmono u)
    simp [this]
  · rw [huaf, h.uaf, hf0]; simp

/-- A payload write or the free, by a thread with exclusive access whose fences are done. -/
theorem Wf2.exclAccess {c : Cfg} {s s' : State} (h1 : Wf1 c s) (h : Wf2 c s) {t : Nat} {th th' : Thread}
    (ht : s.thr[t]? = some th) (hx : excl th = true) (hpu : pendUse th = false)
    (hpc : th'.pc = none) (hview : th'.view = (tick th t).view) (hrefs : th'.refs = th.refs)
    (hthr : s'.thr = s.thr.set t th') (hlast : s'.last = s.last)
    (hcase : (s'.freed = s.freed ∧ owned th' = owned th ∧ 1 ≤ owned th) ∨
             (s'.freed = s.freed + 1 ∧ owned th' = 0))
    (hacc : s'.acc = vset s.acc t (vat th'.view t)) (hwr : s'.wr = vset s.wr t (vat th'.view t))
    (hrace : s'.race = (s.race || !vleb s.acc th'.view))
    (huaf : s'.uaf = (s.uaf || decide (0 < s.freed))) : Wf2 c s' := by
  obtain ⟨hoth, _, hf0⟩ := h1.X t th ht hx
  have hmono : ∀ u : Nat, vat th.view u ≤ vat th'.view u := by
    intro u; rw [hview]; exact vat_tick_le th t u
  have hknow : ∀ u : Nat, vat s.acc u ≤ vat th.view u := by
    intro u
    have := h.XK t th ht hx u
    simpa [know, hpu] using this
  refine ⟨?_, ?_, ?_, ?_, ?_, ?_, ?_⟩
  · intro u uh hu
    rw [hthr] at hu
    rw [hacc]
    rcases get_set_cases ht hu with ⟨rfl, rfl⟩ | ⟨hne, hu'⟩
    · simp
    · simp only [vat, vat_vset, if_neg hne]; exact h.B u uh hu'
  · intro u hu
    rw [hthr] at hu
    by_cases hut : u = t
    · subst hut; rw [get_set_self ht] at hu; simp at hu
    · rw [get_set_ne hut] at hu
      rw [hacc]; simp only [vat, vat_vset, if_neg hut]; exact h.N u hu
  · intro hf u uh hu ho _ hxu
    rcases hcase with ⟨hfr, hown, hown1⟩ | ⟨hfr, _⟩
    · rw [hthr] at hu
      rw [hlast, hacc]
      rcases get_set_cases ht hu with ⟨rfl, rfl⟩ | ⟨hne, hu'⟩
      · omega
      · simp only [vat, vat_vset, if_neg hne]
        right
        exact ⟨t, th', by rw [hthr]; exact get_set_self ht, by omega,
          Nat.le_trans (hknow u) (hmono u)⟩
    · omega
  · intro u uh hu ho w
    rw [hthr] at hu
    rw [hwr]
    rcases get_set_cases ht hu with ⟨rfl, rfl⟩ | ⟨hne, hu'⟩
    · rcases hcase with ⟨_, hown, hown1⟩ | ⟨_, hown0⟩
      · by_cases hw : w = u
        · subst hw; simp
        · simp only [vat, vat_vset, if_neg hw]
          exact Nat.le_trans (h.R _ th ht (Or.inl hown1) w) (hmono w)
      · rcases ho with ho | ho
        · omega
        · exact absurd (hrefs ▸ h1.excl_no_refs ht hx ht) ho
    · rcases ho with ho | ho
      · have := (hoth u uh hne hu').1; omega
      · exact absurd (h1.excl_no_refs ht hx hu') ho
  · intro u uh hu hxu w
    rw [hthr] at hu
    rcases get_set_cases ht hu with ⟨rfl, rfl⟩ | ⟨hne, hu'⟩
    · simp [excl, hpc] at hxu
    · rw [(hoth u uh hne hu').2] at hxu; simp at hxu
  · rw [hrace, h.race]
    have : vleb s.acc th'.view = true := by
      rw [vleb_iff]; intro u
      exact Nat.le_trans (hknow u) (hmono u)
    simp [this]
  · rw [huaf, h.uaf, hf0]; simp

/-- The decrement of `drop`. -/
theorem Wf2.rmwSub {c : Cfg} {s : State} (h1 : Wf1 c s) (h : Wf2 c s) {t : Nat} {th : Thread}
    (ht : s.thr[t]? = some th) {code : List AStep} {old : Nat}
    (hpc : th.pc = some ⟨.drop, code, old⟩) (hcode : localRet code = none)
    (o : Ord) (code' : List AStep) (hrel : o.isRelease = true)
    (hcode' : localRet code' = some (if s.last.val = 0 then Ret.overflow else Ret.done))
    (hacq : s.last.val = 0 → (o.isAcquire || localAcq code') = true) (nv : Nat) :
    Wf2 c (doRmw s t th o nv ⟨.drop, code', s.last.val⟩) := by
  have hown : owned th = th.handles + 1 := by simp [owned, inflight, hpc, hcode]
  have huse : 1 ≤ owned th ∨ th.refs ≠ [] := Or.inl (by omega)
  obtain ⟨hf0, hnox⟩ := h1.owner_facts ht (Or.inl (by omega))
  have hle := owned_le_total s t th ht
  have htr := h1.track (by omega)
  generalize hth' : acquireInto { th with coh := s.hist.length + 1, pc := some ⟨.drop, code', s.last.val⟩ } o s.last.rel = th'
  have hs' : doRmw s t th o nv ⟨.drop, code', s.last.val⟩ =
      { s with hist := s.hist ++ [s.last],
               last := { val := nv, rel := vjoin (if o.isRelease then th.view else []) s.last.rel },
               thr := s.thr.set t th', uaf := s.uaf || decide (0 < s.freed) } := by
    subst hth'; rfl
  rw [hs']
  have hmono : ∀ u : Nat, vat th.view u ≤ vat th'.view u := by
    intro u; subst hth'
    exact vat_acquireInto_view_le { th with coh := s.hist.length + 1, pc := some ⟨.drop, code', s.last.val⟩ } o s.last.rel u
  have hret : localRet code' ≠ none := by rw [hcode']; simp
  have hown' : owned th' = th.handles := by
    subst hth'; simp [owned, inflight, hret]
  have hexcl' : excl th' = decide (s.last.val = 0) := by
    subst hth'
    rw [excl_acquireInto]
    show (localRet code' == some Ret.overflow) = _
    rw [hcode']
    by_cases hv : s.last.val = 0 <;> simp [hv]
  have hrelv : ∀ u : Nat, max (vat th.view u) (vat s.last.rel u) ≤
      vat (vjoin (if o.isRelease then th.view else []) s.last.rel) u := by
    intro u; simp [hrel]
  refine ⟨?_, ?_, ?_, ?_, ?_, h.race, by simp [h.uaf, hf0]⟩
  · intro u uh hu
    rcases get_set_cases ht hu with ⟨rfl, rfl⟩ | ⟨_, hu'⟩
    · exact Nat.le_trans (h.B _ th ht) (hmono _)
    · exact h.B u uh hu'
  · intro u hu
    apply h.N
    by_cases hut : u = t
    · subst hut; rw [get_set_self ht] at hu; simp at hu
    · rw [get_set_ne hut] at hu; exact hu
  · intro hf u uh hu ho hr hx
    dsimp only at hu ⊢
    rcases get_set_cases ht hu with ⟨rfl, rfl⟩ | ⟨hne, hu'⟩
    · left
      have := h.B _ th ht
      exact Nat.le_trans (by omega) (hrelv _)
    · rcases h.K hf0 u uh hu' ho hr hx with hl | ⟨v, vh, hv, hvo, hvk⟩
      · left; exact Nat.le_trans (by omega) (hrelv u)
      · by_cases hvt : v = t
        · subst hvt
          have : vh = th := by rw [ht] at hv; injection hv with hv; exact hv.symm
          subst this
          left; exact Nat.le_trans (by omega) (hrelv u)
        · right
          exact ⟨v, vh, by rw [get_set_ne hvt]; exact hv, hvo, hvk⟩
  · intro u uh hu ho w
    rcases get_set_cases ht hu with ⟨rfl, rfl⟩ | ⟨_, hu'⟩
    · exact Nat.le_trans (h.R _ th ht huse w) (hmono _)
    · exact h.R u uh hu' ho w
  · intro u uh hu hx w
    dsimp only at hu ⊢
    rcases get_set_cases ht hu with ⟨rfl, huh⟩ | ⟨hne, hu'⟩
    · -- `t` read `0`: it was the only owner
      rw [huh] at hx ⊢
      rw [hexcl'] at hx
      simp at hx
      have hkn : ∀ x : Nat, max (vat th.view x) (vat s.last.rel x) ≤ vat (know th') x := by
        intro x
        have hq := hacq hx
        subst hth'
        simp only [know, pendUse, acquireInto_pc]
        simp only [acquireInto]
        by_cases ha : o.isAcquire = true
        · simp only [ha, if_true]
          split <;> simp [vat] <;> omega
        · have hl : localAcq code' = true := by simpa [ha] using hq
          simp [ha, hl, vat]; omega
      refine Nat.le_trans ?_ (hkn w)
      cases hw : s.thr[w]? with
      | none => rw [h.N w hw]; omega
      | some wh =>
        by_cases hwu : w = u
        · subst hwu
          have : wh = th := by rw [ht] at hw; injection hw with hw; exact hw.symm
          subst this
          have := h.B _ wh ht; omega
        · have hadd := owned_add_le_total s u w th wh (Ne.symm hwu) ht hw
          have hnr : wh.refs = [] :=
            h1.sole_no_refs ht (by omega) (by omega) (Or.inl (by omega)) hw
          rcases h.K hf0 w wh hw (by omega) hnr (hnox w wh hwu hw) with hl | ⟨v, vh, hv, hvo, hvk⟩
          · omega
          · by_cases hvt : v = u
            · subst hvt
              have : vh = th := by rw [ht] at hv; injection hv with hv; exact hv.symm
              subst this
              omega
            · have := owned_add_le_total s u v th vh (Ne.symm hvt) ht hv
              omega
    · rw [hnox u uh hne hu'] at hx; simp at hx

/-- The successful compare-exchange of `clone`. -/
theorem Wf2.casSucc {c : Cfg} {s : State} (h1 : Wf1 c s) (h : Wf2 c s) {t : Nat} {th : Thread}
    (ht : s.thr[t]? = some th) {code : List AStep} {old : Nat}
    (hpc : th.pc = some ⟨.clone, code, old⟩) (hcode : localRet code = none)
    (o : Ord) (nv : Nat) :
    Wf2 c (doRmw s t th o nv ⟨.clone, [.ret .done], old⟩) := by
  have hown : owned th = th.handles := by simp [owned, inflight, hpc, hcode]
  have huse : 1 ≤ owned th ∨ th.refs ≠ [] := by
    rcases (h1.pcok t th _ ht hpc).2.1 (Or.inl rfl) with h' | h'
    · exact Or.inl (by omega)
    · exact Or.inr h'
  obtain ⟨hf0, hnox⟩ := h1.owner_facts ht huse
  generalize hth' : acquireInto { th with coh := s.hist.length + 1, pc := some ⟨.clone, [.ret .done], old⟩ } o s.last.rel = th'
  have hs' : doRmw s t th o nv ⟨.clone, [.ret .done], old⟩ =
      { s with hist := s.hist ++ [s.last],
               last := { val := nv, rel := vjoin (if o.isRelease then th.view else []) s.last.rel },
               thr := s.thr.set t th', uaf := s.uaf || decide (0 < s.freed) } := by
    subst hth'; rfl
  rw [hs']
  have hmono : ∀ u : Nat, vat th.view u ≤ vat th'.view u := by
    intro u; subst hth'
    exact vat_acquireInto_view_le { th with coh := s.hist.length + 1, pc := some ⟨.clone, [.ret .done], old⟩ } o s.last.rel u
  have hown' : owned th' = th.handles + 1 := by
    subst hth'; simp [owned, inflight, localRet]
  have hexcl' : excl th' = false := by
    subst hth'; simp [excl]
  have hrelv : ∀ u : Nat, vat s.last.rel u ≤
      vat (vjoin (if o.isRelease then th.view else []) s.last.rel) u := by
    intro u; simp only [vat, vat_vjoin]; omega
  refine ⟨?_, ?_, ?_, ?_, ?_, h.race, by simp [h.uaf, hf0]⟩
  · intro u uh hu
    rcases get_set_cases ht hu with ⟨rfl, rfl⟩ | ⟨_, hu'⟩
    · exact Nat.le_trans (h.B _ th ht) (hmono _)
    · exact h.B u uh hu'
  · intro u hu
    apply h.N
    by_cases hut : u = t
    · subst hut; rw [get_set_self ht] at hu; simp at hu
    · rw [get_set_ne hut] at hu; exact hu
  · intro hf u uh hu ho hr hx
    dsimp only at hu ⊢
    rcases get_set_cases ht hu with ⟨rfl, huh⟩ | ⟨hne, hu'⟩
    · rw [huh] at ho; omega
    · rcases h.K hf0 u uh hu' ho hr hx with hl | ⟨v, vh, hv, hvo, hvk⟩
      · left; exact Nat.le_trans hl (hrelv u)
      · right
        by_cases hvt : v = t
        · subst hvt
          have : vh = th := by rw [ht] at hv; injection hv with hv; exact hv.symm
          subst this
          exact ⟨v, th', get_set_self ht, by omega, Nat.le_trans hvk (hmono _)⟩
        · exact ⟨v, vh, by rw [get_set_ne hvt]; exact hv, hvo, hvk⟩
  · intro u uh hu ho w
    rcases get_set_cases ht hu with ⟨rfl, rfl⟩ | ⟨_, hu'⟩
    · exact Nat.le_trans (h.R _ th ht huse w) (hmono _)
    · exact h.R u uh hu' ho w
  · intro u uh hu hx w
    dsimp only at hu
    rcases get_set_cases ht hu with ⟨rfl, huh⟩ | ⟨hne, hu'⟩
    · rw [huh, hexcl'] at hx; simp at hx
    · rw [hnox u uh hne hu'] at hx; simp at hx

/-- Handing a handle from the idle thread `t` to the idle thread `u`. -/
theorem Wf2.send {c : Cfg} {s : State} (h1 : Wf1 c s) (h : Wf2 c s) {t u : Nat} {th uh : Thread}
    (ht : s.thr[t]? = some th) (hu : s.thr[u]? = some uh) (htu : t ≠ u)
    (hpt : th.pc = none) (hpu : uh.pc = none) (hh : 1 ≤ th.handles) (k : Nat)
    (th' uh' : Thread) (hth' : { th with handles := th.handles - 1 } = th')
    (huh' : { uh with handles := uh.handles + 1, view := vjoin uh.view th.view, coh := k } = uh') :
    Wf2 c { s with thr := (s.thr.set t th').set u uh' } := by
  have hownt : owned th = th.handles := by simp [owned, inflight, hpt]
  have hownt' : owned th' = th.handles - 1 := by subst hth'; simp [owned, inflight, hpt]
  have hownu' : owned uh' = uh.handles + 1 := by subst huh'; simp [owned, inflight, hpu]
  have hxt' : excl th' = false := by subst hth'; simp [excl, hpt]
  have hxu' : excl uh' = false := by subst huh'; simp [excl, hpu]
  have hvt' : th'.view = th.view := by subst hth'; rfl
  have hvu' : ∀ w : Nat, vat uh'.view w = max (vat uh.view w) (vat th.view w) := by
    intro w; subst huh'; simp [vat]
  obtain ⟨hf0, hnox⟩ := h1.owner_facts ht (Or.inl (by omega))
  have hu1 : (s.thr.set t th')[u]? = some uh := by rw [get_set_ne (Ne.symm htu)]; exact hu
  have hlook : ∀ (w : Nat) wh, ((s.thr.set t th').set u uh')[w]? = some wh →
      (w = u ∧ wh = uh') ∨ (w = t ∧ wh = th') ∨ (w ≠ t ∧ w ≠ u ∧ s.thr[w]? = some wh) := by
    intro w wh hw
    rcases get_set_cases hu1 hw with ⟨rfl, rfl⟩ | ⟨hne, hw'⟩
    · exact Or.inl ⟨rfl, rfl⟩
    · rcases get_set_cases ht hw' with ⟨rfl, rfl⟩ | ⟨hne', hw''⟩
      · exact Or.inr (Or.inl ⟨rfl, rfl⟩)
      · exact Or.inr (Or.inr ⟨hne', hne, hw''⟩)
  have hgetu : ((s.thr.set t th').set u uh')[u]? = some uh' := get_set_self hu1
  refine ⟨?_, ?_, ?_, ?_, ?_, h.race, h.uaf⟩
  · intro w wh hw
    dsimp only at hw ⊢
    rcases hlook w wh hw with ⟨hwu, hwh⟩ | ⟨hwt, hwh⟩ | ⟨_, _, hw'⟩
    · subst hwu; rw [hwh, hvu']; have := h.B _ uh hu; omega
    · subst hwt; rw [hwh, hvt']; exact h.B _ th ht
    · exact h.B w wh hw'
  · intro w hw
    dsimp only at hw ⊢
    apply h.N
    by_cases hwu : w = u
    · subst hwu; rw [hgetu] at hw; simp at hw
    · rw [get_set_ne hwu] at hw
      by_cases hwt : w = t
      · subst hwt; rw [get_set_self ht] at hw; simp at hw
      · rw [get_set_ne hwt] at hw; exact hw
  · intro hf w wh hw ho hr hx
    dsimp only at hw ⊢
    rcases hlook w wh hw with ⟨hwu, hwh⟩ | ⟨hwt, hwh⟩ | ⟨hwt, hwu, hw'⟩
    · rw [hwh] at ho; omega
    · right
      subst hwt
      refine ⟨u, uh', hgetu, by omega, ?_⟩
      rw [hvu']
      have := h.B _ th ht; omega
    · rcases h.K hf0 w wh hw' ho hr hx with hl | ⟨v, vh, hv, hvo, hvk⟩
      · exact Or.inl hl
      · right
        by_cases hvt : v = t
        · subst hvt
          have : vh = th := by rw [ht] at hv; injection hv with hv; exact hv.symm
          subst this
          refine ⟨u, uh', hgetu, by omega, ?_⟩
          rw [hvu']; omega
        · by_cases hvu : v = u
          · subst hvu
            have : vh = uh := by rw [hu] at hv; injection hv with hv; exact hv.symm
            subst this
            refine ⟨v, uh', hgetu, by omega, ?_⟩
            rw [hvu']; omega
          · exact ⟨v, vh, by rw [get_set_ne hvu, get_set_ne hvt]; exact hv, hvo, hvk⟩
  · intro w wh hw ho x
    dsimp only at hw ⊢
    rcases hlook w wh hw with ⟨hwu, hwh⟩ | ⟨hwt, hwh⟩ | ⟨_, _, hw'⟩
    · rw [hwh, hvu']
      have := h.R t th ht (Or.inl (by omega)) x; omega
    · rw [hwh, hvt']
      exact h.R t th ht (Or.inl (by omega)) x
    · exact h.R w wh hw' ho x
  · intro w wh hw hx x
    dsimp only at hw
    rcases hlook w wh hw with ⟨_, hwh⟩ | ⟨_, hwh⟩ | ⟨hwt, _, hw'⟩
    · rw [hwh, hxu'] at hx; simp at hx
    · rw [hwh, hxt'] at hx; simp at hx
    · rw [hnox w wh hwt hw'] at hx; simp at hx

/-- Thread `u` lends a shared reference to the idle thread `t`. -/
theorem Wf2.borrow {c : Cfg} {s : State} (h : Wf2 c s) {t u : Nat} {th uh : Thread}
    (ht : s.thr[t]? = some th) (hu : s.thr[u]? = some uh)
    (hpt : th.pc = none) (hh : 1 ≤ uh.handles) (k : Nat)
    (th' : Thread) (hth' : { th with refs := u :: th.refs, view := vjoin th.view uh.view, coh := k } = th') :
    Wf2 c { s with thr := s.thr.set t th' } := by
  have hown' : owned th' = owned th := by subst hth'; simp [owned]
  have hx' : excl th' = false := by subst hth'; simp [excl, hpt]
  have hv' : ∀ w : Nat, vat th'.view w = max (vat th.view w) (vat uh.view w) := by
    intro w; subst hth'; simp [vat]
  have hr' : th'.refs ≠ [] := by subst hth'; simp
  have hself : (s.thr.set t th')[t]? = some th' := get_set_self ht
  refine ⟨?_, ?_, ?_, ?_, ?_, h.race, h.uaf⟩
  · intro w wh hw
    dsimp only at hw ⊢
    rcases get_set_cases ht hw with ⟨rfl, rfl⟩ | ⟨_, hw'⟩
    · rw [hv']; have := h.B _ th ht; omega
    · exact h.B w wh hw'
  · intro w hw
    dsimp only at hw ⊢
    apply h.N
    by_cases hwt : w = t
    · subst hwt; rw [hself] at hw; simp at hw
    · rw [get_set_ne hwt] at hw; exact hw
  · intro hf w wh hw ho hr hx
    dsimp only at hw ⊢
    rcases get_set_cases ht hw with ⟨rfl, rfl⟩ | ⟨hne, hw'⟩
    · exact absurd hr hr'
    · rcases h.K hf w wh hw' ho hr hx with hl | ⟨v, vh, hv, hvo, hvk⟩
      · exact Or.inl hl
      · right
        by_cases hvt : v = t
        · subst hvt
          have : vh = th := by rw [ht] at hv; injection hv with hv; exact hv.symm
          subst this
          exact ⟨v, th', hself, by omega, by rw [hv']; omega⟩
        · exact ⟨v, vh, by rw [get_set_ne hvt]; exact hv, hvo, hvk⟩
  · intro w wh hw ho x
    dsimp only at hw ⊢
    rcases get_set_cases ht hw with ⟨rfl, rfl⟩ | ⟨_, hw'⟩
    · rw [hv']
      have := h.R u uh hu (Or.inl (by simp [owned]; omega)) x
      omega
    · exact h.R w wh hw' ho x
  · intro w wh hw hx x
    dsimp only at hw ⊢
    rcases get_set_cases ht hw with ⟨rfl, rfl⟩ | ⟨_, hw'⟩
    · rw [hx'] at hx; simp at hx
    · exact h.XK w wh hw' hx x

/-- The idle thread `t` gives a reference back to the idle lender `u` (join). -/
theorem Wf2.unborrow {c : Cfg} {s : State} (h1 : Wf1 c s) (h : Wf2 c s) {t u : Nat} {th uh : Thread}
    (ht : s.thr[t]? = some th) (hu : s.thr[u]? = some uh) (htu : t ≠ u)
    (hpt : th.pc = none) (hpu : uh.pc = none) (hmem : u ∈ th.refs) (k : Nat)
    (th' uh' : Thread) (hth' : { th with refs := th.refs.erase u } = th')
    (huh' : { uh with view := vjoin uh.view th.view, coh := k } = uh') :
    Wf2 c { s with thr := (s.thr.set t th').set u uh' } := by
  have hownt' : owned th' = owned th := by subst hth'; simp [owned]
  have hownu' : owned uh' = owned uh := by subst huh'; simp [owned]
  have hxt' : excl th' = false := by subst hth'; simp [excl, hpt]
  have hxu' : excl uh' = false := by subst huh'; simp [excl, hpu]
  have hvt' : th'.view = th.view := by subst hth'; rfl
  have hvu' : ∀ w : Nat, vat uh'.view w = max (vat uh.view w) (vat th.view w) := by
    intro w; subst huh'; simp [vat]
  have hru : uh'.refs = uh.refs := by subst huh'; rfl
  have huown : 1 ≤ owned uh := by
    obtain ⟨uh2, huh2, hh⟩ := h1.Rf t th u ht hmem
    rw [hu] at huh2; injection huh2 with huh2; subst huh2
    simp [owned]; omega
  have hthr0 : th.refs ≠ [] := by intro e; rw [e] at hmem; simp at hmem
  obtain ⟨hst, hsu⟩ := get_set2_self (th' := th') (uh' := uh') ht hu htu
  have hlook := fun (w : Nat) wh => get_set2_cases (w := w) (wh := wh) (th' := th') (uh' := uh') ht hu htu
  refine ⟨?_, ?_, ?_, ?_, ?_, h.race, h.uaf⟩
  · intro w wh hw
    dsimp only at hw ⊢
    rcases hlook w wh hw with ⟨rfl, rfl⟩ | ⟨rfl, rfl⟩ | ⟨_, _, hw'⟩
    · rw [hvu']; have := h.B _ uh hu; omega
    · rw [hvt']; exact h.B _ th ht
    · exact h.B w wh hw'
  · intro w hw
    dsimp only at hw ⊢
    apply h.N
    by_cases hwu : w = u
    · subst hwu; rw [hsu] at hw; simp at hw
    · by_cases hwt : w = t
      · subst hwt; rw [hst] at hw; simp at hw
      · rw [get_set2_ne hwt hwu] at hw; exact hw
  · intro hf w wh hw ho hr hx
    dsimp only at hw ⊢
    -- the lender now knows everything the borrower knew
    have hviaU : ∀ a : Nat, a ≤ vat th.view w →
        ∃ (v : Nat) (vh : Thread), ((s.thr.set t th').set u uh')[v]? = some vh ∧ 1 ≤ owned vh ∧ a ≤ vat vh.view w :=
      fun a ha => ⟨u, uh', hsu, by omega, by rw [hvu']; omega⟩
    rcases hlook w wh hw with ⟨rfl, rfl⟩ | ⟨rfl, rfl⟩ | ⟨hwt, hwu, hw'⟩
    · omega
    · right
      exact hviaU _ (h.B _ th ht)
    · rcases h.K hf w wh hw' ho hr hx with hl | ⟨v, vh, hv, hvo, hvk⟩
      · exact Or.inl hl
      · right
        by_cases hvt : v = t
        · subst hvt
          have : vh = th := by rw [ht] at hv; injection hv with hv; exact hv.symm
          subst this
          exact ⟨v, th', hst, by omega, by rw [hvt']; exact hvk⟩
        · by_cases hvu : v = u
          · subst hvu
            have : vh = uh := by rw [hu] at hv; injection hv with hv; exact hv.symm
            subst this
            exact ⟨v, uh', hsu, by omega, by rw [hvu']; omega⟩
          · exact ⟨v, vh, by rw [get_set2_ne hvt hvu]; exact hv, hvo, hvk⟩
  · intro w wh hw ho x
    dsimp only at hw ⊢
    rcases hlook w wh hw with ⟨rfl, rfl⟩ | ⟨rfl, rfl⟩ | ⟨_, _, hw'⟩
    · rw [hvu']
      have := h.R _ uh hu (Or.inl huown) x; omega
    · rw [hvt']
      exact h.R _ th ht (Or.inr hthr0) x
    · exact h.R w wh hw' ho x
  · intro w wh hw hx x
    dsimp only at hw ⊢
    rcases hlook w wh hw with ⟨rfl, rfl⟩ | ⟨rfl, rfl⟩ | ⟨_, _, hw'⟩
    · rw [hxu'] at hx; simp at hx
    · rw [hxt'] at hx; simp at hx
    · exact h.XK w wh hw' hx x

end HipVerif.Model.Conc
