import HipVerif.Lemmas.ConcBase

/-!
# C04, counting half: the invariant `Wf1` and its preservation

`Wf1` holds in every reachable state of the model for every protocol description that has the
expected *shape* (`ShapeOk`: every modification of the count is an RMW, the CAS loop is bounded
by the ceiling); no assumption on memory orderings is needed for this half.
-/

namespace HipVerif.Model.Conc
open HipVerif.Model

/-! ## Shape of the protocol description -/

/-- The shape conditions (decidable on a concrete description). -/
def ShapeOk (c : Cfg) : Prop :=
  decrShape c.proto = true ∧ incrShape c.proto = true ∧ incrBoundOk c.ceil c.proto = true ∧
  uniqShape c.proto = true ∧ getShape c.proto = true

/-- The protocol description in normal form: same statements as the current source, arbitrary
orderings, fences and loop bound. -/
structure Shape (c : Cfg) where
  od : Ord
  dthn : List Simple
  dels : List Simple
  il : Ord
  w : Bool
  b : Bound
  so : Ord
  fo : Ord
  ul : Ord
  uthn : List Simple
  uels : List Simple
  gl : Ord
  gk : Nat
  hdecr : c.proto.decr = [.rmwSub 1 od, .branch .eq (.lit 0) dthn .overflow dels .done]
  hdthn : fenceArm dthn = true
  hdels : fenceArm dels = true
  hincr : c.proto.incr = [.load il, .casLoop w b so fo, .ret .overflow]
  hbound : b.eval c.ceil ≤ c.ceil
  huniq : c.proto.isUnique = [.load ul, .branch .eq (.lit 0) uthn (.bool true) uels (.bool false)]
  huthn : fenceArm uthn = true
  huels : fenceArm uels = true
  hget : c.proto.get = [.load gl, .ret (.oldPlus gk)]

theorem Shape.ofOk {c : Cfg} (h : ShapeOk c) : Nonempty (Shape c) := by
  obtain ⟨hd, hi, hb, hu, hg⟩ := h
  unfold decrShape at hd
  unfold incrShape at hi
  unfold incrBoundOk at hb
  unfold uniqShape at hu
  unfold getShape at hg
  split at hd <;> try simp at hd
  split at hi <;> try simp at hi
  split at hu <;> try simp at hu
  split at hg <;> try simp at hg
  rename_i _ od dthn dels hdecr _ il w b so fo hincr _ ul uthn uels huniq _ gl gk hget
  rw [hincr] at hb
  simp at hb
  exact ⟨{ od := od, dthn := dthn, dels := dels, il := il, w := w, b := b, so := so, fo := fo,
           ul := ul, uthn := uthn, uels := uels, gl := gl, gk := gk,
           hdecr := hdecr, hdthn := hd.1, hdels := hd.2, hincr := hincr, hbound := hb,
           huniq := huniq, huthn := hu.1, huels := hu.2, hget := hget }⟩

/-! ## The invariant -/

/-- Reachable program counters of an in-flight counter method. -/
def PcOk (c : Cfg) (pc : Pc) : Prop :=
  match pc.k with
  | .drop => pc.code = c.proto.decr ∨ localRet pc.code = some .overflow ∨ localRet pc.code = some .done
  | .clone => pc.code = c.proto.incr ∨ pc.code = c.proto.incr.tail ∨
      localRet pc.code = some .done ∨ localRet pc.code = some .overflow
  | .mutate => pc.code = c.proto.isUnique ∨ ∃ b, localRet pc.code = some (.bool b)
  | .unwrap => pc.code = c.proto.isUnique ∨ ∃ b, localRet pc.code = some (.bool b)
  | .count => pc.code = c.proto.get ∨ ∃ k, localRet pc.code = some (.oldPlus k)

/-- Handles owned by a thread that has exclusive access: none for the thread that frees after
its decrement, one for the unique owner. -/
def exclOwn (th : Thread) : Nat :=
  match th.pc with
  | some ⟨.drop, _, _⟩ => 0
  | _ => 1

/-- The counting invariant. -/
structure Wf1 (c : Cfg) (s : State) : Prop where
  /-- the last message of the count is `live handles - 1` -/
  track : 1 ≤ total s → s.last.val + 1 = total s
  /-- the stored count never exceeds the ceiling -/
  ceil : 1 ≤ total s → s.last.val ≤ c.ceil
  /-- `J`: every message an owner may still read, except the last one, is `≥ 1` -/
  J : ∀ (t : Nat) th, s.thr[t]? = some th → 1 ≤ owned th →
        ∀ (i : Nat) m, s.hist[i]? = some m → th.coh ≤ i → 1 ≤ m.val
  /-- in-flight methods are at a reachable program point and (except `drop`) run on a handle -/
  pcok : ∀ (t : Nat) th pc, s.thr[t]? = some th → th.pc = some pc →
        PcOk c pc ∧ (pc.k ≠ .drop → 1 ≤ th.handles)
  /-- a thread with exclusive access is alone -/
  X : ∀ (t : Nat) th, s.thr[t]? = some th → excl th = true →
        (∀ (u : Nat) uh, u ≠ t → s.thr[u]? = some uh → owned uh = 0 ∧ excl uh = false) ∧
        owned th = exclOwn th ∧ s.freed = 0
  /-- freed at most once, and then nobody refers to the buffer -/
  Fz : s.freed ≤ 1 ∧
        (s.freed = 1 → ∀ (t : Nat) th, s.thr[t]? = some th → owned th = 0 ∧ excl th = false)
  /-- when no handle is left the buffer has been freed or is about to be -/
  L : total s = 0 → s.freed = 1 ∨ ∃ (t : Nat) (th : Thread), s.thr[t]? = some th ∧ excl th = true

theorem get_set_self {α} {l : List α} {t : Nat} {x y : α} (h : l[t]? = some x) :
    (l.set t y)[t]? = some y := by
  have : t < l.length := by
    rcases Nat.lt_or_ge t l.length with h' | h'
    · exact h'
    · simp [List.getElem?_eq_none h'] at h
  simp [this]

theorem get_set_ne {α} {l : List α} {t u : Nat} {y : α} (h : u ≠ t) :
    (l.set t y)[u]? = l[u]? := by
  simp [Ne.symm h]

/-- Lookup in a thread list where thread `t` has been replaced. -/
theorem get_set_cases {α} {l : List α} {t u : Nat} {x y z : α} (h : l[t]? = some x)
    (hu : (l.set t y)[u]? = some z) : (u = t ∧ z = y) ∨ (u ≠ t ∧ l[u]? = some z) := by
  by_cases hut : u = t
  · subst hut
    rw [get_set_self h] at hu
    exact Or.inl ⟨rfl, by injection hu with hu; exact hu.symm⟩
  · rw [get_set_ne hut] at hu
    exact Or.inr ⟨hut, hu⟩

theorem total_upd {s s' : State} {t : Nat} {th th' : Thread} (ht : s.thr[t]? = some th)
    (hthr : s'.thr = s.thr.set t th') : total s' + owned th = total s + owned th' := by
  have := total_set s t th th' ht
  simpa [total, hthr] using this

/-- A step that only changes thread `t`'s record and the payload fields, keeps the number of
handles it owns, and does not newly establish exclusive access. -/
theorem Wf1.upd {c : Cfg} {s s' : State} (h : Wf1 c s) {t : Nat} {th th' : Thread}
    (ht : s.thr[t]? = some th)
    (hthr : s'.thr = s.thr.set t th') (hhist : s'.hist = s.hist) (hlast : s'.last = s.last)
    (hfreed : s'.freed = s.freed)
    (hown : owned th' = owned th) (hcoh : th.coh ≤ th'.coh)
    (hexcl : excl th' = true → (excl th = true ∧ exclOwn th' = exclOwn th) ∨
        (excl th = false ∧ total s = 1 ∧ owned th = 1 ∧ exclOwn th' = 1))
    (hunexcl : excl th = true → excl th' = false → 1 ≤ owned th)
    (hpc : ∀ pc, th'.pc = some pc → PcOk c pc ∧ (pc.k ≠ .drop → 1 ≤ th'.handles)) :
    Wf1 c s' := by
  have htot : total s' = total s := by
    have := total_upd ht hthr; omega
  refine ⟨?_, ?_, ?_, ?_, ?_, ?_, ?_⟩
  · rw [htot, hlast]; exact h.track
  · rw [htot, hlast]; exact h.ceil
  · intro u uh hu hown' i m hi hc
    rw [hhist] at hi
    rw [hthr] at hu
    rcases get_set_cases ht hu with ⟨rfl, rfl⟩ | ⟨_, hu'⟩
    · exact h.J _ th ht (by omega) i m hi (by omega)
    · exact h.J u uh hu' hown' i m hi hc
  · intro u uh pc hu hp
    rw [hthr] at hu
    rcases get_set_cases ht hu with ⟨rfl, rfl⟩ | ⟨_, hu'⟩
    · exact hpc pc hp
    · exact h.pcok u uh pc hu' hp
  · intro u uh hu he
    rw [hthr] at hu
    rw [hfreed]
    rcases get_set_cases ht hu with ⟨rfl, rfl⟩ | ⟨hne, hu'⟩
    · rcases hexcl he with ⟨he', heo⟩ | ⟨_, htot1, hown1, heo⟩
      · obtain ⟨h1, h2, h3⟩ := h.X _ th ht he'
        refine ⟨?_, by omega, h3⟩
        intro v vh hv hvt
        rw [hthr, get_set_ne hv] at hvt
        exact h1 v vh hv hvt
      · refine ⟨?_, by omega, ?_⟩
        · intro v vh hv hvt
          rw [hthr, get_set_ne hv] at hvt
          have hle := owned_add_le_total s v u vh th hv hvt ht
          refine ⟨by omega, ?_⟩
          cases hx' : excl vh with
          | false => rfl
          | true =>
            have := ((h.X v vh hvt hx').1 u th (Ne.symm hv) ht).1
            omega
        · rcases Nat.lt_or_ge s.freed 1 with hf | hf
          · omega
          · have := (h.Fz.2 (by have := h.Fz.1; omega) u th ht).1
            omega
    · obtain ⟨h1, h2, h3⟩ := h.X u uh hu' he
      refine ⟨?_, h2, h3⟩
      intro v vh hv hvt
      rw [hthr] at hvt
      rcases get_set_cases ht hvt with ⟨rfl, rfl⟩ | ⟨_, hv'⟩
      · obtain ⟨ho, hx⟩ := h1 _ th (Ne.symm hne) ht
        refine ⟨by omega, ?_⟩
        cases hx' : excl vh with
        | false => rfl
        | true =>
          rcases hexcl hx' with ⟨h', _⟩ | ⟨_, _, h', _⟩
          · simp [hx] at h'
          · omega
      · exact h1 v vh hv hv'
  · rw [hfreed]
    refine ⟨h.Fz.1, ?_⟩
    intro hf u uh hu
    rw [hthr] at hu
    rcases get_set_cases ht hu with ⟨rfl, rfl⟩ | ⟨_, hu'⟩
    · obtain ⟨ho, hx⟩ := h.Fz.2 hf _ th ht
      refine ⟨by omega, ?_⟩
      cases hx' : excl uh with
      | false => rfl
      | true =>
        rcases hexcl hx' with ⟨h', _⟩ | ⟨_, _, h', _⟩
        · simp [hx] at h'
        · omega
    · exact h.Fz.2 hf u uh hu'
  · rw [htot, hfreed]
    intro h0
    rcases h.L h0 with hf | ⟨u, uh, hu, hx⟩
    · exact Or.inl hf
    · right
      by_cases hut : u = t
      · subst hut
        have : uh = th := by rw [ht] at hu; injection hu with hu; exact hu.symm
        subst this
        cases hx' : excl th' with
        | true => exact ⟨u, th', by rw [hthr]; exact get_set_self ht, hx'⟩
        | false =>
          have := hunexcl hx hx'
          have := owned_le_total s u uh ht
          omega
      · exact ⟨u, uh, by rw [hthr, get_set_ne hut]; exact hu, hx⟩

/-! ## Projections of the thread-record helpers -/

@[simp] theorem acquireInto_handles (th : Thread) (o : Ord) (r : List Nat) :
    (acquireInto th o r).handles = th.handles := by unfold acquireInto; split <;> rfl
@[simp] theorem acquireInto_pc (th : Thread) (o : Ord) (r : List Nat) :
    (acquireInto th o r).pc = th.pc := by unfold acquireInto; split <;> rfl
@[simp] theorem acquireInto_coh (th : Thread) (o : Ord) (r : List Nat) :
    (acquireInto th o r).coh = th.coh := by unfold acquireInto; split <;> rfl
@[simp] theorem acquireInto_res (th : Thread) (o : Ord) (r : List Nat) :
    (acquireInto th o r).res = th.res := by unfold acquireInto; split <;> rfl
@[simp] theorem owned_acquireInto (th : Thread) (o : Ord) (r : List Nat) :
    owned (acquireInto th o r) = owned th := by simp [owned]
@[simp] theorem excl_acquireInto (th : Thread) (o : Ord) (r : List Nat) :
    excl (acquireInto th o r) = excl th := by simp [excl]
@[simp] theorem exclOwn_acquireInto (th : Thread) (o : Ord) (r : List Nat) :
    exclOwn (acquireInto th o r) = exclOwn th := by simp [exclOwn]

@[simp] theorem tick_handles (th : Thread) (t : Nat) : (tick th t).handles = th.handles := rfl
@[simp] theorem tick_pc (th : Thread) (t : Nat) : (tick th t).pc = th.pc := rfl
@[simp] theorem tick_coh (th : Thread) (t : Nat) : (tick th t).coh = th.coh := rfl
@[simp] theorem tick_res (th : Thread) (t : Nat) : (tick th t).res = th.res := rfl
@[simp] theorem tick_pend (th : Thread) (t : Nat) : (tick th t).pend = th.pend := rfl

/-! ## The steps that change the count or the set of owners -/

/-- The decrement of `drop` (an RMW reading the last message). -/
theorem Wf1.rmwSub {c : Cfg} {s : State} (h : Wf1 c s) {t : Nat} {th : Thread}
    (ht : s.thr[t]? = some th) {code : List AStep} {old : Nat}
    (hpc : th.pc = some ⟨.drop, code, old⟩) (hcode : localRet code = none)
    (o : Ord) (code' : List AStep)
    (hcode' : localRet code' = some (if s.last.val = 0 then Ret.overflow else Ret.done)) :
    Wf1 c (doRmw s t th o (wrapSub c.ceil s.last.val 1) ⟨.drop, code', s.last.val⟩) := by
  have hown : owned th = th.handles + 1 := by simp [owned, inflight, hpc, hcode]
  have hle := owned_le_total s t th ht
  have htr := h.track (by omega)
  have hce := h.ceil (by omega)
  generalize hs' : doRmw s t th o (wrapSub c.ceil s.last.val 1) ⟨.drop, code', s.last.val⟩ = s'
  have hthr : s'.thr = s.thr.set t
      (acquireInto { th with coh := s.hist.length + 1, pc := some ⟨.drop, code', s.last.val⟩ } o s.last.rel) := by
    subst hs'; rfl
  have hhist : s'.hist = s.hist ++ [s.last] := by subst hs'; rfl
  have hlast : s'.last.val = wrapSub c.ceil s.last.val 1 := by subst hs'; rfl
  have hfreed : s'.freed = s.freed := by subst hs'; rfl
  have hret : localRet code' ≠ none := by rw [hcode']; simp
  have hown' : owned (acquireInto { th with coh := s.hist.length + 1, pc := some ⟨.drop, code', s.last.val⟩ } o s.last.rel)
      = th.handles := by
    simp [owned, inflight, hret]
  have hexcl' : excl (acquireInto { th with coh := s.hist.length + 1, pc := some ⟨.drop, code', s.last.val⟩ } o s.last.rel)
      = decide (s.last.val = 0) := by
    rw [excl_acquireInto]
    show (localRet code' == some Ret.overflow) = _
    rw [hcode']
    by_cases hv : s.last.val = 0 <;> simp [hv]
  have htot := total_upd ht hthr
  rw [hown, hown'] at htot
  -- no other thread had exclusive access
  have hnox : ∀ (u : Nat) uh, u ≠ t → s.thr[u]? = some uh → excl uh = false := by
    intro u uh hu huh
    cases hx : excl uh with
    | false => rfl
    | true => have := ((h.X u uh huh hx).1 t th (Ne.symm hu) ht).1; omega
  have hfz : s.freed = 0 := by
    rcases Nat.lt_or_ge s.freed 1 with hf | hf
    · omega
    · have := (h.Fz.2 (by have := h.Fz.1; omega) t th ht).1; omega
  refine ⟨?_, ?_, ?_, ?_, ?_, ?_, ?_⟩
  · intro h1; rw [hlast]; unfold wrapSub; split <;> omega
  · intro h1; rw [hlast]; unfold wrapSub; split <;> omega
  · intro u uh hu hown1 i m hi hc
    rw [hthr] at hu
    rw [hhist] at hi
    rcases get_set_cases ht hu with ⟨rfl, rfl⟩ | ⟨hne, hu'⟩
    · have hlt : i < (s.hist ++ [s.last]).length := by
        rcases Nat.lt_or_ge i (s.hist ++ [s.last]).length with h' | h'
        · exact h'
        · simp [List.getElem?_eq_none h'] at hi
      simp at hc hlt; omega
    · rw [List.getElem?_append] at hi
      split at hi
      · exact h.J u uh hu' hown1 i m hi hc
      · cases hk : i - s.hist.length with
        | succ k => rw [hk] at hi; simp at hi
        | zero =>
          rw [hk] at hi
          simp at hi
          subst hi
          have := owned_add_le_total s t u th uh (Ne.symm hne) ht hu'
          omega
  · intro u uh pc hu hp
    rw [hthr] at hu
    rcases get_set_cases ht hu with ⟨rfl, rfl⟩ | ⟨_, hu'⟩
    · simp at hp
      subst hp
      refine ⟨?_, by simp⟩
      simp only [PcOk]
      by_cases hv : s.last.val = 0
      · right; left; simp [hcode', hv]
      · right; right; simp [hcode', hv]
    · exact h.pcok u uh pc hu' hp
  · intro u uh hu he
    rw [hthr] at hu
    rw [hfreed]
    rcases get_set_cases ht hu with ⟨rfl, rfl⟩ | ⟨hne, hu'⟩
    · rw [hexcl'] at he
      simp at he
      refine ⟨?_, ?_, hfz⟩
      · intro v vh hv hvt
        rw [hthr, get_set_ne hv] at hvt
        have := owned_add_le_total s u v th vh (Ne.symm hv) ht hvt
        exact ⟨by omega, hnox v vh hv hvt⟩
      · rw [hown']
        simp [exclOwn]
        omega
    · rw [hnox u uh hne hu'] at he; simp at he
  · rw [hfreed]
    refine ⟨h.Fz.1, ?_⟩
    intro hf; omega
  · intro h0
    right
    refine ⟨t, _, by rw [hthr]; exact get_set_self ht, ?_⟩
    rw [hexcl']
    simp; omega

/-- The successful compare-exchange of `clone` (an RMW reading the last message). -/
theorem Wf1.casSucc {c : Cfg} {s : State} (h : Wf1 c s) {t : Nat} {th : Thread}
    (ht : s.thr[t]? = some th) {code : List AStep} {old : Nat}
    (hpc : th.pc = some ⟨.clone, code, old⟩) (hcode : localRet code = none)
    (hh : 1 ≤ th.handles) (hold : s.last.val = old) (hb : old < c.ceil) (o : Ord) :
    Wf1 c (doRmw s t th o (wrapAdd c.ceil old 1) ⟨.clone, [.ret .done], old⟩) := by
  have hown : owned th = th.handles := by simp [owned, inflight, hpc, hcode]
  have hle := owned_le_total s t th ht
  have htr := h.track (by omega)
  generalize hs' : doRmw s t th o (wrapAdd c.ceil old 1) ⟨.clone, [.ret .done], old⟩ = s'
  have hthr : s'.thr = s.thr.set t
      (acquireInto { th with coh := s.hist.length + 1, pc := some ⟨.clone, [.ret .done], old⟩ } o s.last.rel) := by
    subst hs'; rfl
  have hhist : s'.hist = s.hist ++ [s.last] := by subst hs'; rfl
  have hlast : s'.last.val = wrapAdd c.ceil old 1 := by subst hs'; rfl
  have hfreed : s'.freed = s.freed := by subst hs'; rfl
  have hown' : owned (acquireInto { th with coh := s.hist.length + 1, pc := some ⟨.clone, [.ret .done], old⟩ } o s.last.rel)
      = th.handles + 1 := by
    simp [owned, inflight, localRet]
  have hexcl' : excl (acquireInto { th with coh := s.hist.length + 1, pc := some ⟨.clone, [.ret .done], old⟩ } o s.last.rel)
      = false := by
    simp [excl]
  have htot := total_upd ht hthr
  rw [hown, hown'] at htot
  have hnox : ∀ (u : Nat) uh, u ≠ t → s.thr[u]? = some uh → excl uh = false := by
    intro u uh hu huh
    cases hx : excl uh with
    | false => rfl
    | true => have := ((h.X u uh huh hx).1 t th (Ne.symm hu) ht).1; omega
  have hfz : s.freed = 0 := by
    rcases Nat.lt_or_ge s.freed 1 with hf | hf
    · omega
    · have := (h.Fz.2 (by have := h.Fz.1; omega) t th ht).1; omega
  have hwrap : wrapAdd c.ceil old 1 = old + 1 := by unfold wrapAdd; split <;> omega
  refine ⟨?_, ?_, ?_, ?_, ?_, ?_, ?_⟩
  · intro h1; rw [hlast, hwrap]; omega
  · intro h1; rw [hlast, hwrap]; omega
  · intro u uh hu hown1 i m hi hc
    rw [hthr] at hu
    rw [hhist] at hi
    rcases get_set_cases ht hu with ⟨rfl, rfl⟩ | ⟨hne, hu'⟩
    · have hlt : i < (s.hist ++ [s.last]).length := by
        rcases Nat.lt_or_ge i (s.hist ++ [s.last]).length with h' | h'
        · exact h'
        · simp [List.getElem?_eq_none h'] at hi
      simp at hc hlt; omega
    · rw [List.getElem?_append] at hi
      split at hi
      · exact h.J u uh hu' hown1 i m hi hc
      · cases hk : i - s.hist.length with
        | succ k => rw [hk] at hi; simp at hi
        | zero =>
          rw [hk] at hi
          simp at hi
          subst hi
          have := owned_add_le_total s t u th uh (Ne.symm hne) ht hu'
          omega
  · intro u uh pc hu hp
    rw [hthr] at hu
    rcases get_set_cases ht hu with ⟨rfl, rfl⟩ | ⟨_, hu'⟩
    · simp at hp
      subst hp
      refine ⟨?_, by simpa using hh⟩
      simp [PcOk, localRet]
    · exact h.pcok u uh pc hu' hp
  · intro u uh hu he
    rw [hthr] at hu
    rcases get_set_cases ht hu with ⟨rfl, rfl⟩ | ⟨hne, hu'⟩
    · rw [hexcl'] at he; simp at he
    · rw [hnox u uh hne hu'] at he; simp at he
  · rw [hfreed]
    refine ⟨h.Fz.1, ?_⟩
    intro hf; omega
  · intro h0; omega

/-- The free (by the dropper whose decrement overflowed, or by `unwrap`). -/
theorem Wf1.free {c : Cfg} {s s' : State} (h : Wf1 c s) {t : Nat} {th th' : Thread}
    (ht : s.thr[t]? = some th) (hx : excl th = true)
    (hthr : s'.thr = s.thr.set t th')
    (hfreed : s'.freed = s.freed + 1) (hown : owned th' = 0) (hpc : th'.pc = none) :
    Wf1 c s' := by
  obtain ⟨h1, h2, h3⟩ := h.X t th ht hx
  have hall : ∀ (u : Nat) uh, s'.thr[u]? = some uh → owned uh = 0 ∧ excl uh = false := by
    intro u uh hu
    rw [hthr] at hu
    rcases get_set_cases ht hu with ⟨rfl, rfl⟩ | ⟨hne, hu'⟩
    · exact ⟨hown, by simp [excl, hpc]⟩
    · exact h1 u uh hne hu'
  have htot : total s' = 0 := (total_eq_zero_iff s').2 fun u uh hu => (hall u uh hu).1
  refine ⟨by omega, by omega, ?_, ?_, ?_, ?_, ?_⟩
  · intro u uh hu hown1
    have := (hall u uh hu).1; omega
  · intro u uh pc hu hp
    rw [hthr] at hu
    rcases get_set_cases ht hu with ⟨rfl, rfl⟩ | ⟨_, hu'⟩
    · rw [hpc] at hp; simp at hp
    · exact h.pcok u uh pc hu' hp
  · intro u uh hu he
    rw [(hall u uh hu).2] at he; simp at he
  · exact ⟨by omega, fun _ => hall⟩
  · intro _; left; omega

/-- Handing a handle from the idle thread `t` to the idle thread `u`. -/
theorem Wf1.send {c : Cfg} {s : State} (h : Wf1 c s) {t u : Nat} {th uh : Thread}
    (ht : s.thr[t]? = some th) (hu : s.thr[u]? = some uh) (htu : t ≠ u)
    (hpt : th.pc = none) (hpu : uh.pc = none) (hh : 1 ≤ th.handles) (v : List Nat)
    (th' uh' : Thread) (hth' : { th with handles := th.handles - 1 } = th')
    (huh' : { uh with handles := uh.handles + 1, view := v, coh := max uh.coh th.coh } = uh') :
    Wf1 c { s with thr := (s.thr.set t th').set u uh' } := by
  have hownt : owned th = th.handles := by simp [owned, inflight, hpt]
  have hownu : owned uh = uh.handles := by simp [owned, inflight, hpu]
  have hownt' : owned th' = th.handles - 1 := by subst hth'; simp [owned, inflight, hpt]
  have hownu' : owned uh' = uh.handles + 1 := by subst huh'; simp [owned, inflight, hpu]
  have hxt' : excl th' = false := by subst hth'; simp [excl, hpt]
  have hxu' : excl uh' = false := by subst huh'; simp [excl, hpu]
  have hu1 : (s.thr.set t th')[u]? = some uh := by rw [get_set_ne (Ne.symm htu)]; exact hu
  have hlook : ∀ (w : Nat) wh, ((s.thr.set t th').set u uh')[w]? = some wh →
      (w = u ∧ wh = uh') ∨ (w = t ∧ wh = th') ∨ (w ≠ t ∧ w ≠ u ∧ s.thr[w]? = some wh) := by
    intro w wh hw
    rcases get_set_cases hu1 hw with ⟨rfl, rfl⟩ | ⟨hne, hw'⟩
    · exact Or.inl ⟨rfl, rfl⟩
    · rcases get_set_cases ht hw' with ⟨rfl, rfl⟩ | ⟨hne', hw''⟩
      · exact Or.inr (Or.inl ⟨rfl, rfl⟩)
      · exact Or.inr (Or.inr ⟨hne', hne, hw''⟩)
  have htot : total { s with thr := (s.thr.set t th').set u uh' } = total s := by
    have e1 := total_set s t th th' ht
    have e2 := total_set { s with thr := s.thr.set t th' } u uh uh' hu1
    simp only [total] at e1 e2 ⊢
    omega
  have hle := owned_le_total s t th ht
  have hnox : ∀ (w : Nat) wh, w ≠ t → s.thr[w]? = some wh → excl wh = false := by
    intro w wh hw hwh
    cases hx : excl wh with
    | false => rfl
    | true => have := ((h.X w wh hwh hx).1 t th (Ne.symm hw) ht).1; omega
  have hfz : s.freed = 0 := by
    rcases Nat.lt_or_ge s.freed 1 with hf | hf
    · omega
    · have := (h.Fz.2 (by have := h.Fz.1; omega) t th ht).1; omega
  refine ⟨?_, ?_, ?_, ?_, ?_, ?_, ?_⟩
  · rw [htot]; exact h.track
  · rw [htot]; exact h.ceil
  · intro w wh hw hown1 i m hi hc
    rcases hlook w wh hw with ⟨rfl, rfl⟩ | ⟨rfl, rfl⟩ | ⟨_, _, hw'⟩
    · subst huh'
      simp at hc
      exact h.J t th ht (by omega) i m hi (by omega)
    · subst hth'
      exact h.J _ th ht (by omega) i m hi hc
    · exact h.J w wh hw' hown1 i m hi hc
  · intro w wh pc hw hp
    rcases hlook w wh hw with ⟨rfl, rfl⟩ | ⟨rfl, rfl⟩ | ⟨_, _, hw'⟩
    · subst huh'; simp [hpu] at hp
    · subst hth'; simp [hpt] at hp
    · exact h.pcok w wh pc hw' hp
  · intro w wh hw he
    rcases hlook w wh hw with ⟨rfl, rfl⟩ | ⟨rfl, rfl⟩ | ⟨hwt, _, hw'⟩
    · rw [hxu'] at he; simp at he
    · rw [hxt'] at he; simp at he
    · rw [hnox w wh hwt hw'] at he; simp at he
  · refine ⟨h.Fz.1, ?_⟩
    intro hf
    simp at hf; omega
  · rw [htot]; intro h0; omega

/-! ## Thread-local steps -/

theorem PcOk.of_local_drop {c : Cfg} {code : List AStep} {old : Nat} {r : Ret}
    (hr : localRet code = some r) (h : r = .overflow ∨ r = .done) : PcOk c ⟨.drop, code, old⟩ := by
  rcases h with rfl | rfl
  · exact Or.inr (Or.inl hr)
  · exact Or.inr (Or.inr hr)

/-- An (acquire or other) fence of an in-flight method whose remaining code is local. -/
theorem Wf1.fenceStep {c : Cfg} (sh : Shape c) {s : State} (h : Wf1 c s) {t : Nat} {th : Thread}
    (ht : s.thr[t]? = some th) {k : Kont} {o : Ord} {rest : List AStep} {old : Nat}
    (hpc : th.pc = some ⟨k, .simple (.fence o) :: rest, old⟩) (view' : List Nat) :
    Wf1 c { s with thr := s.thr.set t { th with view := view', pc := some ⟨k, norm c.ceil rest old, old⟩ } } := by
  obtain ⟨hok, hh⟩ := h.pcok t th _ ht hpc
  -- the remaining code is local
  have hloc : ∃ r, localRet rest = some r ∧ PcOk c ⟨k, rest, old⟩ := by
    cases k <;> simp only [PcOk, sh.hdecr, sh.hincr, sh.huniq, sh.hget, List.tail] at hok
    · rcases hok with h1 | h1 | h1 | h1
      · simp at h1
      · simp at h1
      · exact ⟨_, by simpa [localRet] using h1, Or.inr (Or.inr (Or.inl (by simpa [localRet] using h1)))⟩
      · exact ⟨_, by simpa [localRet] using h1, Or.inr (Or.inr (Or.inr (by simpa [localRet] using h1)))⟩
    · rcases hok with h1 | h1 | h1
      · simp at h1
      · exact ⟨_, by simpa [localRet] using h1, Or.inr (Or.inl (by simpa [localRet] using h1))⟩
      · exact ⟨_, by simpa [localRet] using h1, Or.inr (Or.inr (by simpa [localRet] using h1))⟩
    · rcases hok with h1 | ⟨b, h1⟩
      · simp at h1
      · exact ⟨_, by simpa [localRet] using h1, Or.inr ⟨b, by simpa [localRet] using h1⟩⟩
    · rcases hok with h1 | ⟨b, h1⟩
      · simp at h1
      · exact ⟨_, by simpa [localRet] using h1, Or.inr ⟨b, by simpa [localRet] using h1⟩⟩
    · rcases hok with h1 | ⟨b, h1⟩
      · simp at h1
      · exact ⟨_, by simpa [localRet] using h1, Or.inr ⟨b, by simpa [localRet] using h1⟩⟩
  obtain ⟨r, hr, hok'⟩ := hloc
  rw [norm_of_localRet c.ceil old hr]
  refine h.upd ht rfl rfl rfl rfl ?_ (Nat.le_refl _) ?_ ?_ ?_
  · cases k <;> simp [owned, inflight, hpc, localRet] <;> congr
  · intro he
    left
    cases k <;> simp_all [excl, exclOwn, localRet]
  · intro he he'
    cases k <;> simp_all [excl, localRet]
  · intro pc hp
    simp at hp
    subst hp
    exact ⟨hok', by simpa using hh⟩

end HipVerif.Model.Conc
