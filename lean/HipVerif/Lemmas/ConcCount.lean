import HipVerif.Lemmas.ConcBase

/-!
# C04, counting half: the invariant `Wf1` and its preservation

`Wf1` holds in every reachable state of the model for every protocol description that has the
expected *shape* (`ShapeOk`: every modification of the count is an RMW, the CAS loop is bounded
by the ceiling); no assumption on memory orderings is needed for this half.
-/

namespace HipVerif.Model.Conc
open HipVerif.Model

/-! ## Shape of the protocol description -/

/-- The shape conditions (decidable on a concrete description). -/
def ShapeOk (c : Cfg) : Prop :=
  decrShape c.proto = true ∧ incrShape c.proto = true ∧ incrBoundOk c.ceil c.proto = true ∧
  uniqShape c.proto = true ∧ getShape c.proto = true

/-- The protocol description in normal form: same statements as the current source, arbitrary
orderings, fences and loop bound. -/
structure Shape (c : Cfg) where
  od : Ord
  dthn : List Simple
  dels : List Simple
  il : Ord
  w : Bool
  b : Bound
  so : Ord
  fo : Ord
  ul : Ord
  uthn : List Simple
  uels : List Simple
  gl : Ord
  gk : Nat
  hdecr : c.proto.decr = [.rmwSub 1 od, .branch .eq (.lit 0) dthn .overflow dels .done]
  hdthn : fenceArm dthn = true
  hdels : fenceArm dels = true
  hincr : c.proto.incr = [.load il, .casLoop w b so fo, .ret .overflow]
  hbound : b.eval c.ceil ≤ c.ceil
  huniq : c.proto.isUnique = [.load ul, .branch .eq (.lit 0) uthn (.bool true) uels (.bool false)]
  huthn : fenceArm uthn = true
  huels : fenceArm uels = true
  hget : c.proto.get = [.load gl, .ret (.oldPlus gk)]

theorem Shape.ofOk {c : Cfg} (h : ShapeOk c) : Nonempty (Shape c) := by
  obtain ⟨hd, hi, hb, hu, hg⟩ := h
  unfold decrShape at hd
  unfold incrShape at hi
  unfold incrBoundOk at hb
  unfold uniqShape at hu
  unfold getShape at hg
  split at hd <;> try simp at hd
  split at hi <;> try simp at hi
  split at hu <;> try simp at hu
  split at hg <;> try simp at hg
  rename_i _ od dthn dels hdecr _ il w b so fo hincr _ ul uthn uels huniq _ gl gk hget
  rw [hincr] at hb
  simp at hb
  exact ⟨{ od := od, dthn := dthn, dels := dels, il := il, w := w, b := b, so := so, fo := fo,
           ul := ul, uthn := uthn, uels := uels, gl := gl, gk := gk,
           hdecr := hdecr, hdthn := hd.1, hdels := hd.2, hincr := hincr, hbound := hb,
           huniq := huniq, huthn := hu.1, huels := hu.2, hget := hget }⟩

/-! ## The invariant -/

/-- Reachable program counters of an in-flight counter method. -/
def PcOk (c : Cfg) (pc : Pc) : Prop :=
  match pc.k with
  | .drop => pc.code = c.proto.decr ∨ localRet pc.code = some .overflow ∨ localRet pc.code = some .done
  | .clone => pc.code = c.proto.incr ∨ pc.code = c.proto.incr.tail ∨
      localRet pc.code = some .done ∨ localRet pc.code = some .overflow
  | .mutate => pc.code = c.proto.isUnique ∨ ∃ b, localRet pc.code = some (.bool b)
  | .unwrap => pc.code = c.proto.isUnique ∨ ∃ b, localRet pc.code = some (.bool b)
  | .count => pc.code = c.proto.get ∨ ∃ k, localRet pc.code = some (.oldPlus k)

/-- Handles owned by a thread that has exclusive access: none for the thread that frees after
its decrement, one for the unique owner. -/
def exclOwn (th : Thread) : Nat :=
  match th.pc with
  | some ⟨.drop, _, _⟩ => 0
  | _ => 1

/-- Side conditions of an in-flight method: `clone`/`count` (`&self`) run on an own handle or a
borrowed reference; `mutate`/`unwrap` on an own handle; and only `&self` methods run while a
handle of the thread is lent out (`pin`). -/
def PcSide (pin : Bool) (th : Thread) (pc : Pc) : Prop :=
  (pc.k = .clone ∨ pc.k = .count → 1 ≤ th.handles ∨ th.refs ≠ []) ∧
  (pc.k = .mutate ∨ pc.k = .unwrap → 1 ≤ th.handles) ∧
  (pc.k ≠ .clone → pc.k ≠ .count → pin = false)

/-- The counting invariant. -/
structure Wf1 (c : Cfg) (s : State) : Prop where
  /-- the last message of the count is `live handles - 1` (a lent handle counts once) -/
  track : 1 ≤ total s → s.last.val + 1 = total s
  /-- the stored count never exceeds the ceiling -/
  ceil : 1 ≤ total s → s.last.val ≤ c.ceil
  /-- `J`: a `0` that is not the last message is out of reach of every thread that holds a
  handle: its coherence index is already past it, or (its handle is lent out and) one of the
  borrowers' is, and will be joined into it when the reference comes back -/
  J : ∀ (i : Nat) m, s.hist[i]? = some m → m.val = 0 →
        ∀ (t : Nat) th, s.thr[t]? = some th → 1 ≤ owned th →
          i < th.coh ∨ ∃ (w : Nat) (wh : Thread), s.thr[w]? = some wh ∧ t ∈ wh.refs ∧ i < wh.coh
  /-- in-flight methods are at a reachable program point, on a handle or reference -/
  pcok : ∀ (t : Nat) th pc, s.thr[t]? = some th → th.pc = some pc →
        PcOk c pc ∧ PcSide (pinned s t) th pc
  /-- a lent handle is alive -/
  Rf : ∀ (w : Nat) wh (u : Nat), s.thr[w]? = some wh → u ∈ wh.refs →
        ∃ uh, s.thr[u]? = some uh ∧ 1 ≤ uh.handles
  /-- a thread with exclusive access is alone -/
  X : ∀ (t : Nat) th, s.thr[t]? = some th → excl th = true →
        (∀ (u : Nat) uh, u ≠ t → s.thr[u]? = some uh → owned uh = 0 ∧ excl uh = false) ∧
        owned th = exclOwn th ∧ s.freed = 0
  /-- freed at most once, and then nobody refers to the buffer -/
  Fz : s.freed ≤ 1 ∧
        (s.freed = 1 → ∀ (t : Nat) th, s.thr[t]? = some th → owned th = 0 ∧ excl th = false)
  /-- when no handle is left the buffer has been freed or is about to be -/
  L : total s = 0 → s.freed = 1 ∨ ∃ (t : Nat) (th : Thread), s.thr[t]? = some th ∧ excl th = true

theorem get_set_self {α} {l : List α} {t : Nat} {x y : α} (h : l[t]? = some x) :
    (l.set t y)[t]? = some y := by
  have : t < l.length := by
    rcases Nat.lt_or_ge t l.length with h' | h'
    · exact h'
    · simp [List.getElem?_eq_none h'] at h
  simp [this]

theorem get_set_ne {α} {l : List α} {t u : Nat} {y : α} (h : u ≠ t) :
    (l.set t y)[u]? = l[u]? := by
  simp [Ne.symm h]

/-- Lookup in a thread list where thread `t` has been replaced. -/
theorem get_set_cases {α} {l : List α} {t u : Nat} {x y z : α} (h : l[t]? = some x)
    (hu : (l.set t y)[u]? = some z) : (u = t ∧ z = y) ∨ (u ≠ t ∧ l[u]? = some z) := by
  by_cases hut : u = t
  · subst hut
    rw [get_set_self h] at hu
    exact Or.inl ⟨rfl, by injection hu with hu; exact hu.symm⟩
  · rw [get_set_ne hut] at hu
    exact Or.inr ⟨hut, hu⟩

theorem total_upd {s s' : State} {t : Nat} {th th' : Thread} (ht : s.thr[t]? = some th)
    (hthr : s'.thr = s.thr.set t th') : total s' + owned th = total s + owned th' := by
  have := total_set s t th th' ht
  simpa [total, hthr] using this

/-! ## Lent handles -/

theorem pinned_iff (s : State) (u : Nat) :
    pinned s u = true ↔ ∃ (w : Nat) (wh : Thread), s.thr[w]? = some wh ∧ u ∈ wh.refs := by
  simp only [pinned, List.any_eq_true, List.contains_iff_mem]
  constructor
  · rintro ⟨wh, hmem, hu⟩
    obtain ⟨w, hw⟩ := List.mem_iff_getElem?.1 hmem
    exact ⟨w, wh, hw, hu⟩
  · rintro ⟨w, wh, hw, hu⟩
    exact ⟨wh, List.mem_iff_getElem?.2 ⟨w, hw⟩, hu⟩

theorem not_mem_of_not_pinned {s : State} {u : Nat} (h : pinned s u = false) {w : Nat} {wh : Thread}
    (hw : s.thr[w]? = some wh) : u ∉ wh.refs := by
  intro hm
  have := (pinned_iff s u).2 ⟨w, wh, hw, hm⟩
  simp [h] at this

/-- Replacing a thread record without changing its references does not change who is pinned. -/
theorem pinned_set_same {s s' : State} {t : Nat} {th th' : Thread} (ht : s.thr[t]? = some th)
    (hthr : s'.thr = s.thr.set t th') (hrefs : th'.refs = th.refs) (u : Nat) :
    pinned s' u = pinned s u := by
  rw [Bool.eq_iff_iff, pinned_iff, pinned_iff]
  constructor
  · rintro ⟨w, wh, hw, hm⟩
    rw [hthr] at hw
    rcases get_set_cases ht hw with ⟨rfl, rfl⟩ | ⟨_, hw'⟩
    · exact ⟨_, th, ht, hrefs ▸ hm⟩
    · exact ⟨w, wh, hw', hm⟩
  · rintro ⟨w, wh, hw, hm⟩
    by_cases hwt : w = t
    · subst hwt
      have : wh = th := by rw [ht] at hw; injection hw with hw; exact hw.symm
      subst this
      exact ⟨w, th', by rw [hthr]; exact get_set_self ht, hrefs ▸ hm⟩
    · exact ⟨w, wh, by rw [hthr, get_set_ne hwt]; exact hw, hm⟩

theorem PcSide.congr {pin pin' : Bool} {th th' : Thread} {pc pc' : Pc} (h : PcSide pin th pc)
    (hk : pc'.k = pc.k) (hh : th.handles ≤ th'.handles) (hr : th'.refs = th.refs)
    (hp : pin = false → pin' = false) : PcSide pin' th' pc' := by
  obtain ⟨h1, h2, h3⟩ := h
  refine ⟨?_, ?_, ?_⟩
  · intro hk'
    rw [hk] at hk'
    rcases h1 hk' with h | h
    · exact Or.inl (by omega)
    · exact Or.inr (by rw [hr]; exact h)
  · intro hk'
    rw [hk] at hk'
    have := h2 hk'; omega
  · intro a b
    rw [hk] at a b
    exact hp (h3 a b)

/-- A thread with exclusive access runs `drop`, `mutate` or `unwrap`. -/
theorem excl_kind {th : Thread} (h : excl th = true) :
    ∃ pc, th.pc = some pc ∧ pc.k ≠ .clone ∧ pc.k ≠ .count := by
  unfold excl at h
  split at h <;> first | (simp at h; done) | exact ⟨_, by assumption, by simp, by simp⟩

/-- While some thread has exclusive access no reference is out. -/
theorem Wf1.excl_no_refs {c : Cfg} {s : State} (h : Wf1 c s) {t : Nat} {th : Thread}
    (ht : s.thr[t]? = some th) (hx : excl th = true) {w : Nat} {wh : Thread}
    (hw : s.thr[w]? = some wh) : wh.refs = [] := by
  cases hr : wh.refs with
  | nil => rfl
  | cons u rest =>
    exfalso
    have hu : u ∈ wh.refs := by rw [hr]; simp
    obtain ⟨uh, huh, hh⟩ := h.Rf w wh u hw hu
    by_cases hut : u = t
    · subst hut
      obtain ⟨pc, hpc, hk1, hk2⟩ := excl_kind hx
      have : uh = th := by rw [ht] at huh; injection huh with huh; exact huh.symm
      subst this
      have hp := (h.pcok u uh pc ht hpc).2.2.2 hk1 hk2
      have := (pinned_iff s u).2 ⟨w, wh, hw, hu⟩
      simp [hp] at this
    · have := ((h.X t th ht hx).1 u uh hut huh).1
      simp [owned] at this
      omega

/-- In a state where `t` can use the buffer (own handle or borrowed reference), nothing has been
freed and no OTHER thread has exclusive access. -/
theorem Wf1.user_facts {c : Cfg} {s : State} (h : Wf1 c s) {t : Nat} {th : Thread}
    (ht : s.thr[t]? = some th) (ho : 1 ≤ owned th ∨ th.refs ≠ []) :
    s.freed = 0 ∧ 1 ≤ total s ∧
      ∀ (u : Nat) uh, u ≠ t → s.thr[u]? = some uh → excl uh = false := by
  -- some thread `v` owns a handle
  have hown : ∃ (v : Nat) (vh : Thread), s.thr[v]? = some vh ∧ 1 ≤ owned vh := by
    rcases ho with ho | ho
    · exact ⟨t, th, ht, ho⟩
    · cases hr : th.refs with
      | nil => exact absurd hr ho
      | cons u rest =>
        obtain ⟨uh, huh, hh⟩ := h.Rf t th u ht (by rw [hr]; simp)
        exact ⟨u, uh, huh, by simp [owned]; omega⟩
  obtain ⟨v, vh, hv, hvo⟩ := hown
  refine ⟨?_, ?_, ?_⟩
  · rcases Nat.lt_or_ge s.freed 1 with hf | hf
    · omega
    · have := (h.Fz.2 (by have := h.Fz.1; omega) v vh hv).1; omega
  · have := owned_le_total s v vh hv; omega
  · intro u uh hu huh
    cases hx : excl uh with
    | false => rfl
    | true =>
      exfalso
      by_cases hvu : v = u
      · subst hvu
        have : vh = uh := by rw [hv] at huh; injection huh
        subst this
        -- `u` is excl and owns: then `t` cannot hold a reference, so `t` owns: contradiction
        rcases ho with ho | ho
        · have := ((h.X v vh hv hx).1 t th (Ne.symm hu) ht).1; omega
        · exact ho (h.excl_no_refs hv hx ht)
      · have := ((h.X u uh huh hx).1 v vh hvu hv).1; omega

/-- A step that only changes thread `t`'s record and the payload fields, keeps the number of
handles it owns and its references, and does not newly establish exclusive access. -/
theorem Wf1.upd {c : Cfg} {s s' : State} (h : Wf1 c s) {t : Nat} {th th' : Thread}
    (ht : s.thr[t]? = some th)
    (hthr : s'.thr = s.thr.set t th') (hhist : s'.hist = s.hist) (hlast : s'.last = s.last)
    (hfreed : s'.freed = s.freed)
    (hown : owned th' = owned th) (hcoh : th.coh ≤ th'.coh) (hrefs : th'.refs = th.refs)
    (hhand : 1 ≤ th.handles → 1 ≤ th'.handles ∨ pinned s t = false)
    (hexcl : excl th' = true → (excl th = true ∧ exclOwn th' = exclOwn th) ∨
        (excl th = false ∧ total s = 1 ∧ owned th = 1 ∧ exclOwn th' = 1))
    (hunexcl : excl th = true → excl th' = false → 1 ≤ owned th)
    (hpc : ∀ pc, th'.pc = some pc → PcOk c pc ∧ PcSide (pinned s t) th' pc) :
    Wf1 c s' := by
  have htot : total s' = total s := by
    have := total_upd ht hthr; omega
  have hpin : ∀ u, pinned s' u = pinned s u := pinned_set_same ht hthr hrefs
  -- a witness thread of `s` is still there in `s'`, with at least the same coherence index
  have hwit : ∀ (x i : Nat), (∃ (w : Nat) (wh : Thread), s.thr[w]? = some wh ∧ x ∈ wh.refs ∧ i < wh.coh) →
      ∃ (w : Nat) (wh : Thread), s'.thr[w]? = some wh ∧ x ∈ wh.refs ∧ i < wh.coh := by
    rintro x i ⟨w, wh, hw, hm, hi⟩
    by_cases hwt : w = t
    · subst hwt
      have : wh = th := by rw [ht] at hw; injection hw with hw; exact hw.symm
      subst this
      exact ⟨w, th', by rw [hthr]; exact get_set_self ht, hrefs ▸ hm, by omega⟩
    · exact ⟨w, wh, by rw [hthr, get_set_ne hwt]; exact hw, hm, hi⟩
  refine ⟨?_, ?_, ?_, ?_, ?_, ?_, ?_, ?_⟩
  · rw [htot, hlast]; exact h.track
  · rw [htot, hlast]; exact h.ceil
  · intro i m hi hz u uh hu hown'
    rw [hhist] at hi
    rw [hthr] at hu
    rcases get_set_cases ht hu with ⟨rfl, rfl⟩ | ⟨_, hu'⟩
    · rcases h.J i m hi hz _ th ht (by omega) with h1 | h1
      · exact Or.inl (by omega)
      · exact Or.inr (hwit _ i h1)
    · rcases h.J i m hi hz u uh hu' hown' with h1 | h1
      · exact Or.inl h1
      · exact Or.inr (hwit _ i h1)
  · intro u uh pc hu hp
    rw [hthr] at hu
    rw [hpin]
    rcases get_set_cases ht hu with ⟨rfl, rfl⟩ | ⟨_, hu'⟩
    · exact hpc pc hp
    · exact h.pcok u uh pc hu' hp
  · intro w wh u hw hm
    rw [hthr] at hw
    have hold : ∃ uh, s.thr[u]? = some uh ∧ 1 ≤ uh.handles := by
      rcases get_set_cases ht hw with ⟨rfl, rfl⟩ | ⟨_, hw'⟩
      · exact h.Rf _ th u ht (hrefs ▸ hm)
      · exact h.Rf w wh u hw' hm
    have hpu : pinned s u = true := by
      rw [← hpin, pinned_iff]; exact ⟨w, wh, by rw [hthr]; exact hw, hm⟩
    obtain ⟨uh, huh, hh⟩ := hold
    by_cases hut : u = t
    · subst hut
      have : uh = th := by rw [ht] at huh; injection huh with huh; exact huh.symm
      subst this
      refine ⟨th', by rw [hthr]; exact get_set_self ht, ?_⟩
      rcases hhand hh with h1 | h1
      · exact h1
      · simp [h1] at hpu
    · exact ⟨uh, by rw [hthr, get_set_ne hut]; exact huh, hh⟩
  · intro u uh hu he
    rw [hthr] at hu
    rw [hfreed]
    rcases get_set_cases ht hu with ⟨rfl, rfl⟩ | ⟨hne, hu'⟩
    · rcases hexcl he with ⟨he', heo⟩ | ⟨_, htot1, hown1, heo⟩
      · obtain ⟨h1, h2, h3⟩ := h.X _ th ht he'
        refine ⟨?_, by omega, h3⟩
        intro v vh hv hvt
        rw [hthr, get_set_ne hv] at hvt
        exact h1 v vh hv hvt
      · refine ⟨?_, by omega, ?_⟩
        · intro v vh hv hvt
          rw [hthr, get_set_ne hv] at hvt
          have hle := owned_add_le_total s v u vh th hv hvt ht
          refine ⟨by omega, ?_⟩
          cases hx' : excl vh with
          | false => rfl
          | true =>
            have := ((h.X v vh hvt hx').1 u th (Ne.symm hv) ht).1
            omega
        · rcases Nat.lt_or_ge s.freed 1 with hf | hf
          · omega
          · have := (h.Fz.2 (by have := h.Fz.1; omega) u th ht).1
            omega
    · obtain ⟨h1, h2, h3⟩ := h.X u uh hu' he
      refine ⟨?_, h2, h3⟩
      intro v vh hv hvt
      rw [hthr] at hvt
      rcases get_set_cases ht hvt with ⟨rfl, rfl⟩ | ⟨_, hv'⟩
      · obtain ⟨ho, hx⟩ := h1 _ th (Ne.symm hne) ht
        refine ⟨by omega, ?_⟩
        cases hx' : excl vh with
        | false => rfl
        | true =>
          rcases hexcl hx' with ⟨h', _⟩ | ⟨_, _, h', _⟩
          · simp [hx] at h'
          · omega
      · exact h1 v vh hv hv'
  · rw [hfreed]
    refine ⟨h.Fz.1, ?_⟩
    intro hf u uh hu
    rw [hthr] at hu
    rcases get_set_cases ht hu with ⟨rfl, rfl⟩ | ⟨_, hu'⟩
    · obtain ⟨ho, hx⟩ := h.Fz.2 hf _ th ht
      refine ⟨by omega, ?_⟩
      cases hx' : excl uh with
      | false => rfl
      | true =>
        rcases hexcl hx' with ⟨h', _⟩ | ⟨_, _, h', _⟩
        · simp [hx] at h'
        · omega
    · exact h.Fz.2 hf u uh hu'
  · rw [htot, hfreed]
    intro h0
    rcases h.L h0 with hf | ⟨u, uh, hu, hx⟩
    · exact Or.inl hf
    · right
      by_cases hut : u = t
      · subst hut
        have : uh = th := by rw [ht] at hu; injection hu with hu; exact hu.symm
        subst this
        cases hx' : excl th' with
        | true => exact ⟨u, th', by rw [hthr]; exact get_set_self ht, hx'⟩
        | false =>
          have := hunexcl hx hx'
          have := owned_le_total s u uh ht
          omega
      · exact ⟨u, uh, by rw [hthr, get_set_ne hut]; exact hu, hx⟩

/-! ## Projections of the thread-record helpers -/

@[simp] theorem acquireInto_handles (th : Thread) (o : Ord) (r : List Nat) :
    (acquireInto th o r).handles = th.handles := by unfold acquireInto; split <;> rfl
@[simp] theorem acquireInto_pc (th : Thread) (o : Ord) (r : List Nat) :
    (acquireInto th o r).pc = th.pc := by unfold acquireInto; split <;> rfl
@[simp] theorem acquireInto_coh (th : Thread) (o : Ord) (r : List Nat) :
    (acquireInto th o r).coh = th.coh := by unfold acquireInto; split <;> rfl
@[simp] theorem acquireInto_res (th : Thread) (o : Ord) (r : List Nat) :
    (acquireInto th o r).res = th.res := by unfold acquireInto; split <;> rfl
@[simp] theorem owned_acquireInto (th : Thread) (o : Ord) (r : List Nat) :
    owned (acquireInto th o r) = owned th := by simp [owned]
@[simp] theorem excl_acquireInto (th : Thread) (o : Ord) (r : List Nat) :
    excl (acquireInto th o r) = excl th := by simp [excl]
@[simp] theorem exclOwn_acquireInto (th : Thread) (o : Ord) (r : List Nat) :
    exclOwn (acquireInto th o r) = exclOwn th := by simp [exclOwn]

@[simp] theorem tick_handles (th : Thread) (t : Nat) : (tick th t).handles = th.handles := rfl
@[simp] theorem tick_pc (th : Thread) (t : Nat) : (tick th t).pc = th.pc := rfl
@[simp] theorem tick_coh (th : Thread) (t : Nat) : (tick th t).coh = th.coh := rfl
@[simp] theorem tick_res (th : Thread) (t : Nat) : (tick th t).res = th.res := rfl
@[simp] theorem tick_pend (th : Thread) (t : Nat) : (tick th t).pend = th.pend := rfl

@[simp] theorem acquireInto_refs (th : Thread) (o : Ord) (r : List Nat) :
    (acquireInto th o r).refs = th.refs := by unfold acquireInto; split <;> rfl
@[simp] theorem tick_refs (th : Thread) (t : Nat) : (tick th t).refs = th.refs := rfl

/-! ## The steps that change the count or the set of owners -/

/-- Index of the message that an RMW turns into a non-last one. -/
theorem hist_append_cases {hist : List Msg} {last m : Msg} {i : Nat}
    (hi : (hist ++ [last])[i]? = some m) : hist[i]? = some m ∨ (i = hist.length ∧ m = last) := by
  rw [List.getElem?_append] at hi
  split at hi
  · exact Or.inl hi
  · rename_i hlt
    cases hk : i - hist.length with
    | succ k => rw [hk] at hi; simp at hi
    | zero =>
      rw [hk] at hi
      simp at hi
      exact Or.inr ⟨by omega, hi.symm⟩

/-- Common part of the two RMW steps (`drop`'s decrement, `clone`'s successful CAS) by
thread `t`: the other clauses of `J`. -/
theorem Wf1.J_rmw {c : Cfg} {s s' : State} (h : Wf1 c s) {t : Nat} {th th' : Thread}
    (ht : s.thr[t]? = some th) (hthr : s'.thr = s.thr.set t th')
    (hhist : s'.hist = s.hist ++ [s.last]) (hrefs : th'.refs = th.refs)
    (hcoh : th'.coh = s.hist.length + 1)
    -- the message that stops being the last one: if it is a `0`, every holder other than `t`
    -- has lent its handle to `t`
    (hnew : s.last.val = 0 → ∀ (u : Nat) uh, u ≠ t → s.thr[u]? = some uh → 1 ≤ owned uh → u ∈ th.refs) :
    ∀ (i : Nat) m, s'.hist[i]? = some m → m.val = 0 →
        ∀ (u : Nat) uh, s'.thr[u]? = some uh → 1 ≤ owned uh →
          i < uh.coh ∨ ∃ (w : Nat) (wh : Thread), s'.thr[w]? = some wh ∧ u ∈ wh.refs ∧ i < wh.coh := by
  intro i m hi hz u uh hu hown1
  rw [hhist] at hi
  have hilt : i < s.hist.length + 1 := by
    rcases Nat.lt_or_ge i (s.hist ++ [s.last]).length with h' | h'
    · simpa using h'
    · simp [List.getElem?_eq_none h'] at hi
  have hself : s'.thr[t]? = some th' := by rw [hthr]; exact get_set_self ht
  rw [hthr] at hu
  rcases get_set_cases ht hu with ⟨rfl, rfl⟩ | ⟨hne, hu'⟩
  · exact Or.inl (by omega)
  · rcases hist_append_cases hi with hi' | ⟨_, rfl⟩
    · rcases h.J i m hi' hz u uh hu' hown1 with h1 | ⟨w, wh, hw, hm, hlt⟩
      · exact Or.inl h1
      · right
        by_cases hwt : w = t
        · subst hwt
          have : wh = th := by rw [ht] at hw; injection hw with hw; exact hw.symm
          subst this
          exact ⟨w, th', hself, hrefs ▸ hm, by omega⟩
        · exact ⟨w, wh, by rw [hthr, get_set_ne hwt]; exact hw, hm, hlt⟩
    · right
      exact ⟨t, th', hself, hrefs ▸ hnew hz u uh hne hu' hown1, by omega⟩

/-- The decrement of `drop` (an RMW reading the last message). -/
theorem Wf1.rmwSub {c : Cfg} {s : State} (h : Wf1 c s) {t : Nat} {th : Thread}
    (ht : s.thr[t]? = some th) {code : List AStep} {old : Nat}
    (hpc : th.pc = some ⟨.drop, code, old⟩) (hcode : localRet code = none)
    (o : Ord) (code' : List AStep)
    (hcode' : localRet code' = some (if s.last.val = 0 then Ret.overflow else Ret.done)) :
    Wf1 c (doRmw s t th o (wrapSub c.ceil s.last.val 1) ⟨.drop, code', s.last.val⟩) := by
  have hown : owned th = th.handles + 1 := by simp [owned, inflight, hpc, hcode]
  have hle := owned_le_total s t th ht
  have htr := h.track (by omega)
  have hce := h.ceil (by omega)
  obtain ⟨hfz, _, hnox⟩ := h.user_facts ht (Or.inl (by omega))
  have hside := (h.pcok t th _ ht hpc).2
  generalize hth' : acquireInto { th with coh := s.hist.length + 1, pc := some ⟨.drop, code', s.last.val⟩ } o s.last.rel = th'
  generalize hs' : doRmw s t th o (wrapSub c.ceil s.last.val 1) ⟨.drop, code', s.last.val⟩ = s'
  have hthr : s'.thr = s.thr.set t th' := by subst hs' hth'; rfl
  have hhist : s'.hist = s.hist ++ [s.last] := by subst hs'; rfl
  have hlast : s'.last.val = wrapSub c.ceil s.last.val 1 := by subst hs'; rfl
  have hfreed : s'.freed = s.freed := by subst hs'; rfl
  have hrefs : th'.refs = th.refs := by subst hth'; simp
  have hcoh : th'.coh = s.hist.length + 1 := by subst hth'; simp
  have hhand : th'.handles = th.handles := by subst hth'; simp
  have hpc' : th'.pc = some ⟨.drop, code', s.last.val⟩ := by subst hth'; simp
  have hpin : ∀ u, pinned s' u = pinned s u := pinned_set_same ht hthr hrefs
  have hret : localRet code' ≠ none := by rw [hcode']; simp
  have hown' : owned th' = th.handles := by
    simp [owned, inflight, hpc', hret, hhand]
  have hexcl' : excl th' = decide (s.last.val = 0) := by
    simp only [excl, hpc']
    rw [hcode']
    by_cases hv : s.last.val = 0 <;> simp [hv]
  have htot := total_upd ht hthr
  rw [hown, hown'] at htot
  refine ⟨?_, ?_, ?_, ?_, ?_, ?_, ?_, ?_⟩
  · intro h1; rw [hlast]; unfold wrapSub; split <;> omega
  · intro h1; rw [hlast]; unfold wrapSub; split <;> omega
  · refine h.J_rmw ht hthr hhist hrefs hcoh ?_
    intro hv u uh hne hu ho
    have := owned_add_le_total s t u th uh (Ne.symm hne) ht hu
    omega
  · intro u uh pc hu hp
    rw [hthr] at hu
    rw [hpin]
    rcases get_set_cases ht hu with ⟨rfl, rfl⟩ | ⟨_, hu'⟩
    · rw [hpc'] at hp
      injection hp with hp
      subst hp
      refine ⟨?_, hside.congr rfl (by omega) hrefs id⟩
      simp only [PcOk]
      by_cases hv : s.last.val = 0
      · right; left; simp [hcode', hv]
      · right; right; simp [hcode', hv]
    · exact h.pcok u uh pc hu' hp
  · intro w wh u hw hm
    rw [hthr] at hw
    have hold : ∃ uh, s.thr[u]? = some uh ∧ 1 ≤ uh.handles := by
      rcases get_set_cases ht hw with ⟨rfl, rfl⟩ | ⟨_, hw'⟩
      · exact h.Rf _ th u ht (hrefs ▸ hm)
      · exact h.Rf w wh u hw' hm
    obtain ⟨uh, huh, hh⟩ := hold
    by_cases hut : u = t
    · subst hut
      have : uh = th := by rw [ht] at huh; injection huh with huh; exact huh.symm
      subst this
      exact ⟨th', by rw [hthr]; exact get_set_self ht, by omega⟩
    · exact ⟨uh, by rw [hthr, get_set_ne hut]; exact huh, hh⟩
  · intro u uh hu he
    rw [hthr] at hu
    rw [hfreed]
    rcases get_set_cases ht hu with ⟨rfl, huh⟩ | ⟨hne, hu'⟩
    · rw [huh, hexcl'] at he
      simp at he
      refine ⟨?_, ?_, hfz⟩
      · intro v vh hv hvt
        rw [hthr, get_set_ne hv] at hvt
        have := owned_add_le_total s u v th vh (Ne.symm hv) ht hvt
        exact ⟨by omega, hnox v vh hv hvt⟩
      · rw [huh, hown']
        simp [exclOwn, hpc']
        omega
    · rw [hnox u uh hne hu'] at he; simp at he
  · rw [hfreed]
    refine ⟨h.Fz.1, ?_⟩
    intro hf; omega
  · intro h0
    right
    refine ⟨t, th', by rw [hthr]; exact get_set_self ht, ?_⟩
    rw [hexcl']
    simp; omega

/-- The successful compare-exchange of `clone` (an RMW reading the last message), on an own
handle or through a borrowed reference. -/
theorem Wf1.casSucc {c : Cfg} {s : State} (h : Wf1 c s) {t : Nat} {th : Thread}
    (ht : s.thr[t]? = some th) {code : List AStep} {old : Nat}
    (hpc : th.pc = some ⟨.clone, code, old⟩) (hcode : localRet code = none)
    (hold : s.last.val = old) (hb : old < c.ceil) (o : Ord) :
    Wf1 c (doRmw s t th o (wrapAdd c.ceil old 1) ⟨.clone, [.ret .done], old⟩) := by
  have hown : owned th = th.handles := by simp [owned, inflight, hpc, hcode]
  have hside := (h.pcok t th _ ht hpc).2
  have huse : 1 ≤ owned th ∨ th.refs ≠ [] := by
    rcases hside.1 (Or.inl rfl) with h1 | h1
    · exact Or.inl (by omega)
    · exact Or.inr h1
  obtain ⟨hfz, htot1, hnox⟩ := h.user_facts ht huse
  have htr := h.track htot1
  generalize hth' : acquireInto { th with coh := s.hist.length + 1, pc := some ⟨.clone, [.ret .done], old⟩ } o s.last.rel = th'
  generalize hs' : doRmw s t th o (wrapAdd c.ceil old 1) ⟨.clone, [.ret .done], old⟩ = s'
  have hthr : s'.thr = s.thr.set t th' := by subst hs' hth'; rfl
  have hhist : s'.hist = s.hist ++ [s.last] := by subst hs'; rfl
  have hlast : s'.last.val = wrapAdd c.ceil old 1 := by subst hs'; rfl
  have hfreed : s'.freed = s.freed := by subst hs'; rfl
  have hrefs : th'.refs = th.refs := by subst hth'; simp
  have hcoh : th'.coh = s.hist.length + 1 := by subst hth'; simp
  have hhand : th'.handles = th.handles := by subst hth'; simp
  have hpc' : th'.pc = some ⟨.clone, [.ret .done], old⟩ := by subst hth'; simp
  have hpin : ∀ u, pinned s' u = pinned s u := pinned_set_same ht hthr hrefs
  have hown' : owned th' = th.handles + 1 := by
    simp [owned, inflight, hpc', localRet, hhand]
  have hexcl' : excl th' = false := by simp [excl, hpc']
  have htot := total_upd ht hthr
  rw [hown, hown'] at htot
  have hwrap : wrapAdd c.ceil old 1 = old + 1 := by unfold wrapAdd; split <;> omega
  refine ⟨?_, ?_, ?_, ?_, ?_, ?_, ?_, ?_⟩
  · intro h1; rw [hlast, hwrap]; omega
  · intro h1; rw [hlast, hwrap]; omega
  · refine h.J_rmw ht hthr hhist hrefs hcoh ?_
    intro hv u uh hne hu ho
    -- one handle in all: it is `u`'s, and `t` clones through a reference to it
    have hadd := owned_add_le_total s t u th uh (Ne.symm hne) ht hu
    have hth0 : th.handles = 0 := by omega
    rcases hside.1 (Or.inl rfl) with h1 | h1
    · omega
    · cases hr : th.refs with
      | nil => exact absurd hr h1
      | cons l rest =>
        obtain ⟨lh, hlh, hh⟩ := h.Rf t th l ht (by rw [hr]; simp)
        by_cases hlu : l = u
        · subst hlu; simp
        · have hlt : l ≠ t := by
            intro e; subst e
            have : lh = th := by rw [ht] at hlh; injection hlh with hlh; exact hlh.symm
            subst this; omega
          have := owned_add_le_total s l u lh uh hlu hlh hu
          have : 1 ≤ owned lh := by simp [owned]; omega
          omega
  · intro u uh pc hu hp
    rw [hthr] at hu
    rw [hpin]
    rcases get_set_cases ht hu with ⟨rfl, rfl⟩ | ⟨_, hu'⟩
    · rw [hpc'] at hp
      injection hp with hp
      subst hp
      exact ⟨by simp [PcOk, localRet], hside.congr rfl (by omega) hrefs id⟩
    · exact h.pcok u uh pc hu' hp
  · intro w wh u hw hm
    rw [hthr] at hw
    have hold' : ∃ uh, s.thr[u]? = some uh ∧ 1 ≤ uh.handles := by
      rcases get_set_cases ht hw with ⟨rfl, rfl⟩ | ⟨_, hw'⟩
      · exact h.Rf _ th u ht (hrefs ▸ hm)
      · exact h.Rf w wh u hw' hm
    obtain ⟨uh, huh, hh⟩ := hold'
    by_cases hut : u = t
    · subst hut
      have : uh = th := by rw [ht] at huh; injection huh with huh; exact huh.symm
      subst this
      exact ⟨th', by rw [hthr]; exact get_set_self ht, by omega⟩
    · exact ⟨uh, by rw [hthr, get_set_ne hut]; exact huh, hh⟩
  · intro u uh hu he
    rw [hthr] at hu
    rcases get_set_cases ht hu with ⟨rfl, huh⟩ | ⟨hne, hu'⟩
    · rw [huh, hexcl'] at he; simp at he
    · rw [hnox u uh hne hu'] at he; simp at he
  · rw [hfreed]
    refine ⟨h.Fz.1, ?_⟩
    intro hf; omega
  · intro h0; omega

/-- The free (by the dropper whose decrement overflowed, or by `unwrap`). -/
theorem Wf1.free {c : Cfg} {s s' : State} (h : Wf1 c s) {t : Nat} {th th' : Thread}
    (ht : s.thr[t]? = some th) (hx : excl th = true)
    (hthr : s'.thr = s.thr.set t th')
    (hfreed : s'.freed = s.freed + 1) (hown : owned th' = 0) (hpc : th'.pc = none)
    (hrefs : th'.refs = th.refs) : Wf1 c s' := by
  obtain ⟨h1, h2, h3⟩ := h.X t th ht hx
  have hnoref : ∀ (w : Nat) wh, s'.thr[w]? = some wh → wh.refs = [] := by
    intro w wh hw
    rw [hthr] at hw
    rcases get_set_cases ht hw with ⟨rfl, rfl⟩ | ⟨_, hw'⟩
    · rw [hrefs]; exact h.excl_no_refs ht hx ht
    · exact h.excl_no_refs ht hx hw'
  have hall : ∀ (u : Nat) uh, s'.thr[u]? = some uh → owned uh = 0 ∧ excl uh = false := by
    intro u uh hu
    rw [hthr] at hu
    rcases get_set_cases ht hu with ⟨rfl, rfl⟩ | ⟨hne, hu'⟩
    · exact ⟨hown, by simp [excl, hpc]⟩
    · exact h1 u uh hne hu'
  have htot : total s' = 0 := (total_eq_zero_iff s').2 fun u uh hu => (hall u uh hu).1
  have hpin : ∀ u, pinned s' u = pinned s u := pinned_set_same ht hthr hrefs
  refine ⟨by omega, by omega, ?_, ?_, ?_, ?_, ?_, ?_⟩
  · intro i m _ _ u uh hu hown1
    have := (hall u uh hu).1; omega
  · intro u uh pc hu hp
    rw [hthr] at hu
    rw [hpin]
    rcases get_set_cases ht hu with ⟨rfl, rfl⟩ | ⟨_, hu'⟩
    · rw [hpc] at hp; simp at hp
    · exact h.pcok u uh pc hu' hp
  · intro w wh u hw hm
    rw [hnoref w wh hw] at hm; simp at hm
  · intro u uh hu he
    rw [(hall u uh hu).2] at he; simp at he
  · exact ⟨by omega, fun _ => hall⟩
  · intro _; left; omega

/-- Lookup after replacing two threads. -/
theorem get_set2_cases {l : List Thread} {t u w : Nat} {th uh th' uh' wh : Thread}
    (ht : l[t]? = some th) (hu : l[u]? = some uh) (htu : t ≠ u)
    (hw : ((l.set t th').set u uh')[w]? = some wh) :
    (w = u ∧ wh = uh') ∨ (w = t ∧ wh = th') ∨ (w ≠ t ∧ w ≠ u ∧ l[w]? = some wh) := by
  have hu1 : (l.set t th')[u]? = some uh := by rw [get_set_ne (Ne.symm htu)]; exact hu
  rcases get_set_cases hu1 hw with ⟨rfl, rfl⟩ | ⟨hne, hw'⟩
  · exact Or.inl ⟨rfl, rfl⟩
  · rcases get_set_cases ht hw' with ⟨rfl, rfl⟩ | ⟨hne', hw''⟩
    · exact Or.inr (Or.inl ⟨rfl, rfl⟩)
    · exact Or.inr (Or.inr ⟨hne', hne, hw''⟩)

theorem get_set2_self {l : List Thread} {t u : Nat} {th uh th' uh' : Thread}
    (ht : l[t]? = some th) (hu : l[u]? = some uh) (htu : t ≠ u) :
    ((l.set t th').set u uh')[t]? = some th' ∧ ((l.set t th').set u uh')[u]? = some uh' := by
  have hu1 : (l.set t th')[u]? = some uh := by rw [get_set_ne (Ne.symm htu)]; exact hu
  exact ⟨by rw [get_set_ne htu]; exact get_set_self ht, get_set_self hu1⟩

theorem get_set2_ne {l : List Thread} {t u w : Nat} {th' uh' : Thread} (hwt : w ≠ t) (hwu : w ≠ u) :
    ((l.set t th').set u uh')[w]? = l[w]? := by
  rw [get_set_ne hwu, get_set_ne hwt]

/-- Replacing two thread records without changing references does not change who is pinned. -/
theorem pinned_set2_same {s s' : State} {t u : Nat} {th uh th' uh' : Thread}
    (ht : s.thr[t]? = some th) (hu : s.thr[u]? = some uh) (htu : t ≠ u)
    (hthr : s'.thr = (s.thr.set t th').set u uh') (hrt : th'.refs = th.refs)
    (hru : uh'.refs = uh.refs) (x : Nat) : pinned s' x = pinned s x := by
  obtain ⟨hst, hsu⟩ := get_set2_self (th' := th') (uh' := uh') ht hu htu
  rw [Bool.eq_iff_iff, pinned_iff, pinned_iff]
  constructor
  · rintro ⟨w, wh, hw, hm⟩
    rw [hthr] at hw
    rcases get_set2_cases ht hu htu hw with ⟨rfl, rfl⟩ | ⟨rfl, rfl⟩ | ⟨_, _, hw'⟩
    · exact ⟨_, uh, hu, hru ▸ hm⟩
    · exact ⟨_, th, ht, hrt ▸ hm⟩
    · exact ⟨w, wh, hw', hm⟩
  · rintro ⟨w, wh, hw, hm⟩
    by_cases hwt : w = t
    · subst hwt
      have : wh = th := by rw [ht] at hw; injection hw with hw; exact hw.symm
      subst this
      exact ⟨w, th', by rw [hthr]; exact hst, hrt ▸ hm⟩
    · by_cases hwu : w = u
      · subst hwu
        have : wh = uh := by rw [hu] at hw; injection hw with hw; exact hw.symm
        subst this
        exact ⟨w, uh', by rw [hthr]; exact hsu, hru ▸ hm⟩
      · exact ⟨w, wh, by rw [hthr, get_set2_ne hwt hwu]; exact hw, hm⟩

/-- Handing a handle from the idle, unpinned thread `t` to the idle thread `u`. -/
theorem Wf1.send {c : Cfg} {s : State} (h : Wf1 c s) {t u : Nat} {th uh : Thread}
    (ht : s.thr[t]? = some th) (hu : s.thr[u]? = some uh) (htu : t ≠ u)
    (hpt : th.pc = none) (hpu : uh.pc = none) (hh : 1 ≤ th.handles) (hnp : pinned s t = false)
    (v : List Nat)
    (th' uh' : Thread) (hth' : { th with handles := th.handles - 1 } = th')
    (huh' : { uh with handles := uh.handles + 1, view := v, coh := max uh.coh th.coh } = uh') :
    Wf1 c { s with thr := (s.thr.set t th').set u uh' } := by
  have hownt : owned th = th.handles := by simp [owned, inflight, hpt]
  have hownu : owned uh = uh.handles := by simp [owned, inflight, hpu]
  have hownt' : owned th' = th.handles - 1 := by subst hth'; simp [owned, inflight, hpt]
  have hownu' : owned uh' = uh.handles + 1 := by subst huh'; simp [owned, inflight, hpu]
  have hxt' : excl th' = false := by subst hth'; simp [excl, hpt]
  have hxu' : excl uh' = false := by subst huh'; simp [excl, hpu]
  have hrt : th'.refs = th.refs := by subst hth'; rfl
  have hru : uh'.refs = uh.refs := by subst huh'; rfl
  have hct : th'.coh = th.coh := by subst hth'; rfl
  have hcu : uh'.coh = max uh.coh th.coh := by subst huh'; rfl
  obtain ⟨hst, hsu⟩ := get_set2_self (th' := th') (uh' := uh') ht hu htu
  have hlook := fun (w : Nat) wh => get_set2_cases (w := w) (wh := wh) (th' := th') (uh' := uh') ht hu htu
  have htot : total { s with thr := (s.thr.set t th').set u uh' } = total s := by
    have hu1 : (s.thr.set t th')[u]? = some uh := by rw [get_set_ne (Ne.symm htu)]; exact hu
    have e1 := total_set s t th th' ht
    have e2 := total_set { s with thr := s.thr.set t th' } u uh uh' hu1
    simp only [total] at e1 e2 ⊢
    omega
  have hle := owned_le_total s t th ht
  obtain ⟨hfz, _, hnox⟩ := h.user_facts ht (Or.inl (by omega))
  have hpin : ∀ x, pinned { s with thr := (s.thr.set t th').set u uh' } x = pinned s x :=
    pinned_set2_same ht hu htu rfl hrt hru
  -- witnesses survive (their coherence index can only grow)
  have hwit : ∀ (x i : Nat), (∃ (w : Nat) (wh : Thread), s.thr[w]? = some wh ∧ x ∈ wh.refs ∧ i < wh.coh) →
      ∃ (w : Nat) (wh : Thread), ((s.thr.set t th').set u uh')[w]? = some wh ∧ x ∈ wh.refs ∧ i < wh.coh := by
    rintro x i ⟨w, wh, hw, hm, hi⟩
    by_cases hwt : w = t
    · subst hwt
      have : wh = th := by rw [ht] at hw; injection hw with hw; exact hw.symm
      subst this
      exact ⟨w, th', hst, hrt ▸ hm, by omega⟩
    · by_cases hwu : w = u
      · subst hwu
        have : wh = uh := by rw [hu] at hw; injection hw with hw; exact hw.symm
        subst this
        exact ⟨w, uh', hsu, hru ▸ hm, by rw [hcu]; omega⟩
      · exact ⟨w, wh, by rw [get_set2_ne hwt hwu]; exact hw, hm, hi⟩
  refine ⟨?_, ?_, ?_, ?_, ?_, ?_, ?_, ?_⟩
  · rw [htot]; exact h.track
  · rw [htot]; exact h.ceil
  · intro i m hi hz w wh hw hown1
    rcases hlook w wh hw with ⟨rfl, rfl⟩ | ⟨rfl, rfl⟩ | ⟨_, _, hw'⟩
    · -- the receiver: through the sender, which is not pinned
      rcases h.J i m hi hz t th ht (by omega) with h1 | ⟨x, xh, hx, hm, _⟩
      · exact Or.inl (by rw [hcu]; omega)
      · exact absurd hm (not_mem_of_not_pinned hnp hx)
    · rcases h.J i m hi hz _ th ht (by omega) with h1 | h1
      · exact Or.inl (by omega)
      · exact Or.inr (hwit _ i h1)
    · rcases h.J i m hi hz w wh hw' hown1 with h1 | h1
      · exact Or.inl h1
      · exact Or.inr (hwit _ i h1)
  · intro w wh pc hw hp
    rw [hpin]
    rcases hlook w wh hw with ⟨rfl, rfl⟩ | ⟨rfl, rfl⟩ | ⟨_, _, hw'⟩
    · subst huh'; simp [hpu] at hp
    · subst hth'; simp [hpt] at hp
    · exact h.pcok w wh pc hw' hp
  · intro w wh x hw hm
    have hold : ∃ xh, s.thr[x]? = some xh ∧ 1 ≤ xh.handles := by
      rcases hlook w wh hw with ⟨rfl, rfl⟩ | ⟨rfl, rfl⟩ | ⟨_, _, hw'⟩
      · exact h.Rf _ uh x hu (hru ▸ hm)
      · exact h.Rf _ th x ht (hrt ▸ hm)
      · exact h.Rf w wh x hw' hm
    have hpx : pinned s x = true := by
      rw [← hpin, pinned_iff]; exact ⟨w, wh, hw, hm⟩
    obtain ⟨xh, hxh, hh'⟩ := hold
    by_cases hxt : x = t
    · subst hxt; simp [hnp] at hpx
    · by_cases hxu : x = u
      · subst hxu
        exact ⟨uh', hsu, by subst huh'; simp⟩
      · exact ⟨xh, by rw [get_set2_ne hxt hxu]; exact hxh, hh'⟩
  · intro w wh hw he
    rcases hlook w wh hw with ⟨rfl, rfl⟩ | ⟨rfl, rfl⟩ | ⟨hwt, _, hw'⟩
    · rw [hxu'] at he; simp at he
    · rw [hxt'] at he; simp at he
    · rw [hnox w wh hwt hw'] at he; simp at he
  · refine ⟨h.Fz.1, ?_⟩
    intro hf
    simp at hf; omega
  · rw [htot]; intro h0; omega

/-- Thread `u` lends a shared reference to one of its handles to the idle thread `t`. -/
theorem Wf1.borrow {c : Cfg} {s : State} (h : Wf1 c s) {t u : Nat} {th uh : Thread}
    (ht : s.thr[t]? = some th) (hu : s.thr[u]? = some uh) (htu : t ≠ u)
    (hpt : th.pc = none) (hpu : uh.pc = none) (hh : 1 ≤ uh.handles) (v : List Nat)
    (th' : Thread) (hth' : { th with refs := u :: th.refs, view := v, coh := max th.coh uh.coh } = th') :
    Wf1 c { s with thr := s.thr.set t th' } := by
  have hown' : owned th' = owned th := by subst hth'; simp [owned]
  have hx' : excl th' = false := by subst hth'; simp [excl, hpt]
  have hx : excl th = false := by simp [excl, hpt]
  have hself : (s.thr.set t th')[t]? = some th' := get_set_self ht
  have htot : total { s with thr := s.thr.set t th' } = total s := by
    have := total_upd (s' := { s with thr := s.thr.set t th' }) ht rfl; omega
  have hrefs : ∀ x, x ∈ th.refs → x ∈ th'.refs := by
    intro x hx; subst hth'; simp [hx]
  have hcoh : th.coh ≤ th'.coh := by subst hth'; simp; omega
  -- pinned threads: the same ones, plus `u`
  have hpin : ∀ x, pinned { s with thr := s.thr.set t th' } x = true → pinned s x = true ∨ x = u := by
    intro x hp
    rw [pinned_iff] at hp
    obtain ⟨w, wh, hw, hm⟩ := hp
    rcases get_set_cases ht hw with ⟨rfl, rfl⟩ | ⟨_, hw'⟩
    · subst hth'
      simp at hm
      rcases hm with rfl | hm
      · exact Or.inr rfl
      · exact Or.inl ((pinned_iff s x).2 ⟨_, th, ht, hm⟩)
    · exact Or.inl ((pinned_iff s x).2 ⟨w, wh, hw', hm⟩)
  have hwit : ∀ (x i : Nat), (∃ (w : Nat) (wh : Thread), s.thr[w]? = some wh ∧ x ∈ wh.refs ∧ i < wh.coh) →
      ∃ (w : Nat) (wh : Thread), (s.thr.set t th')[w]? = some wh ∧ x ∈ wh.refs ∧ i < wh.coh := by
    rintro x i ⟨w, wh, hw, hm, hi⟩
    by_cases hwt : w = t
    · subst hwt
      have : wh = th := by rw [ht] at hw; injection hw with hw; exact hw.symm
      subst this
      exact ⟨w, th', hself, hrefs x hm, by omega⟩
    · exact ⟨w, wh, by rw [get_set_ne hwt]; exact hw, hm, hi⟩
  refine ⟨?_, ?_, ?_, ?_, ?_, ?_, ?_, ?_⟩
  · rw [htot]; exact h.track
  · rw [htot]; exact h.ceil
  · intro i m hi hz w wh hw hown1
    rcases get_set_cases ht hw with ⟨rfl, rfl⟩ | ⟨_, hw'⟩
    · rcases h.J i m hi hz _ th ht (by omega) with h1 | h1
      · exact Or.inl (by omega)
      · exact Or.inr (hwit _ i h1)
    · rcases h.J i m hi hz w wh hw' hown1 with h1 | h1
      · exact Or.inl h1
      · exact Or.inr (hwit _ i h1)
  · intro w wh pc hw hp
    rcases get_set_cases ht hw with ⟨rfl, rfl⟩ | ⟨hne, hw'⟩
    · subst hth'; simp [hpt] at hp
    · obtain ⟨h1, h2⟩ := h.pcok w wh pc hw' hp
      refine ⟨h1, h2.congr rfl (Nat.le_refl _) rfl ?_⟩
      intro hf
      cases hp' : pinned { s with thr := s.thr.set t th' } w with
      | false => rfl
      | true =>
        rcases hpin w hp' with h3 | rfl
        · simp [hf] at h3
        · rw [hu] at hw'; injection hw' with hw'; subst hw'; simp [hpu] at hp
  · intro w wh x hw hm
    have hold : ∃ xh, s.thr[x]? = some xh ∧ 1 ≤ xh.handles := by
      rcases get_set_cases ht hw with ⟨rfl, rfl⟩ | ⟨_, hw'⟩
      · subst hth'
        simp at hm
        rcases hm with rfl | hm
        · exact ⟨uh, hu, hh⟩
        · exact h.Rf _ th x ht hm
      · exact h.Rf w wh x hw' hm
    obtain ⟨xh, hxh, hh'⟩ := hold
    by_cases hxt : x = t
    · subst hxt
      have : xh = th := by rw [ht] at hxh; injection hxh with hxh; exact hxh.symm
      subst this
      exact ⟨th', hself, by subst hth'; simpa using hh'⟩
    · exact ⟨xh, by rw [get_set_ne hxt]; exact hxh, hh'⟩
  · intro w wh hw he
    rcases get_set_cases ht hw with ⟨rfl, rfl⟩ | ⟨hne, hw'⟩
    · rw [hx'] at he; simp at he
    · obtain ⟨h1, h2, h3⟩ := h.X w wh hw' he
      refine ⟨?_, h2, h3⟩
      intro y yh hy hyt
      rcases get_set_cases ht hyt with ⟨rfl, rfl⟩ | ⟨_, hy'⟩
      · have := h1 _ th (Ne.symm hne) ht
        exact ⟨by omega, hx'⟩
      · exact h1 y yh hy hy'
  · refine ⟨h.Fz.1, ?_⟩
    intro hf w wh hw
    rcases get_set_cases ht hw with ⟨rfl, rfl⟩ | ⟨_, hw'⟩
    · have := h.Fz.2 hf _ th ht
      exact ⟨by omega, hx'⟩
    · exact h.Fz.2 hf w wh hw'
  · rw [htot]
    intro h0
    rcases h.L h0 with hf | ⟨w, wh, hw, hxw⟩
    · exact Or.inl hf
    · right
      by_cases hwt : w = t
      · subst hwt
        rw [ht] at hw; injection hw with hw; subst hw
        simp [hx] at hxw
      · exact ⟨w, wh, by rw [get_set_ne hwt]; exact hw, hxw⟩

/-- The idle thread `t` gives a reference back to the idle lender `u` (join). -/
theorem Wf1.unborrow {c : Cfg} {s : State} (h : Wf1 c s) {t u : Nat} {th uh : Thread}
    (ht : s.thr[t]? = some th) (hu : s.thr[u]? = some uh) (htu : t ≠ u)
    (hpt : th.pc = none) (hpu : uh.pc = none) (hmem : u ∈ th.refs) (v : List Nat)
    (th' uh' : Thread) (hth' : { th with refs := th.refs.erase u } = th')
    (huh' : { uh with view := v, coh := max uh.coh th.coh } = uh') :
    Wf1 c { s with thr := (s.thr.set t th').set u uh' } := by
  have hownt' : owned th' = owned th := by subst hth'; simp [owned]
  have hownu' : owned uh' = owned uh := by subst huh'; simp [owned]
  have hxt' : excl th' = false := by subst hth'; simp [excl, hpt]
  have hxu' : excl uh' = false := by subst huh'; simp [excl, hpu]
  have hxt : excl th = false := by simp [excl, hpt]
  have hxu : excl uh = false := by simp [excl, hpu]
  have hru : uh'.refs = uh.refs := by subst huh'; rfl
  have hrt : ∀ x, x ∈ th'.refs → x ∈ th.refs := by
    intro x hx; subst hth'; exact List.mem_of_mem_erase hx
  have hrt' : ∀ x, x ≠ u → x ∈ th.refs → x ∈ th'.refs := by
    intro x hne hx; subst hth'; exact (List.mem_erase_of_ne hne).2 hx
  have hct : th'.coh = th.coh := by subst hth'; rfl
  have hcu : uh'.coh = max uh.coh th.coh := by subst huh'; rfl
  have hht : th'.handles = th.handles := by subst hth'; rfl
  have hhu : uh'.handles = uh.handles := by subst huh'; rfl
  obtain ⟨hst, hsu⟩ := get_set2_self (th' := th') (uh' := uh') ht hu htu
  have hlook := fun (w : Nat) wh => get_set2_cases (w := w) (wh := wh) (th' := th') (uh' := uh') ht hu htu
  have htot : total { s with thr := (s.thr.set t th').set u uh' } = total s := by
    have hu1 : (s.thr.set t th')[u]? = some uh := by rw [get_set_ne (Ne.symm htu)]; exact hu
    have e1 := total_set s t th th' ht
    have e2 := total_set { s with thr := s.thr.set t th' } u uh uh' hu1
    simp only [total] at e1 e2 ⊢
    omega
  -- pinned can only decrease
  have hpin : ∀ x, pinned { s with thr := (s.thr.set t th').set u uh' } x = true → pinned s x = true := by
    intro x hp
    rw [pinned_iff] at hp ⊢
    obtain ⟨w, wh, hw, hm⟩ := hp
    rcases hlook w wh hw with ⟨rfl, rfl⟩ | ⟨rfl, rfl⟩ | ⟨_, _, hw'⟩
    · exact ⟨_, uh, hu, hru ▸ hm⟩
    · exact ⟨_, th, ht, hrt x hm⟩
    · exact ⟨w, wh, hw', hm⟩
  refine ⟨?_, ?_, ?_, ?_, ?_, ?_, ?_, ?_⟩
  · rw [htot]; exact h.track
  · rw [htot]; exact h.ceil
  · intro i m hi hz w wh hw hown1
    -- old fact about the same thread
    have key : ∀ (x : Nat) (xh : Thread), s.thr[x]? = some xh → 1 ≤ owned xh → ∀ xh' : Thread,
        ((s.thr.set t th').set u uh')[x]? = some xh' → xh.coh ≤ xh'.coh →
        i < xh'.coh ∨ ∃ (y : Nat) (yh : Thread), ((s.thr.set t th').set u uh')[y]? = some yh ∧ x ∈ yh.refs ∧ i < yh.coh := by
      intro x xh hx ho xh' hx' hc
      rcases h.J i m hi hz x xh hx ho with h1 | ⟨y, yh, hy, hm, hlt⟩
      · exact Or.inl (by omega)
      · by_cases hyt : y = t
        · subst hyt
          have : yh = th := by rw [ht] at hy; injection hy with hy; exact hy.symm
          subst this
          by_cases hxu : x = u
          · -- the returned reference: the lender's coherence index takes over
            subst hxu
            left
            rw [hsu] at hx'; injection hx' with hx'; subst hx'
            rw [hcu]; omega
          · exact Or.inr ⟨y, th', hst, hrt' x hxu hm, by omega⟩
        · by_cases hyu : y = u
          · subst hyu
            have : yh = uh := by rw [hu] at hy; injection hy with hy; exact hy.symm
            subst this
            exact Or.inr ⟨y, uh', hsu, hru ▸ hm, by rw [hcu]; omega⟩
          · exact Or.inr ⟨y, yh, by rw [get_set2_ne hyt hyu]; exact hy, hm, hlt⟩
    rcases hlook w wh hw with ⟨rfl, rfl⟩ | ⟨rfl, rfl⟩ | ⟨_, _, hw'⟩
    · exact key _ uh hu (by omega) _ hsu (by rw [hcu]; omega)
    · exact key _ th ht (by omega) _ hst (by omega)
    · exact key w wh hw' hown1 wh hw (Nat.le_refl _)
  · intro w wh pc hw hp
    rcases hlook w wh hw with ⟨rfl, rfl⟩ | ⟨rfl, rfl⟩ | ⟨_, _, hw'⟩
    · subst huh'; simp [hpu] at hp
    · subst hth'; simp [hpt] at hp
    · obtain ⟨h1, h2⟩ := h.pcok w wh pc hw' hp
      refine ⟨h1, h2.congr rfl (Nat.le_refl _) rfl ?_⟩
      intro hf
      cases hp' : pinned { s with thr := (s.thr.set t th').set u uh' } w with
      | false => rfl
      | true => have := hpin w hp'; simp [hf] at this
  · intro w wh x hw hm
    have hold : ∃ xh, s.thr[x]? = some xh ∧ 1 ≤ xh.handles := by
      rcases hlook w wh hw with ⟨rfl, rfl⟩ | ⟨rfl, rfl⟩ | ⟨_, _, hw'⟩
      · exact h.Rf _ uh x hu (hru ▸ hm)
      · exact h.Rf _ th x ht (hrt x hm)
      · exact h.Rf w wh x hw' hm
    obtain ⟨xh, hxh, hh'⟩ := hold
    by_cases hxt : x = t
    · subst hxt
      have : xh = th := by rw [ht] at hxh; injection hxh with hxh; exact hxh.symm
      subst this
      exact ⟨th', hst, by omega⟩
    · by_cases hxu : x = u
      · subst hxu
        have : xh = uh := by rw [hu] at hxh; injection hxh with hxh; exact hxh.symm
        subst this
        exact ⟨uh', hsu, by omega⟩
      · exact ⟨xh, by rw [get_set2_ne hxt hxu]; exact hxh, hh'⟩
  · intro w wh hw he
    rcases hlook w wh hw with ⟨rfl, rfl⟩ | ⟨rfl, rfl⟩ | ⟨hwt, hwu, hw'⟩
    · rw [hxu'] at he; simp at he
    · rw [hxt'] at he; simp at he
    · obtain ⟨h1, h2, h3⟩ := h.X w wh hw' he
      refine ⟨?_, h2, h3⟩
      intro y yh hy hyt
      rcases hlook y yh hyt with ⟨rfl, rfl⟩ | ⟨rfl, rfl⟩ | ⟨_, _, hy'⟩
      · have := h1 _ uh (Ne.symm hwu) hu
        exact ⟨by omega, hxu'⟩
      · have := h1 _ th (Ne.symm hwt) ht
        exact ⟨by omega, hxt'⟩
      · exact h1 y yh hy hy'
  · refine ⟨h.Fz.1, ?_⟩
    intro hf w wh hw
    rcases hlook w wh hw with ⟨rfl, rfl⟩ | ⟨rfl, rfl⟩ | ⟨_, _, hw'⟩
    · have := h.Fz.2 hf _ uh hu
      exact ⟨by omega, hxu'⟩
    · have := h.Fz.2 hf _ th ht
      exact ⟨by omega, hxt'⟩
    · exact h.Fz.2 hf w wh hw'
  · rw [htot]
    intro h0
    rcases h.L h0 with hf | ⟨w, wh, hw, hxw⟩
    · exact Or.inl hf
    · right
      by_cases hwt : w = t
      · subst hwt
        rw [ht] at hw; injection hw with hw; subst hw
        simp [hxt] at hxw
      · by_cases hwu : w = u
        · subst hwu
          rw [hu] at hw; injection hw with hw; subst hw
          simp [hxu] at hxw
        · exact ⟨w, wh, by rw [get_set2_ne hwt hwu]; exact hw, hxw⟩

/-! ## Thread-local steps -/

/-- An (acquire or other) fence of an in-flight method whose remaining code is local. -/
theorem Wf1.fenceStep {c : Cfg} (sh : Shape c) {s : State} (h : Wf1 c s) {t : Nat} {th : Thread}
    (ht : s.thr[t]? = some th) {k : Kont} {o : Ord} {rest : List AStep} {old : Nat}
    (hpc : th.pc = some ⟨k, .simple (.fence o) :: rest, old⟩) (view' : List Nat) :
    Wf1 c { s with thr := s.thr.set t { th with view := view', pc := some ⟨k, norm c.ceil rest old, old⟩ } } := by
  obtain ⟨hok, hside⟩ := h.pcok t th _ ht hpc
  -- the remaining code is local
  have hloc : ∃ r, localRet rest = some r ∧ PcOk c ⟨k, rest, old⟩ := by
    cases k <;> simp only [PcOk, sh.hdecr, sh.hincr, sh.huniq, sh.hget, List.tail] at hok
    · rcases hok with h1 | h1 | h1 | h1
      · simp at h1
      · simp at h1
      · exact ⟨_, by simpa [localRet] using h1, Or.inr (Or.inr (Or.inl (by simpa [localRet] using h1)))⟩
      · exact ⟨_, by simpa [localRet] using h1, Or.inr (Or.inr (Or.inr (by simpa [localRet] using h1)))⟩
    · rcases hok with h1 | h1 | h1
      · simp at h1
      · exact ⟨_, by simpa [localRet] using h1, Or.inr (Or.inl (by simpa [localRet] using h1))⟩
      · exact ⟨_, by simpa [localRet] using h1, Or.inr (Or.inr (by simpa [localRet] using h1))⟩
    · rcases hok with h1 | ⟨b, h1⟩
      · simp at h1
      · exact ⟨_, by simpa [localRet] using h1, Or.inr ⟨b, by simpa [localRet] using h1⟩⟩
    · rcases hok with h1 | ⟨b, h1⟩
      · simp at h1
      · exact ⟨_, by simpa [localRet] using h1, Or.inr ⟨b, by simpa [localRet] using h1⟩⟩
    · rcases hok with h1 | ⟨b, h1⟩
      · simp at h1
      · exact ⟨_, by simpa [localRet] using h1, Or.inr ⟨b, by simpa [localRet] using h1⟩⟩
  obtain ⟨r, hr, hok'⟩ := hloc
  rw [norm_of_localRet c.ceil old hr]
  refine h.upd ht rfl rfl rfl rfl ?_ (Nat.le_refl _) rfl (fun hh => Or.inl hh) ?_ ?_ ?_
  · cases k <;> simp [owned, inflight, hpc, localRet] <;> congr
  · intro he
    left
    cases k <;> simp_all [excl, exclOwn, localRet]
  · intro he he'
    cases k <;> simp_all [excl, localRet]
  · intro pc hp
    simp at hp
    subst hp
    exact ⟨hok', hside.congr rfl (Nat.le_refl _) rfl id⟩

end HipVerif.Model.Conc
