#!/bin/sh
# usage: tools/confirm_mut.sh <worktree> <mN> [extra cargo flags for the demo, e.g. --release]
# DEMO_RUSTFLAGS (env) sets RUSTFLAGS for the demo only (e.g. "--cfg loom").
# DEMO_CMD (env) overrides the demo command (default: cargo test --offline <flags> --test demo_confirm), e.g. for Miri / loom demos.
# Confirms, in the scratch worktree: patch applies; crate builds; baseline tests pass with it;
# demo FAILS with it; demo PASSES without it.  Prints a JSON line.
wt="$1"; m="$2"; shift 2; extra="$*"
cd "$wt" || exit 2
git checkout -q -- . ; rm -f tests/demo_confirm.rs
git apply "out/$m/patch.diff" || { echo "{\"mut\":\"$m\",\"applies\":false}"; exit 1; }
cp "out/$m/demo.rs" tests/demo_confirm.rs
base=$(cargo test --offline --lib --tests --no-fail-fast 2>&1 | grep -E "^test result" | grep -v demo | awk '{f+=$6} END{print f+0}')
suite=$(cargo test --offline --lib 2>&1 | grep -E "^test result" | head -1)
demo="${DEMO_CMD:-cargo test --offline $extra --test demo_confirm}"
if [ -n "$DEMO_RUSTFLAGS" ]; then RUSTFLAGS="$DEMO_RUSTFLAGS" $demo >"$wt/confirm_with.log" 2>&1; with=$?; else $demo >"$wt/confirm_with.log" 2>&1; with=$?; fi
git checkout -q -- .
if [ -n "$DEMO_RUSTFLAGS" ]; then RUSTFLAGS="$DEMO_RUSTFLAGS" $demo >"$wt/confirm_without.log" 2>&1; without=$?; else $demo >"$wt/confirm_without.log" 2>&1; without=$?; fi
rm -f tests/demo_confirm.rs
echo "{\"mut\":\"$m\",\"applies\":true,\"baseline_lib\":\"$suite\",\"demo_with_mutation_rc\":$with,\"demo_without_rc\":$without}"
