#!/usr/bin/env python3
"""Prints the markdown table of seeded changes from seeded/*/meta.json (for DESIGN.md §0.2)."""
import json, glob, os
rows = []
for d in sorted(glob.glob("/verif/seeded/*/meta.json")):
    m = json.load(open(d))
    rows.append(m)
print("| id | needs to manifest | result |")
print("|---|---|---|")
for m in rows:
    needs = m["needs_to_manifest"].replace("|", "\\|")
    res = m["check_result"].replace("|", "\\|")
    print(f"| {m['id']} | {needs} | {res} |")
