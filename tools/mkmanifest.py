#!/usr/bin/env python3
"""Writes /verif/MANIFEST.json from the table below (keeps the manifest consistent and valid)."""
import json, os, sys

ROOT = os.path.dirname(os.path.dirname(os.path.abspath(__file__)))

CLAIMED = {
    "C08": dict(
        technique="Lean 4 theorems over range functions machine-translated from the Rust source (translator) + exhaustive grid differential",
        text="Proof: simplify_range_mono, range_mono and try_range_of are re-translated from /repo/src on every run into Lean (Gen/Ranges.lean) and proved, for ALL bounds up to usize::MAX and all lengths up to isize::MAX, total (no overflow/UB), equivalent to std's checked indexing / slice::range, with errors naming the failing bound; address-membership of try_slice_ref characterised exactly. The wrappers around them (try_slice/slice on HipByt/HipStr, slice_ref, vector drain/extend_from_within) are tied by an exhaustive differential over the property's grid against std and against the generated functions, in debug and release.",
        note="Trusted: Lean kernel; translator (fails closed on unsupported Rust); Spec/Range.lean = std semantics on naturals (validated against real std each run); HipStr char-boundary part is checked differentially here and proved on the Core model (C06).",
        design="DESIGN.md §6 C08",
    ),
    "C10": dict(
        technique="Lean 4 theorems over a two-pass copy model with adversarial (universally quantified) piece lists, instantiated with assertion flags extracted from the source + scripted misbehaving-iterator differential",
        text="Proof: for EVERY pair of piece lists (what the length pass saw, what the copy pass saw) concat and join either panic or return exactly the concatenation / join of the pieces actually copied, never an uninitialised or out-of-buffer byte, in normalised representation; with a consistent iterator they equal std's concat/join. The guards the proof relies on (per-copy <= and final == assertions) are re-extracted from src/bytes.rs on every run (Gen/Concat.lean), so removing one breaks a named theorem. The real functions (HipByt/HipStr x concat/join/concat_slices/join_slices x 3 backends) are driven with scripted misbehaving Clone/Iterator/AsRef implementations and compared with the model and with std, fresh memory filled with 0xFF.",
        note="Trusted: Lean kernel; the translator's template match for the assert!s; the hand-written two-pass model (tied by the differential on ~36k scripted cases per profile); std's concat/join as the oracle. repeat is covered by the Core refinement (C01).",
        design="DESIGN.md §6 C10",
    ),
}

NOT_YET = {
}

PENDING_REASON = "check not built yet in this revision (work in progress, see DESIGN.md §10) — not a claim that the technique cannot apply"

ALL = [f"C{n:02d}" for n in range(1, 18)]


def main():
    checks = []
    for pid in ALL:
        if pid not in CLAIMED:
            continue
        c = CLAIMED[pid]
        checks.append({
            "property_id": pid,
            "quick_cmd": f"./check {pid} --tier quick",
            "thorough_cmd": f"./check {pid} --tier thorough",
            "evidence_file": f"/verif/evidence/{pid}.json",
            "replay_cmd_template": f"./check {pid} --replay {{path}}",
            "engine": "lean4+differential",
            "level_claimed": {"category": "proof", "text": c["text"], "design_ref": c["design"]},
            "level_note": c["note"],
            "technique": c["technique"],
        })
    na = [{"property_id": p, "reason": NOT_YET.get(p, PENDING_REASON)} for p in ALL if p not in CLAIMED]
    hooks_commits = json.load(open(os.path.join(ROOT, "tools", "hook_commits.json")))
    m = {
        "version": 1,
        "setup_cmd": "./setup.sh",
        "hooks": {
            "guard": "--cfg hipstr_verif",
            "enable": "rustflags = [\"--cfg\", \"hipstr_verif\"] in /verif/harness/.cargo/config.toml (the harness crate path-depends on /repo, so every check rebuilds the current working tree with hooks on)",
            "baseline_off_cmd": "cd /repo && cargo test --workspace --no-fail-fast --offline",
            "source_commits": hooks_commits,
            "add_only": True,
        },
        "engines": [
            {"name": "lean4+differential", "path": "/verif/check", "serves_properties": sorted(CLAIMED),
             "kind_free_text": "Lean 4.33 theorems about executable models (lean/HipVerif), tied to /repo by a syn-based translator (harness/src/bin/extract.rs → lean/HipVerif/Gen) and by differential correspondence bins (harness/src/bin/*drive.rs ⇄ compiled Lean drivers ⇄ std oracles)"},
        ],
        "checks": checks,
        "notes": "Every check: rebuild harness against /repo's working tree (hooks on) → regenerate Gen/*.lean → lake build the property's proofs → axiom audit → correspondence run (debug+release) → known-findings → evidence. See DESIGN.md §5.",
        "not_applicable": na,
    }
    json.dump(m, open(os.path.join(ROOT, "MANIFEST.json"), "w"), indent=1)
    print("MANIFEST.json:", len(checks), "checks,", len(na), "not claimed")


if __name__ == "__main__":
    main()
