#!/usr/bin/env python3
"""archive_r2.py <batch log> : archives the round-2 seeded changes /tmp/mut/<Cnn>r2/out/mK as /verif/seeded/<Cnn>-m(K+3)/
with the result parsed from the batch log (which checks flagged it, with/without a concrete input)."""
import json, os, re, shutil, sys
log = open(sys.argv[1]).read()
only = set(sys.argv[2:])
blocks = re.split(r"^#### ", log, flags=re.M)[1:]
for b in blocks:
    head, *rest = b.split("\n")
    retest = None
    rnd = 2
    m = re.match(r"(C\d\d)r(\d) (m\d) -> (.*)", head)
    if not m:
        m2 = re.match(r"RETEST (C\d\d-m\d+) -> (.*)", head)
        retest = m2.group(1)
        prop, mk, checks = retest[:3], None, m2.group(2).split()
        mid = retest
    else:
        prop, rnd, mk, checks = m.group(1), int(m.group(2)), m.group(3), m.group(4).split()
        new = f"m{int(mk[1:]) + 3 * (rnd - 1)}"
        mid = f"{prop}-{new}"
    if only and mid not in only:
        continue
    wt = f"/tmp/mut/{prop}r{rnd if not retest else 2}"
    # per check outcome
    res = {}
    cur = None
    for line in rest:
        mm = re.match(r"== (C\d\d) on", line)
        if mm:
            cur = mm.group(1); res[cur] = {"violations": 0, "concrete": 0, "ok": False, "replays": []}
        elif cur and line.startswith("VIOLATION"):
            res[cur]["violations"] += 1
            if "no-failing-input-found" not in line:
                res[cur]["concrete"] += 1
            res[cur]["replays"].append(re.search(r"replay=(\S+)", line).group(1))
        elif cur and line.rstrip().endswith("OK"):
            res[cur]["ok"] = True
    parts = []
    for c, r in res.items():
        if r["concrete"]:
            ex = ""
            try:
                rp = json.load(open(r["replays"][0]))
                inp = rp.get("input")
                if isinstance(inp, list):
                    inp = "; ".join(str(x) for x in inp[:8])
                ex = f" (e.g. {rp.get('bin')}[{rp.get('profile')}]: {str(inp)[:300]} | expected {str(rp.get('expected'))[:120]} | observed {str(rp.get('observed'))[:120]})"
            except Exception as e:
                pass
            parts.append(f"CAUGHT by {c} with a concrete failing input{ex}")
        elif r["violations"]:
            br = ""
            try:
                rp = json.load(open(r["replays"][0])); br = "; ".join(rp.get("broken", []))[:300]
            except Exception:
                pass
            parts.append(f"DETECTED by {c} without a concrete input ({br})")
        else:
            parts.append(f"NOT flagged by {c}")
    result = " | ".join(parts)
    if retest:
        mp = f"/verif/seeded/{retest}/meta.json"
        meta = json.load(open(mp))
        first = meta["check_result"].split(" || AFTER STRENGTHENING")[0]
        if not first.startswith("INITIALLY"):
            first = "INITIALLY " + first
        meta["check_result"] = first + " || AFTER STRENGTHENING: " + result
        json.dump(meta, open(mp, "w"), indent=1)
        print(retest, "|", meta["check_result"][:300])
        continue
    notes = open(f"{wt}/out/{mk}/notes.md").read()
    mm = re.search(r"^##+ What it needs[^\n]*\n(.*?)(?=^##? )", notes, flags=re.M | re.S)
    needs = re.sub(r"\s+", " ", mm.group(1)).strip()[:700] if mm else notes.split("\n")[0]
    title = notes.split("\n")[0].lstrip("# ").strip()
    dst = f"/verif/seeded/{mid}"
    os.makedirs(dst, exist_ok=True)
    for f in ("patch.diff", "demo.rs", "notes.md"):
        shutil.copy(f"{wt}/out/{mk}/{f}", f"{dst}/{f}")
    confirm = json.load(open(f"{wt}/confirm_{mk}.json"))
    if os.path.exists(f"{wt}/confirm_{mk}.override.json"):
        confirm = json.load(open(f"{wt}/confirm_{mk}.override.json"))
    meta = {
        "property": prop, "id": mid, "round": rnd, "title": title,
        "needs_to_manifest": needs,
        "confirmed": confirm,
        "confirmed_how": "tools/confirm_mut.sh in a scratch git worktree of /repo: patch applies, cargo test --offline --lib passes with it (393 tests; the authoring agent also ran the full suite incl. doctests), the demonstration fails with it and passes without (demo command in notes.md; Miri / loom / --cfg hipstr_verif / --release where the notes say so)",
        "checks_run": f"tools/trymut.sh seeded/{mid}/patch.diff {' '.join(checks)}  (git -C /repo apply; ./check <id>; git -C /repo checkout -- .)",
        "check_result": result,
    }
    json.dump(meta, open(f"{dst}/meta.json", "w"), indent=1)
    print(mid, "|", result[:200])
