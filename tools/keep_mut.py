#!/usr/bin/env python3
"""keep_mut.py <worktree> <property> <mN> <needs> <confirm-json> <check-result>
Archives a confirmed seeded change under /verif/seeded/<property>-<mN>/ (patch.diff, demo.rs, notes.md, meta.json)."""
import json, os, shutil, sys
wt, prop, m, needs, confirm, result = sys.argv[1:7]
dst = f"/verif/seeded/{prop}-{m}"
os.makedirs(dst, exist_ok=True)
for f in ("patch.diff", "demo.rs", "notes.md"):
    if os.path.exists(f"{wt}/out/{m}/{f}"):
        shutil.copy(f"{wt}/out/{m}/{f}", f"{dst}/{f}")
meta = {
    "property": prop,
    "id": f"{prop}-{m}",
    "needs_to_manifest": needs,
    "confirmed": json.loads(confirm),
    "confirmed_how": "tools/confirm_mut.sh in a scratch git worktree of /repo: patch applies, cargo test --offline --lib passes with it (393 tests; the authoring agent also ran the full suite incl. doctests), demo test fails with it (rc 101) and passes without (rc 0)",
    "checks_run": f"tools/trymut.sh seeded/{prop}-{m}/patch.diff {prop}  (git -C /repo apply; ./check {prop}; git -C /repo checkout -- .)",
    "check_result": result,
}
json.dump(meta, open(f"{dst}/meta.json", "w"), indent=1)
print(dst)
