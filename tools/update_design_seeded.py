#!/usr/bin/env python3
"""Replaces the seeded-changes table in DESIGN.md (between the markers) with the current one."""
import subprocess, re
p='/verif/DESIGN.md'
s=open(p).read()
table=subprocess.run(['python3','/verif/tools/seeded_table.py'],capture_output=True,text=True).stdout
block="<!-- seeded-table-begin -->\n"+table+"<!-- seeded-table-end -->"
if "@@SEEDED_TABLE@@" in s:
    s=s.replace("@@SEEDED_TABLE@@",block)
else:
    s=re.sub(r"<!-- seeded-table-begin -->.*?<!-- seeded-table-end -->",lambda m: block,s,flags=re.S)
open(p,'w').write(s)
