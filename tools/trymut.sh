#!/bin/sh
# usage: tools/trymut.sh <patch.diff> <Cnn> [<Cnn>...] : applies the patch to /repo, runs the checks, reverts.
patch="$1"; shift
git -C /repo apply "$patch" || { echo "patch does not apply"; exit 2; }
for p in "$@"; do
  echo "== $p on $patch"
  ./check "$p" 2>&1 | grep -E "VIOLATION|KNOWN|OK$|\[check\]" | head -4
done
git -C /repo checkout -- .
git -C /repo status --short | head -3
# regenerate the generated Lean files from the clean tree again (the checks above left the mutated versions)
harness/target/release/extract >/dev/null 2>&1
# the evidence files written above describe the mutated tree: restore the committed ones
for p in "$@"; do git -C /verif checkout -- "evidence/$p.json" 2>/dev/null; done
