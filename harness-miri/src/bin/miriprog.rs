//! Small multi-threaded programs over the REAL public API of `hipstr::HipByt` (Arc backend),
//! meant to be run under Miri (`cargo +nightly miri run --bin miriprog -- <index>`), which
//! reports data races, use-after-free and other UB on the actual code (C04).
//!
//! All values are heap allocated (64 bytes > inline capacity 23); the handles of one program
//! share one buffer (related by `clone` / `slice`). Each thread owns its handle(s), performs
//! its actions, checks the content IT must observe, and the main thread joins everybody.
//! The "by reference" programs instead share ONE handle between scoped threads (`&HipByt` is
//! usable from several threads since Arc-backed values are `Sync`): the threads `clone` /
//! `slice` through the shared reference while the share count is 1, the situation where a
//! non-atomic "sole owner" shortcut in the increment loses a count.
//!
//! `miriprog list` prints `index<TAB>quick|thorough<TAB>description`, `miriprog <i>` runs one.

use hipstr::HipByt;
use std::thread;

type H = HipByt<'static>;

const N: usize = 64;

fn base() -> H {
    let h = H::from(vec![b'a'; N]);
    assert!(h.is_allocated());
    h
}

fn all(h: &H, len: usize, first: u8, rest: u8) {
    let s = h.as_slice();
    assert_eq!(s.len(), len);
    assert_eq!(s[0], first);
    assert!(s[1..].iter().all(|&b| b == rest));
}

/// read all bytes
fn read(h: &H) -> usize {
    h.as_slice().iter().map(|&b| b as usize).sum()
}

fn t_to_mut(mut h: H) {
    h.to_mut_slice()[0] = b'X';
    all(&h, N, b'X', b'a');
}

fn t_upper(mut h: H) {
    h.make_ascii_uppercase();
    all(&h, N, b'A', b'A');
}

fn t_as_mut(mut h: H) {
    if let Some(s) = h.as_mut_slice() {
        s[0] = b'Y';
        all(&h, N, b'Y', b'a');
    } else {
        all(&h, N, b'a', b'a');
    }
}

fn t_push(mut h: H) {
    h.push_slice(b"aaaa");
    all(&h, N + 4, b'a', b'a');
}

fn t_into_vec(h: H) {
    match h.into_vec() {
        Ok(mut v) => {
            assert_eq!(v.len(), N);
            v[0] = b'Z';
            assert!(v[1..].iter().all(|&b| b == b'a'));
        }
        Err(h) => all(&h, N, b'a', b'a'),
    }
}

fn t_read_drop(h: H) {
    assert_eq!(read(&h), N * b'a' as usize);
    drop(h);
}

fn t_drop(h: H) {
    drop(h);
}

fn t_clone_read(h: H) {
    let c = h.clone();
    drop(h);
    assert_eq!(read(&c), N * b'a' as usize);
}

/// Rounds of the by-reference programs (each round is a fresh buffer: more chances per Miri run
/// for the two increments to overlap).
const ROUNDS: usize = 6;

/// Two scoped threads clone through one shared `&h` (share count 1); the clones are dropped one
/// by one while `h` is read; finally `h` must be the sole owner again: `into_vec` is `Ok`.
fn byref_clone_into_vec() {
    for _ in 0..ROUNDS {
        let h = base();
        let (ca, cb) = thread::scope(|s| {
            let a = s.spawn(|| h.clone());
            let b = s.spawn(|| h.clone());
            (a.join().unwrap(), b.join().unwrap())
        });
        all(&ca, N, b'a', b'a');
        drop(ca);
        assert_eq!(read(&h), N * b'a' as usize);
        all(&cb, N, b'a', b'a');
        drop(cb);
        assert_eq!(read(&h), N * b'a' as usize);
        let mut v = h.into_vec().expect("sole owner after both clones are gone");
        assert_eq!(v.len(), N);
        v[0] = b'Z';
        assert!(v[1..].iter().all(|&b| b == b'a'));
    }
}

/// Same, but one clone stays alive while `h` is written through `to_mut_slice` (which must
/// copy, the buffer being shared): the surviving clone must keep its content.
fn byref_clone_to_mut() {
    for _ in 0..ROUNDS {
        let mut h = base();
        let (ca, cb) = thread::scope(|s| {
            let a = s.spawn(|| h.clone());
            let b = s.spawn(|| h.clone());
            (a.join().unwrap(), b.join().unwrap())
        });
        drop(cb);
        h.to_mut_slice()[0] = b'X';
        all(&h, N, b'X', b'a');
        all(&ca, N, b'a', b'a');
        drop(h);
        all(&ca, N, b'a', b'a');
    }
}

/// The scoped threads clone through `&h`, read and DROP their clone concurrently while the main
/// thread keeps reading `h`; afterwards `h` is the sole owner: `as_mut_slice` is `Some`.
fn byref_clone_drop_in_threads() {
    for _ in 0..ROUNDS {
        let mut h = base();
        thread::scope(|s| {
            for _ in 0..2 {
                s.spawn(|| {
                    let c = h.clone();
                    assert_eq!(read(&c), N * b'a' as usize);
                    drop(c);
                });
            }
            assert_eq!(read(&h), N * b'a' as usize);
        });
        assert_eq!(read(&h), N * b'a' as usize);
        let s = h.as_mut_slice().expect("sole owner after the scope");
        s[0] = b'Y';
        all(&h, N, b'Y', b'a');
    }
}

/// Slices taken through the shared reference (a slice of an allocated value shares the buffer
/// and bumps the same count), then the parent is mutated: the slices must keep their content.
fn byref_slice() {
    for _ in 0..ROUNDS {
        let mut h = base();
        let (sa, sb) = thread::scope(|s| {
            let a = s.spawn(|| h.slice(8..48));
            let b = s.spawn(|| h.slice(0..32));
            (a.join().unwrap(), b.join().unwrap())
        });
        assert!(sa.is_allocated() && sb.is_allocated());
        all(&sa, 40, b'a', b'a');
        drop(sa);
        assert_eq!(read(&h), N * b'a' as usize);
        h.make_ascii_uppercase();
        all(&h, N, b'A', b'A');
        all(&sb, 32, b'a', b'a');
        drop(h);
        all(&sb, 32, b'a', b'a');
    }
}

struct Prog {
    quick: bool,
    desc: &'static str,
    run: fn(),
}

fn par2(a: fn(H), b: fn(H)) {
    let h1 = base();
    let h2 = h1.clone();
    let t1 = thread::spawn(move || a(h1));
    let t2 = thread::spawn(move || b(h2));
    t1.join().unwrap();
    t2.join().unwrap();
}

fn par3(a: fn(H), b: fn(H), c: fn(H)) {
    let h1 = base();
    let h2 = h1.clone();
    let h3 = h1.clone();
    let t1 = thread::spawn(move || a(h1));
    let t2 = thread::spawn(move || b(h2));
    let t3 = thread::spawn(move || c(h3));
    t1.join().unwrap();
    t2.join().unwrap();
    t3.join().unwrap();
}

const PROGS: &[Prog] = &[
    Prog { quick: true, desc: "T1: to_mut_slice()[0]=x || T2: drop", run: || par2(t_to_mut, t_drop) },
    Prog { quick: true, desc: "T1: to_mut_slice()[0]=x || T2: into_vec (write the Vec if Ok)", run: || par2(t_to_mut, t_into_vec) },
    Prog { quick: true, desc: "T1: make_ascii_uppercase || T2: push_slice", run: || par2(t_upper, t_push) },
    Prog { quick: true, desc: "T1: as_mut_slice write-if-Some || T2: read all bytes, drop", run: || par2(t_as_mut, t_read_drop) },
    Prog { quick: false, desc: "T1: to_mut_slice()[0]=x || T2: as_mut_slice write-if-Some", run: || par2(t_to_mut, t_as_mut) },
    Prog { quick: false, desc: "T1: read all bytes, drop || T2: into_vec (write the Vec if Ok)", run: || par2(t_read_drop, t_into_vec) },
    Prog {
        quick: false,
        desc: "handles related by slice: T1: slice(8..48).to_mut_slice()[0]=x || T2: parent push_slice",
        run: || {
            let h = base();
            let s = h.slice(8..48);
            assert!(s.is_allocated());
            let t1 = thread::spawn(move || {
                let mut s = s;
                s.to_mut_slice()[0] = b'X';
                all(&s, 40, b'X', b'a');
            });
            let t2 = thread::spawn(move || t_push(h));
            t1.join().unwrap();
            t2.join().unwrap();
        },
    },
    Prog { quick: false, desc: "T1: clone, drop original, read the clone || T2: drop", run: || par2(t_clone_read, t_drop) },
    Prog { quick: false, desc: "T1: to_mut_slice()[0]=x || T2: drop || T3: read all bytes, drop", run: || par3(t_to_mut, t_drop, t_read_drop) },
    Prog { quick: false, desc: "T1: read, drop || T2: read, drop || T3: into_vec", run: || par3(t_read_drop, t_read_drop, t_into_vec) },
    Prog {
        quick: false,
        desc: "T1: slice(4..60) read, drop || T2: make_ascii_uppercase",
        run: || {
            let h = base();
            let s = h.slice(4..60);
            let t1 = thread::spawn(move || {
                assert_eq!(read(&s), 56 * b'a' as usize);
                drop(s);
            });
            let t2 = thread::spawn(move || t_upper(h));
            t1.join().unwrap();
            t2.join().unwrap();
        },
    },
    Prog { quick: false, desc: "T1: push_slice || T2: push_slice", run: || par2(t_push, t_push) },
    Prog { quick: false, desc: "T1: as_mut_slice write-if-Some || T2: drop || T3: make_ascii_uppercase", run: || par3(t_as_mut, t_drop, t_upper) },
    Prog { quick: true, desc: "T1: read all bytes, drop || T2: as_mut_slice write-if-Some", run: || par2(t_read_drop, t_as_mut) },
    Prog { quick: true, desc: "by reference: scope { T1: (&h).clone() || T2: (&h).clone() }; drop clones one by one reading h; h.into_vec() must be Ok", run: byref_clone_into_vec },
    Prog { quick: true, desc: "by reference: scope { T1,T2: (&h).clone(), read, drop || main: read h }; h.as_mut_slice() must be Some", run: byref_clone_drop_in_threads },
    Prog { quick: false, desc: "by reference: scope { T1: (&h).clone() || T2: (&h).clone() }; drop one; h.to_mut_slice()[0]=x must not touch the other clone", run: byref_clone_to_mut },
    Prog { quick: false, desc: "by reference: scope { T1: (&h).slice(8..48) || T2: (&h).slice(0..32) }; mutate the parent; slices keep their content", run: byref_slice },
];

fn main() {
    let arg = std::env::args().nth(1).unwrap_or_else(|| "list".to_string());
    if arg == "list" {
        for (i, p) in PROGS.iter().enumerate() {
            println!("{i}\t{}\t{}", if p.quick { "quick" } else { "thorough" }, p.desc);
        }
        return;
    }
    let i: usize = arg.parse().expect("program index");
    (PROGS[i].run)();
    println!("ok {i}");
}
