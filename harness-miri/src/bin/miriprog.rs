//! Small multi-threaded programs over the REAL public API of `hipstr::HipByt` (Arc backend),
//! meant to be run under Miri (`cargo +nightly miri run --bin miriprog -- <index>`), which
//! reports data races, use-after-free and other UB on the actual code (C04).
//!
//! All values are heap allocated (64 bytes > inline capacity 23); the handles of one program
//! share one buffer (related by `clone` / `slice`). Each thread owns its handle(s), performs
//! its actions, checks the content IT must observe, and the main thread joins everybody.
//! The "by reference" programs instead share ONE handle between scoped threads (`&HipByt` is
//! usable from several threads since Arc-backed values are `Sync`): the threads `clone` /
//! `slice` through the shared reference while the share count is 1, the situation where a
//! non-atomic "sole owner" shortcut in the increment loses a count.
//!
//! The "co-owner" programs (`co`) cover EVERY `HipByt` operation that can act on a buffer whose
//! co-owner lives/lived in another thread: T2 reads all bytes through its clone and drops it
//! (no other synchronisation), T1 just calls the operation and checks the content it must see.
//! The operations gated by a uniqueness test only take their in-place path when the other thread
//! has finished first, hence both spawn orders.
//!
//! `miriprog list` prints
//! `index<TAB>quick|thorough<TAB>description<TAB>exercised Gen/Protocol functions (comma separated)<TAB>sensitive|-`
//! (`sensitive` = gated by a uniqueness test / count read: run with AND without debug
//! assertions, hipstr's `debug_assert!(is_unique())` re-checks execute an Acquire fence that can
//! mask a missing synchronisation); `miriprog <i>` runs one program.

use hipstr::HipByt;
use std::thread;

type H = HipByt<'static>;

const N: usize = 64;

fn base() -> H {
    let h = H::from(vec![b'a'; N]);
    assert!(h.is_allocated());
    h
}

fn all(h: &H, len: usize, first: u8, rest: u8) {
    let s = h.as_slice();
    assert_eq!(s.len(), len);
    assert_eq!(s[0], first);
    assert!(s[1..].iter().all(|&b| b == rest));
}

/// read all bytes
fn read(h: &H) -> usize {
    h.as_slice().iter().map(|&b| b as usize).sum()
}

fn t_to_mut(mut h: H) {
    h.to_mut_slice()[0] = b'X';
    all(&h, N, b'X', b'a');
}

fn t_upper(mut h: H) {
    h.make_ascii_uppercase();
    all(&h, N, b'A', b'A');
}

fn t_as_mut(mut h: H) {
    if let Some(s) = h.as_mut_slice() {
        s[0] = b'Y';
        all(&h, N, b'Y', b'a');
    } else {
        all(&h, N, b'a', b'a');
    }
}

fn t_push(mut h: H) {
    h.push_slice(b"aaaa");
    all(&h, N + 4, b'a', b'a');
}

fn t_into_vec(h: H) {
    match h.into_vec() {
        Ok(mut v) => {
            assert_eq!(v.len(), N);
            v[0] = b'Z';
            assert!(v[1..].iter().all(|&b| b == b'a'));
        }
        Err(h) => all(&h, N, b'a', b'a'),
    }
}

fn t_read_drop(h: H) {
    assert_eq!(read(&h), N * b'a' as usize);
    drop(h);
}

fn t_drop(h: H) {
    drop(h);
}

fn t_clone_read(h: H) {
    let c = h.clone();
    drop(h);
    assert_eq!(read(&c), N * b'a' as usize);
}

/// Rounds of the by-reference programs (each round is a fresh buffer: more chances per Miri run
/// for the two increments to overlap).
const ROUNDS: usize = 6;

/// Two scoped threads clone through one shared `&h` (share count 1); the clones are dropped one
/// by one while `h` is read; finally `h` must be the sole owner again: `into_vec` is `Ok`.
fn byref_clone_into_vec() {
    for _ in 0..ROUNDS {
        let h = base();
        let (ca, cb) = thread::scope(|s| {
            let a = s.spawn(|| h.clone());
            let b = s.spawn(|| h.clone());
            (a.join().unwrap(), b.join().unwrap())
        });
        all(&ca, N, b'a', b'a');
        drop(ca);
        assert_eq!(read(&h), N * b'a' as usize);
        all(&cb, N, b'a', b'a');
        drop(cb);
        assert_eq!(read(&h), N * b'a' as usize);
        let mut v = h.into_vec().expect("sole owner after both clones are gone");
        assert_eq!(v.len(), N);
        v[0] = b'Z';
        assert!(v[1..].iter().all(|&b| b == b'a'));
    }
}

/// Same, but one clone stays alive while `h` is written through `to_mut_slice` (which must
/// copy, the buffer being shared): the surviving clone must keep its content.
fn byref_clone_to_mut() {
    for _ in 0..ROUNDS {
        let mut h = base();
        let (ca, cb) = thread::scope(|s| {
            let a = s.spawn(|| h.clone());
            let b = s.spawn(|| h.clone());
            (a.join().unwrap(), b.join().unwrap())
        });
        drop(cb);
        h.to_mut_slice()[0] = b'X';
        all(&h, N, b'X', b'a');
        all(&ca, N, b'a', b'a');
        drop(h);
        all(&ca, N, b'a', b'a');
    }
}

/// The scoped threads clone through `&h`, read and DROP their clone concurrently while the main
/// thread keeps reading `h`; afterwards `h` is the sole owner: `as_mut_slice` is `Some`.
fn byref_clone_drop_in_threads() {
    for _ in 0..ROUNDS {
        let mut h = base();
        thread::scope(|s| {
            for _ in 0..2 {
                s.spawn(|| {
                    let c = h.clone();
                    assert_eq!(read(&c), N * b'a' as usize);
                    drop(c);
                });
            }
            assert_eq!(read(&h), N * b'a' as usize);
        });
        assert_eq!(read(&h), N * b'a' as usize);
        let s = h.as_mut_slice().expect("sole owner after the scope");
        s[0] = b'Y';
        all(&h, N, b'Y', b'a');
    }
}

/// Slices taken through the shared reference (a slice of an allocated value shares the buffer
/// and bumps the same count), then the parent is mutated: the slices must keep their content.
fn byref_slice() {
    for _ in 0..ROUNDS {
        let mut h = base();
        let (sa, sb) = thread::scope(|s| {
            let a = s.spawn(|| h.slice(8..48));
            let b = s.spawn(|| h.slice(0..32));
            (a.join().unwrap(), b.join().unwrap())
        });
        assert!(sa.is_allocated() && sb.is_allocated());
        all(&sa, 40, b'a', b'a');
        drop(sa);
        assert_eq!(read(&h), N * b'a' as usize);
        h.make_ascii_uppercase();
        all(&h, N, b'A', b'A');
        all(&sb, 32, b'a', b'a');
        drop(h);
        all(&sb, 32, b'a', b'a');
    }
}

// ---------------------------------------------------------------------------------------------
// co-owner programs: T2 reads all bytes and drops its clone || T1 calls one operation
// ---------------------------------------------------------------------------------------------

const CAP: usize = 256;

/// 64 bytes in a 256-byte vector: spare capacity, so that the in-place paths of `push_slice`,
/// `spare_capacity_mut`, `shrink_to*` have something to do.
fn base_spare() -> H {
    let mut v = Vec::with_capacity(CAP);
    v.extend_from_slice(&[b'a'; N]);
    let h = H::from(v);
    assert!(h.is_allocated());
    assert!(h.capacity() >= CAP);
    h
}

/// Rounds of a co-owner program (a fresh buffer each round).
const CO_ROUNDS: usize = 3;

/// `op_first`: spawn the thread running `op` first (Miri's scheduler tends to run the
/// first-spawned thread first; the uniqueness-gated in-place paths need the reader to be done).
fn co(op: fn(H), spare: bool, op_first: bool) {
    for _ in 0..CO_ROUNDS {
        let h1 = if spare { base_spare() } else { base() };
        let h2 = h1.clone();
        let (t1, t2);
        if op_first {
            t1 = thread::spawn(move || op(h1));
            t2 = thread::spawn(move || t_read_drop(h2));
        } else {
            t2 = thread::spawn(move || t_read_drop(h2));
            t1 = thread::spawn(move || op(h1));
        }
        t1.join().unwrap();
        t2.join().unwrap();
    }
}

fn t_mutate(mut h: H) {
    {
        let mut r = h.mutate();
        r[0] = b'M';
        r.push(b'!');
    }
    assert_eq!(h.len(), N + 1);
    let s = h.as_slice();
    assert_eq!(s[0], b'M');
    assert!(s[1..N].iter().all(|&b| b == b'a'));
    assert_eq!(s[N], b'!');
}

fn t_spare(mut h: H) {
    let len = h.len();
    let spare = h.spare_capacity_mut();
    if spare.is_empty() {
        // still shared (or no room): nothing may have changed
        all(&h, N, b'a', b'a');
    } else {
        spare[0].write(b'S');
        // SAFETY: byte `len` has just been initialised; a non-empty spare slice is only handed
        // out to the sole owner
        unsafe { h.set_len(len + 1) };
        assert_eq!(h.len(), N + 1);
        assert!(h.as_slice()[..N].iter().all(|&b| b == b'a'));
        assert_eq!(h.as_slice()[N], b'S');
    }
}

fn t_shrink_fit(mut h: H) {
    h.shrink_to_fit();
    all(&h, N, b'a', b'a');
    assert!(h.capacity() >= N);
    // the (possibly new) buffer must be writable by its sole owner afterwards
    h.to_mut_slice()[0] = b'F';
    all(&h, N, b'F', b'a');
}

fn t_shrink_to(mut h: H) {
    h.shrink_to(100);
    all(&h, N, b'a', b'a');
    assert!(h.capacity() >= 100);
    h.push_slice(b"aa");
    all(&h, N + 2, b'a', b'a');
}

fn t_truncate(mut h: H) {
    h.truncate(40);
    all(&h, 40, b'a', b'a');
    assert!(h.is_allocated());
    h.push_slice(b"aaaa");
    all(&h, 44, b'a', b'a');
}

fn t_truncate_inline(mut h: H) {
    h.truncate(10);
    all(&h, 10, b'a', b'a');
    assert!(h.is_inline());
}

fn t_clone(h: H) {
    let c = h.clone();
    assert_eq!(read(&c), N * b'a' as usize);
    drop(h);
    all(&c, N, b'a', b'a');
}

fn t_slice(h: H) {
    let s = h.slice(8..48);
    assert!(s.is_allocated());
    drop(h);
    all(&s, 40, b'a', b'a');
}

fn t_upper_spare(mut h: H) {
    h.make_ascii_uppercase();
    all(&h, N, b'A', b'A');
}

/// By reference, then an owner operation after the scope: the borrowers clone / slice / read
/// through `&h` and drop what they made inside their threads.
fn byref_then(op: fn(H), spare: bool) {
    for _ in 0..ROUNDS {
        let h = if spare { base_spare() } else { base() };
        thread::scope(|s| {
            s.spawn(|| {
                let c = h.clone();
                assert_eq!(read(&c), N * b'a' as usize);
            });
            s.spawn(|| {
                let c = h.slice(8..48);
                assert_eq!(read(&c), 40 * b'a' as usize);
            });
            s.spawn(|| assert_eq!(read(&h), N * b'a' as usize));
        });
        op(h);
    }
}

struct Prog {
    quick: bool,
    /// gated by a uniqueness test / a read of the share count
    sensitive: bool,
    desc: &'static str,
    /// the functions of Gen/Protocol (names as printed by `conc_driver protocol`) it exercises
    fns: &'static [&'static str],
    run: fn(),
}

// names of Gen/Protocol
const MAKE_UNIQUE: &str = "HipByt::make_unique [Tag::Allocated]";
const TAKE_VEC: &str = "HipByt::take_vec";
const DROP: &str = "HipByt as Drop::drop";
const CLONE: &str = "Allocated::explicit_clone";
const SLICE: &str = "Allocated::slice_unchecked";
const XDROP: &str = "Allocated::explicit_drop";
const INTO_VEC: &str = "Allocated::try_into_vec";
const AS_MUT: &str = "Allocated::as_mut_slice";
const SPARE: &str = "Allocated::spare_capacity_mut";
const PUSH_UNCHECKED: &str = "Allocated::push_slice_unchecked";
const A_SHRINK: &str = "Allocated::shrink_to";
const PUSH: &str = "HipByt::push_slice";
const TRUNCATE: &str = "HipByt::truncate";
const H_SHRINK: &str = "HipByt::shrink_to";

fn par2(a: fn(H), b: fn(H)) {
    let h1 = base();
    let h2 = h1.clone();
    let t1 = thread::spawn(move || a(h1));
    let t2 = thread::spawn(move || b(h2));
    t1.join().unwrap();
    t2.join().unwrap();
}

fn par3(a: fn(H), b: fn(H), c: fn(H)) {
    let h1 = base();
    let h2 = h1.clone();
    let h3 = h1.clone();
    let t1 = thread::spawn(move || a(h1));
    let t2 = thread::spawn(move || b(h2));
    let t3 = thread::spawn(move || c(h3));
    t1.join().unwrap();
    t2.join().unwrap();
    t3.join().unwrap();
}

const PROGS: &[Prog] = &[
    // 0..13: two/three owning threads
    Prog { quick: true, sensitive: true, desc: "T1: to_mut_slice()[0]=x || T2: drop", fns: &[MAKE_UNIQUE, XDROP, DROP, CLONE], run: || par2(t_to_mut, t_drop) },
    Prog { quick: true, sensitive: true, desc: "T1: to_mut_slice()[0]=x || T2: into_vec (write the Vec if Ok)", fns: &[MAKE_UNIQUE, INTO_VEC], run: || par2(t_to_mut, t_into_vec) },
    Prog { quick: true, sensitive: true, desc: "T1: make_ascii_uppercase || T2: push_slice", fns: &[MAKE_UNIQUE, PUSH], run: || par2(t_upper, t_push) },
    Prog { quick: true, sensitive: true, desc: "T1: as_mut_slice write-if-Some || T2: read all bytes, drop", fns: &[AS_MUT, DROP, XDROP], run: || par2(t_as_mut, t_read_drop) },
    Prog { quick: false, sensitive: true, desc: "T1: to_mut_slice()[0]=x || T2: as_mut_slice write-if-Some", fns: &[MAKE_UNIQUE, AS_MUT], run: || par2(t_to_mut, t_as_mut) },
    Prog { quick: false, sensitive: true, desc: "T1: read all bytes, drop || T2: into_vec (write the Vec if Ok)", fns: &[INTO_VEC, DROP, XDROP], run: || par2(t_read_drop, t_into_vec) },
    Prog {
        quick: false,
        sensitive: true,
        desc: "handles related by slice: T1: slice(8..48).to_mut_slice()[0]=x || T2: parent push_slice",
        fns: &[SLICE, MAKE_UNIQUE, PUSH],
        run: || {
            let h = base();
            let s = h.slice(8..48);
            assert!(s.is_allocated());
            let t1 = thread::spawn(move || {
                let mut s = s;
                s.to_mut_slice()[0] = b'X';
                all(&s, 40, b'X', b'a');
            });
            let t2 = thread::spawn(move || t_push(h));
            t1.join().unwrap();
            t2.join().unwrap();
        },
    },
    Prog { quick: false, sensitive: false, desc: "T1: clone, drop original, read the clone || T2: drop", fns: &[CLONE, DROP, XDROP], run: || par2(t_clone_read, t_drop) },
    Prog { quick: false, sensitive: true, desc: "T1: to_mut_slice()[0]=x || T2: drop || T3: read all bytes, drop", fns: &[MAKE_UNIQUE, DROP, XDROP], run: || par3(t_to_mut, t_drop, t_read_drop) },
    Prog { quick: false, sensitive: true, desc: "T1: read, drop || T2: read, drop || T3: into_vec", fns: &[INTO_VEC, DROP, XDROP], run: || par3(t_read_drop, t_read_drop, t_into_vec) },
    Prog {
        quick: false,
        sensitive: true,
        desc: "T1: slice(4..60) read, drop || T2: make_ascii_uppercase",
        fns: &[SLICE, MAKE_UNIQUE, DROP, XDROP],
        run: || {
            let h = base();
            let s = h.slice(4..60);
            let t1 = thread::spawn(move || {
                assert_eq!(read(&s), 56 * b'a' as usize);
                drop(s);
            });
            let t2 = thread::spawn(move || t_upper(h));
            t1.join().unwrap();
            t2.join().unwrap();
        },
    },
    Prog { quick: false, sensitive: true, desc: "T1: push_slice || T2: push_slice", fns: &[PUSH], run: || par2(t_push, t_push) },
    Prog { quick: false, sensitive: true, desc: "T1: as_mut_slice write-if-Some || T2: drop || T3: make_ascii_uppercase", fns: &[AS_MUT, MAKE_UNIQUE, DROP, XDROP], run: || par3(t_as_mut, t_drop, t_upper) },
    Prog { quick: true, sensitive: true, desc: "T1: read all bytes, drop || T2: as_mut_slice write-if-Some", fns: &[AS_MUT, DROP, XDROP], run: || par2(t_read_drop, t_as_mut) },
    // 14..17: by reference
    Prog { quick: true, sensitive: true, desc: "by reference: scope { T1: (&h).clone() || T2: (&h).clone() }; drop clones one by one reading h; h.into_vec() must be Ok", fns: &[CLONE, INTO_VEC, DROP, XDROP], run: byref_clone_into_vec },
    Prog { quick: true, sensitive: true, desc: "by reference: scope { T1,T2: (&h).clone(), read, drop || main: read h }; h.as_mut_slice() must be Some", fns: &[CLONE, AS_MUT, DROP, XDROP], run: byref_clone_drop_in_threads },
    Prog { quick: false, sensitive: true, desc: "by reference: scope { T1: (&h).clone() || T2: (&h).clone() }; drop one; h.to_mut_slice()[0]=x must not touch the other clone", fns: &[CLONE, MAKE_UNIQUE, XDROP], run: byref_clone_to_mut },
    Prog { quick: false, sensitive: true, desc: "by reference: scope { T1: (&h).slice(8..48) || T2: (&h).slice(0..32) }; mutate the parent; slices keep their content", fns: &[SLICE, MAKE_UNIQUE, XDROP], run: byref_slice },
    // 18..: co-owner programs, reader spawned FIRST: "T2: read all bytes, drop its clone || T1: <op>"
    Prog { quick: false, sensitive: true, desc: "co-owner: T2: read all, drop || T1: to_mut_slice()[0]=x", fns: &[MAKE_UNIQUE, DROP, XDROP, CLONE], run: || co(t_to_mut, false, false) },
    Prog { quick: false, sensitive: true, desc: "co-owner: T2: read all, drop || T1: make_ascii_uppercase (spare capacity)", fns: &[MAKE_UNIQUE, DROP, XDROP], run: || co(t_upper_spare, true, false) },
    Prog { quick: true, sensitive: true, desc: "co-owner: T2: read all, drop || T1: into_vec (write the Vec if Ok)", fns: &[INTO_VEC, DROP, XDROP], run: || co(t_into_vec, false, false) },
    Prog { quick: true, sensitive: true, desc: "co-owner: T2: read all, drop || T1: mutate() (RefMut: write, push, drop it)", fns: &[TAKE_VEC, INTO_VEC, DROP, XDROP], run: || co(t_mutate, false, false) },
    Prog { quick: true, sensitive: true, desc: "co-owner: T2: read all, drop || T1: push_slice (spare capacity: in place when unique)", fns: &[PUSH, PUSH_UNCHECKED, DROP, XDROP], run: || co(t_push, true, false) },
    Prog { quick: true, sensitive: true, desc: "co-owner: T2: read all, drop || T1: spare_capacity_mut, write one byte, set_len (spare capacity)", fns: &[SPARE, DROP, XDROP], run: || co(t_spare, true, false) },
    Prog { quick: true, sensitive: true, desc: "co-owner: T2: read all, drop || T1: shrink_to_fit, then write (spare capacity)", fns: &[H_SHRINK, A_SHRINK, MAKE_UNIQUE, XDROP, DROP], run: || co(t_shrink_fit, true, false) },
    Prog { quick: true, sensitive: true, desc: "co-owner: T2: read all, drop || T1: shrink_to(100), then push_slice (spare capacity)", fns: &[H_SHRINK, A_SHRINK, PUSH, XDROP, DROP], run: || co(t_shrink_to, true, false) },
    Prog { quick: false, sensitive: false, desc: "co-owner: T2: read all, drop || T1: truncate(40), then push_slice", fns: &[TRUNCATE, PUSH, DROP, XDROP], run: || co(t_truncate, false, false) },
    Prog { quick: false, sensitive: false, desc: "co-owner: T2: read all, drop || T1: truncate(10) (becomes inline)", fns: &[TRUNCATE, DROP, XDROP], run: || co(t_truncate_inline, false, false) },
    Prog { quick: false, sensitive: true, desc: "co-owner: T2: read all, drop || T1: as_mut_slice write-if-Some", fns: &[AS_MUT, DROP, XDROP], run: || co(t_as_mut, false, false) },
    Prog { quick: false, sensitive: false, desc: "co-owner: T2: read all, drop || T1: clone, read, drop original", fns: &[CLONE, DROP, XDROP], run: || co(t_clone, false, false) },
    Prog { quick: false, sensitive: false, desc: "co-owner: T2: read all, drop || T1: slice(8..48), drop original, read the slice", fns: &[SLICE, DROP, XDROP], run: || co(t_slice, false, false) },
    Prog { quick: false, sensitive: false, desc: "co-owner: T2: read all, drop || T1: drop", fns: &[DROP, XDROP], run: || co(t_drop, false, false) },
    // the uniqueness-gated ones again with the operation thread spawned FIRST
    Prog { quick: false, sensitive: true, desc: "co-owner, op spawned first: T1: to_mut_slice()[0]=x || T2: read all, drop", fns: &[MAKE_UNIQUE, DROP, XDROP], run: || co(t_to_mut, false, true) },
    Prog { quick: false, sensitive: true, desc: "co-owner, op spawned first: T1: into_vec || T2: read all, drop", fns: &[INTO_VEC, DROP, XDROP], run: || co(t_into_vec, false, true) },
    Prog { quick: false, sensitive: true, desc: "co-owner, op spawned first: T1: mutate() || T2: read all, drop", fns: &[TAKE_VEC, INTO_VEC, DROP, XDROP], run: || co(t_mutate, false, true) },
    Prog { quick: false, sensitive: true, desc: "co-owner, op spawned first: T1: push_slice (spare capacity) || T2: read all, drop", fns: &[PUSH, PUSH_UNCHECKED, DROP, XDROP], run: || co(t_push, true, true) },
    Prog { quick: false, sensitive: true, desc: "co-owner, op spawned first: T1: spare_capacity_mut + set_len (spare capacity) || T2: read all, drop", fns: &[SPARE, DROP, XDROP], run: || co(t_spare, true, true) },
    Prog { quick: false, sensitive: true, desc: "co-owner, op spawned first: T1: shrink_to_fit (spare capacity) || T2: read all, drop", fns: &[H_SHRINK, A_SHRINK, MAKE_UNIQUE, XDROP, DROP], run: || co(t_shrink_fit, true, true) },
    Prog { quick: false, sensitive: true, desc: "co-owner, op spawned first: T1: shrink_to(100) (spare capacity) || T2: read all, drop", fns: &[H_SHRINK, A_SHRINK, PUSH, XDROP, DROP], run: || co(t_shrink_to, true, true) },
    Prog { quick: false, sensitive: true, desc: "co-owner, op spawned first: T1: as_mut_slice write-if-Some || T2: read all, drop", fns: &[AS_MUT, DROP, XDROP], run: || co(t_as_mut, false, true) },
    // by reference, then an owner operation
    Prog { quick: false, sensitive: true, desc: "by reference: scope { (&h).clone() read || (&h).slice(8..48) read || read h }; h.shrink_to_fit(), write (spare capacity)", fns: &[CLONE, SLICE, H_SHRINK, A_SHRINK, MAKE_UNIQUE, DROP, XDROP], run: || byref_then(t_shrink_fit, true) },
    Prog { quick: false, sensitive: true, desc: "by reference: scope { (&h).clone() read || (&h).slice(8..48) read || read h }; h.push_slice (spare capacity)", fns: &[CLONE, SLICE, PUSH, PUSH_UNCHECKED, DROP, XDROP], run: || byref_then(t_push, true) },
    Prog { quick: false, sensitive: true, desc: "by reference: scope { (&h).clone() read || (&h).slice(8..48) read || read h }; h.into_vec()", fns: &[CLONE, SLICE, INTO_VEC, DROP, XDROP], run: || byref_then(t_into_vec, false) },
    Prog { quick: false, sensitive: true, desc: "by reference: scope { (&h).clone() read || (&h).slice(8..48) read || read h }; h.mutate()", fns: &[CLONE, SLICE, TAKE_VEC, INTO_VEC, DROP, XDROP], run: || byref_then(t_mutate, false) },
];

fn main() {
    let arg = std::env::args().nth(1).unwrap_or_else(|| "list".to_string());
    if arg == "list" {
        for (i, p) in PROGS.iter().enumerate() {
            println!(
                "{i}\t{}\t{}\t{}\t{}",
                if p.quick { "quick" } else { "thorough" },
                p.desc,
                p.fns.join(","),
                if p.sensitive { "sensitive" } else { "-" }
            );
        }
        return;
    }
    let i: usize = arg.parse().expect("program index");
    (PROGS[i].run)();
    println!("ok {i}");
}
