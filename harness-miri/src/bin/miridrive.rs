//! `miridrive`: runs the programs of `miriprog` (real `hipstr::HipByt`, Arc backend, real
//! threads) under Miri with several scheduler seeds and reports every Miri finding (data race,
//! use after free, other UB, failed content assertion) as a disagreement of kind "monitor".
//!
//! `miridrive --tier quick|thorough --seed <u64> --out <stats.json>
//!            [--crate-dir <dir>] [--jobs <n>] [--seeds <n>] [--program <i>] [--verbose]`
//! quick: the programs marked `quick` (make_unique / as_mut_slice / into_vec races, and two
//! by-reference programs: scoped threads cloning through one shared `&HipByt`) x 4 seeds;
//! thorough: all programs x 32 seeds. Miri seeds are `seed*1000 .. seed*1000 + n`.
//! Every run is `cargo +nightly miri run --offline --bin miriprog -- <i>` in the crate
//! directory with `MIRIFLAGS="-Zmiri-permissive-provenance -Zmiri-seed=<n>"` (plus
//! `$MIRI_EXTRA_FLAGS`). No Lean driver is involved. Exit 0 = no finding, 1 = finding(s),
//! 2 = internal error (Miri missing, build failure, …).

use std::collections::BTreeMap;
use std::process::Command;
use std::sync::{Arc, Mutex};
use std::time::Instant;

fn esc(s: &str) -> String {
    let mut o = String::new();
    for c in s.chars() {
        match c {
            '"' => o.push_str("\\\""),
            '\\' => o.push_str("\\\\"),
            '\n' => o.push_str("\\n"),
            '\t' => o.push_str("\\t"),
            c if (c as u32) < 0x20 => o.push_str(&format!("\\u{:04x}", c as u32)),
            c => o.push(c),
        }
    }
    o
}

struct Run {
    prog: usize,
    seed: u64,
    /// `None` = ok, else (monitor kind, first error lines)
    finding: Option<(String, String)>,
    ms: u128,
}

fn miri(dir: &str, flags: &str, arg: &str) -> std::io::Result<(bool, String, String)> {
    let out = Command::new("cargo")
        .args(["+nightly", "miri", "run", "--offline", "--quiet", "--bin", "miriprog", "--", arg])
        .current_dir(dir)
        .env("MIRIFLAGS", flags)
        .output()?;
    Ok((
        out.status.success(),
        String::from_utf8_lossy(&out.stdout).to_string(),
        String::from_utf8_lossy(&out.stderr).to_string(),
    ))
}

fn classify(stderr: &str) -> (String, String) {
    let lines: Vec<&str> = stderr
        .lines()
        .filter(|l| !l.starts_with("warning") && !l.trim().is_empty())
        .collect();
    let first = lines
        .iter()
        .position(|l| l.starts_with("error") || l.contains("panicked at"))
        .unwrap_or(0);
    let msg: Vec<&str> = lines.iter().skip(first).take(3).cloned().collect();
    let text = msg.join(" | ");
    let kind = if text.contains("Data race") {
        "race"
    } else if text.contains("use-after-free") || text.contains("dangling") || text.contains("has been freed") {
        "use-after-free"
    } else if text.contains("Undefined Behavior") {
        "ub"
    } else if text.contains("panicked") {
        "content"
    } else {
        "error"
    };
    (kind.to_string(), text)
}

fn main() {
    let mut tier = "quick".to_string();
    let mut seed: u64 = 1;
    let mut out: Option<String> = None;
    let mut dir = env!("CARGO_MANIFEST_DIR").to_string();
    let mut jobs: usize = 4;
    let mut nseeds: Option<u64> = None;
    let mut only: Option<usize> = None;
    let mut verbose = false;
    let mut args = std::env::args().skip(1);
    while let Some(a) = args.next() {
        let mut val = || args.next().unwrap_or_else(|| { eprintln!("missing value for {a}"); std::process::exit(2) });
        match a.as_str() {
            "--tier" => tier = val(),
            "--seed" => seed = val().parse().unwrap_or(1),
            "--out" => out = Some(val()),
            "--crate-dir" => dir = val(),
            "--jobs" => jobs = val().parse().unwrap_or(4).max(1),
            "--seeds" => nseeds = val().parse().ok(),
            "--program" => only = val().parse().ok(),
            "--lean" | "--replay" => { let _ = val(); }
            "--verbose" => verbose = true,
            other => { eprintln!("unknown argument {other}"); std::process::exit(2) }
        }
    }
    let nseeds = nseeds.unwrap_or(if tier == "thorough" { 32 } else { 4 });
    let extra = std::env::var("MIRI_EXTRA_FLAGS").unwrap_or_default();
    let base_flags = format!("-Zmiri-permissive-provenance {extra}");
    let t0 = Instant::now();

    let version = Command::new("cargo").args(["+nightly", "miri", "--version"]).output()
        .map(|o| String::from_utf8_lossy(&o.stdout).trim().to_string()).unwrap_or_default();
    if version.is_empty() {
        eprintln!("miridrive: `cargo +nightly miri` is not available");
        std::process::exit(2);
    }
    // builds miriprog for Miri (cold cost) and gives the program list
    let (ok, list, err) = match miri(&dir, &base_flags, "list") {
        Ok(r) => r,
        Err(e) => { eprintln!("miridrive: cannot run cargo: {e}"); std::process::exit(2) }
    };
    let build_ms = t0.elapsed().as_millis();
    if !ok {
        eprintln!("miridrive: building/listing miriprog under Miri failed:\n{err}");
        std::process::exit(2);
    }
    let progs: Vec<(usize, bool, String)> = list.lines().filter_map(|l| {
        let mut it = l.splitn(3, '\t');
        Some((it.next()?.parse().ok()?, it.next()? == "quick", it.next()?.to_string()))
    }).collect();
    let selected: Vec<&(usize, bool, String)> = progs.iter()
        .filter(|p| match only { Some(i) => p.0 == i, None => tier == "thorough" || p.1 })
        .collect();
    if selected.is_empty() {
        eprintln!("miridrive: no program selected");
        std::process::exit(2);
    }
    let mut queue: Vec<(usize, u64)> = vec![];
    for p in &selected {
        for k in 0..nseeds {
            queue.push((p.0, seed * 1000 + k));
        }
    }
    queue.reverse();
    let queue = Arc::new(Mutex::new(queue));
    let results: Arc<Mutex<Vec<Run>>> = Arc::new(Mutex::new(vec![]));
    let mut workers = vec![];
    for _ in 0..jobs {
        let (queue, results, dir, base_flags) = (queue.clone(), results.clone(), dir.clone(), base_flags.clone());
        workers.push(std::thread::spawn(move || loop {
            let Some((prog, s)) = queue.lock().unwrap().pop() else { break };
            let t = Instant::now();
            let flags = format!("{base_flags} -Zmiri-seed={s}");
            let finding = match miri(&dir, &flags, &prog.to_string()) {
                Ok((true, stdout, _)) if stdout.contains(&format!("ok {prog}")) => None,
                Ok((_, _, stderr)) => Some(classify(&stderr)),
                Err(e) => Some(("error".to_string(), format!("cannot run cargo: {e}"))),
            };
            results.lock().unwrap().push(Run { prog, seed: s, finding, ms: t.elapsed().as_millis() });
        }));
    }
    for w in workers {
        let _ = w.join();
    }
    let mut results = std::mem::take(&mut *results.lock().unwrap());
    results.sort_by_key(|r| (r.prog, r.seed));

    let mut dist: BTreeMap<String, usize> = BTreeMap::new();
    let mut internal = false;
    let mut disagreements = vec![];
    let mut samples = vec![];
    for p in &selected {
        let runs: Vec<&Run> = results.iter().filter(|r| r.prog == p.0).collect();
        let hits: Vec<&&Run> = runs.iter().filter(|r| r.finding.is_some()).collect();
        for r in &runs {
            let k = r.finding.as_ref().map_or("ok".to_string(), |f| f.0.clone());
            *dist.entry(k).or_default() += 1;
        }
        samples.push(format!(
            "{{\"program\":{},\"description\":\"{}\",\"runs\":{},\"findings\":{},\"mean_ms\":{}}}",
            p.0, esc(&p.2), runs.len(), hits.len(),
            runs.iter().map(|r| r.ms).sum::<u128>() / runs.len().max(1) as u128
        ));
        if let Some(first) = hits.first() {
            let (kind, text) = first.finding.clone().unwrap();
            if kind == "error" {
                internal = true;
            }
            let seeds: Vec<String> = hits.iter().map(|r| r.seed.to_string()).collect();
            let kinds: Vec<String> = {
                let mut m: BTreeMap<String, usize> = BTreeMap::new();
                for r in &hits { *m.entry(r.finding.as_ref().unwrap().0.clone()).or_default() += 1; }
                m.into_iter().map(|(k, n)| format!("\"{k}\":{n}")).collect()
            };
            eprintln!("miridrive: MONITOR {kind} on program {} `{}`: {}/{} seeds hit (first seed {}): {}",
                p.0, p.2, hits.len(), runs.len(), first.seed, text);
            disagreements.push(format!(
                "{{\"kind\":\"monitor\",\"monitor\":\"{}\",\"input\":[\"miriprog {}: {}\"],\"expected\":\"no data race, use after free or other undefined behaviour, and every handle reads its expected content, under every schedule\",\"observed\":\"{}\",\"profile\":\"miri\",\"program\":{},\"seeds_hit\":[{}],\"hit\":{},\"runs\":{},\"kinds\":{{{}}},\"replay\":\"cd {} && MIRIFLAGS='{} -Zmiri-seed={}' cargo +nightly miri run --offline --bin miriprog -- {}\"}}",
                kind, p.0, esc(&p.2), esc(&text), p.0, seeds.join(","), hits.len(), runs.len(),
                kinds.join(","), esc(&dir), esc(base_flags.trim()), first.seed, p.0
            ));
        } else if verbose {
            eprintln!("miridrive: program {} `{}`: {} seeds ok", p.0, p.2, runs.len());
        }
    }
    let total_ms = t0.elapsed().as_millis();
    let dist_s: Vec<String> = dist.iter().map(|(k, n)| format!("\"{k}\":{n}")).collect();
    let json = format!(
        "{{\"evaluations\":{},\"distinct_nontrivial\":{},\"rule\":\"Miri (data-race detector, borrow tracker, allocation tracker) reports nothing and every content assertion holds, for every program and scheduler seed\",\"exhaustive\":false,\"distribution\":{{{}}},\"samples\":[{}],\"disagreements\":[{}],\"tier\":\"{}\",\"seed\":{},\"seeds_per_program\":{},\"programs\":{},\"miri_version\":\"{}\",\"miriflags\":\"{}\",\"build_and_list_ms\":{},\"runtime_ms\":{},\"jobs\":{}}}\n",
        results.len(), selected.len(), dist_s.join(","), samples.join(","), disagreements.join(","),
        esc(&tier), seed, nseeds, selected.len(), esc(&version), esc(base_flags.trim()), build_ms, total_ms, jobs
    );
    if let Some(o) = &out {
        if let Err(e) = std::fs::write(o, &json) {
            eprintln!("miridrive: cannot write {o}: {e}");
            std::process::exit(2);
        }
    } else {
        print!("{json}");
    }
    eprintln!("miridrive: {} programs x {} seeds = {} Miri runs, {} program(s) with findings, build+list {} ms, total {} ms",
        selected.len(), nseeds, results.len(), disagreements.len(), build_ms, total_ms);
    std::process::exit(if internal { 2 } else if disagreements.is_empty() { 0 } else { 1 });
}
