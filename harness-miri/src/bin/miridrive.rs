//! `miridrive`: runs the programs of `miriprog` (real `hipstr::HipByt`, Arc backend, real
//! threads) under Miri with several scheduler seeds and reports every Miri finding (data race,
//! use after free, other UB, failed content assertion) as a disagreement of kind "monitor".
//!
//! `miridrive --tier quick|thorough --seed <u64> --out <stats.json> [--lean <conc_driver>]
//!            [--profiles debug,nodebug] [--crate-dir <dir>] [--jobs <n>] [--seeds <n>]
//!            [--program <i>] [--verbose]`
//!
//! * Two Miri PROFILES: `debug` = `cargo miri run` (dev profile, debug assertions ON),
//!   `nodebug` = `cargo miri run --release` (debug assertions OFF, the code that ships;
//!   hipstr's `debug_assert!(is_unique())` re-checks execute an Acquire fence that can mask a
//!   missing synchronisation). Default: both profiles for the programs flagged `sensitive` by
//!   `miriprog list` (gated by a uniqueness test / count read), `nodebug` only for the others.
//!   `--profiles` restricts the set; the env var `VERIF_PROFILE` too (`release` -> nodebug only,
//!   `debug` -> debug only).
//! * quick: the programs marked `quick` x 4 seeds (x both profiles when sensitive, 2 seeds for
//!   the non-sensitive ones); thorough: all programs x 32 seeds. `--seeds n` overrides.
//!   Miri seeds are `seed*1000 .. seed*1000 + n`.
//! * `--lean <conc_driver>`: COVERAGE cross-check against Gen/Protocol. The driver's `protocol`
//!   command lists the descriptor-juggling functions (`name|tests_unique|assumes_unique|
//!   reads_or_writes|loc ;; ...`); every one with a `true` flag must be declared (4th column of
//!   `miriprog list`) by at least one program of the FULL list, and no program may declare a
//!   name the driver does not list: otherwise a disagreement of kind "monitor", monitor
//!   "coverage". Without `--lean` the cross-check is skipped (`"coverage_checked": false`).
//! Every run is `cargo +nightly miri run --offline [--release] --bin miriprog -- <i>` in the
//! crate directory with `MIRIFLAGS="-Zmiri-permissive-provenance -Zmiri-seed=<n>"` (plus
//! `$MIRI_EXTRA_FLAGS`). Exit 0 = no finding, 1 = finding(s), 2 = internal error (Miri missing,
//! build failure, unusable Lean driver with no finding, ...).

use std::collections::BTreeMap;
use std::process::Command;
use std::sync::{Arc, Mutex};
use std::time::Instant;

fn esc(s: &str) -> String {
    let mut o = String::new();
    for c in s.chars() {
        match c {
            '"' => o.push_str("\\\""),
            '\\' => o.push_str("\\\\"),
            '\n' => o.push_str("\\n"),
            '\t' => o.push_str("\\t"),
            c if (c as u32) < 0x20 => o.push_str(&format!("\\u{:04x}", c as u32)),
            c => o.push(c),
        }
    }
    o
}

#[derive(Clone, Copy, PartialEq, Eq, PartialOrd, Ord, Debug)]
enum Profile {
    Debug,
    NoDebug,
}

impl Profile {
    fn name(self) -> &'static str {
        match self {
            Profile::Debug => "miri-debug",
            Profile::NoDebug => "miri-nodebug",
        }
    }
    fn cargo_flag(self) -> &'static str {
        match self {
            Profile::Debug => "",
            Profile::NoDebug => " --release",
        }
    }
}

struct Run {
    prog: usize,
    profile: Profile,
    seed: u64,
    /// `None` = ok, else (monitor kind, first error lines)
    finding: Option<(String, String)>,
    ms: u128,
}

fn miri(dir: &str, profile: Profile, flags: &str, arg: &str) -> std::io::Result<(bool, String, String)> {
    let mut args = vec!["+nightly", "miri", "run", "--offline", "--quiet"];
    if profile == Profile::NoDebug {
        args.push("--release");
    }
    args.extend(["--bin", "miriprog", "--", arg]);
    let out = Command::new("cargo")
        .args(&args)
        .current_dir(dir)
        .env("MIRIFLAGS", flags)
        .output()?;
    Ok((
        out.status.success(),
        String::from_utf8_lossy(&out.stdout).to_string(),
        String::from_utf8_lossy(&out.stderr).to_string(),
    ))
}

fn classify(stderr: &str) -> (String, String) {
    let lines: Vec<&str> = stderr
        .lines()
        .filter(|l| !l.starts_with("warning") && !l.trim().is_empty())
        .collect();
    let first = lines
        .iter()
        .position(|l| l.starts_with("error") || l.contains("panicked at"))
        .unwrap_or(0);
    let msg: Vec<&str> = lines.iter().skip(first).take(3).cloned().collect();
    let text = msg.join(" | ");
    let kind = if text.contains("Data race") {
        "race"
    } else if text.contains("use-after-free") || text.contains("dangling") || text.contains("has been freed") {
        "use-after-free"
    } else if text.contains("Undefined Behavior") {
        "ub"
    } else if text.contains("panicked") {
        "content"
    } else {
        "error"
    };
    (kind.to_string(), text)
}

struct ProtoFn {
    name: String,
    relevant: bool,
    loc: String,
}

/// Asks the Lean driver for Gen/Protocol (`protocol` command, one output line).
fn protocol(lean: &str) -> Result<Vec<ProtoFn>, String> {
    use std::io::Write;
    let mut child = Command::new(lean)
        .stdin(std::process::Stdio::piped())
        .stdout(std::process::Stdio::piped())
        .spawn()
        .map_err(|e| format!("cannot spawn {lean}: {e}"))?;
    child
        .stdin
        .take()
        .unwrap()
        .write_all(b"protocol\n")
        .map_err(|e| format!("write to {lean}: {e}"))?;
    let out = child.wait_with_output().map_err(|e| format!("wait for {lean}: {e}"))?;
    let text = String::from_utf8_lossy(&out.stdout);
    let line = text.lines().next().unwrap_or("");
    let mut fns = vec![];
    for entry in line.split(";;") {
        let entry = entry.trim();
        if entry.is_empty() {
            continue;
        }
        let f: Vec<&str> = entry.split('|').collect();
        if f.len() != 5 || !f[1..4].iter().all(|b| *b == "true" || *b == "false") {
            return Err(format!("unexpected `protocol` entry `{entry}`"));
        }
        fns.push(ProtoFn {
            name: f[0].trim().to_string(),
            relevant: f[1..4].iter().any(|b| *b == "true"),
            loc: f[4].trim().to_string(),
        });
    }
    if fns.is_empty() {
        return Err(format!("`protocol` answered nothing usable: `{}`", line.chars().take(120).collect::<String>()));
    }
    Ok(fns)
}

fn main() {
    let mut tier = "quick".to_string();
    let mut seed: u64 = 1;
    let mut out: Option<String> = None;
    let mut dir = env!("CARGO_MANIFEST_DIR").to_string();
    let mut jobs: usize = 4;
    let mut nseeds: Option<u64> = None;
    let mut only: Option<usize> = None;
    let mut verbose = false;
    let mut lean: Option<String> = None;
    let mut profiles_arg: Option<String> = None;
    let mut args = std::env::args().skip(1);
    while let Some(a) = args.next() {
        let mut val = || args.next().unwrap_or_else(|| { eprintln!("missing value for {a}"); std::process::exit(2) });
        match a.as_str() {
            "--tier" => tier = val(),
            "--seed" => seed = val().parse().unwrap_or(1),
            "--out" => out = Some(val()),
            "--crate-dir" => dir = val(),
            "--jobs" => jobs = val().parse().unwrap_or(4).max(1),
            "--seeds" => nseeds = val().parse().ok(),
            "--program" => only = val().parse().ok(),
            "--lean" => lean = Some(val()),
            "--profiles" => profiles_arg = Some(val()),
            "--replay" => { let _ = val(); }
            "--verbose" => verbose = true,
            other => { eprintln!("unknown argument {other}"); std::process::exit(2) }
        }
    }
    let default_seeds: u64 = if tier == "thorough" { 32 } else { 4 };
    // which Miri profiles may run at all
    let mut allowed: Vec<Profile> = match profiles_arg.as_deref() {
        None => vec![Profile::Debug, Profile::NoDebug],
        Some(l) => l
            .split(',')
            .map(|w| match w.trim() {
                "debug" => Profile::Debug,
                "nodebug" => Profile::NoDebug,
                other => {
                    eprintln!("miridrive: unknown profile `{other}` (debug, nodebug)");
                    std::process::exit(2)
                }
            })
            .collect(),
    };
    let verif_profile = std::env::var("VERIF_PROFILE").ok();
    match verif_profile.as_deref() {
        Some("release") => allowed.retain(|p| *p == Profile::NoDebug),
        Some("debug") => allowed.retain(|p| *p == Profile::Debug),
        _ => {}
    }
    // VERIF_PROFILE / --profiles given explicitly: every selected program runs in what is left;
    // otherwise the non-sensitive programs only run without debug assertions
    let explicit = profiles_arg.is_some() || matches!(verif_profile.as_deref(), Some("release") | Some("debug"));
    if allowed.is_empty() {
        eprintln!("miridrive: no Miri profile left (--profiles / VERIF_PROFILE)");
        std::process::exit(2);
    }
    let extra = std::env::var("MIRI_EXTRA_FLAGS").unwrap_or_default();
    let base_flags = format!("-Zmiri-permissive-provenance {extra}");
    let t0 = Instant::now();

    let version = Command::new("cargo").args(["+nightly", "miri", "--version"]).output()
        .map(|o| String::from_utf8_lossy(&o.stdout).trim().to_string()).unwrap_or_default();
    if version.is_empty() {
        eprintln!("miridrive: `cargo +nightly miri` is not available");
        std::process::exit(2);
    }
    // builds miriprog for Miri in every profile used (cold cost) and gives the program list
    let mut list = String::new();
    let mut build_ms_by_profile: Vec<(Profile, u128)> = vec![];
    for &pr in &allowed {
        let t = Instant::now();
        let (ok, out, err) = match miri(&dir, pr, &base_flags, "list") {
            Ok(r) => r,
            Err(e) => { eprintln!("miridrive: cannot run cargo: {e}"); std::process::exit(2) }
        };
        build_ms_by_profile.push((pr, t.elapsed().as_millis()));
        if !ok {
            eprintln!("miridrive: building/listing miriprog under Miri ({}) failed:\n{err}", pr.name());
            std::process::exit(2);
        }
        list = out;
    }
    let build_ms = t0.elapsed().as_millis();
    struct P {
        idx: usize,
        quick: bool,
        desc: String,
        fns: Vec<String>,
        sensitive: bool,
    }
    let progs: Vec<P> = list.lines().filter_map(|l| {
        let mut it = l.splitn(5, '\t');
        Some(P {
            idx: it.next()?.parse().ok()?,
            quick: it.next()? == "quick",
            desc: it.next()?.to_string(),
            fns: it.next()?.split(',').filter(|f| !f.is_empty()).map(str::to_string).collect(),
            sensitive: it.next()? == "sensitive",
        })
    }).collect();
    let selected: Vec<&P> = progs.iter()
        .filter(|p| match only { Some(i) => p.idx == i, None => tier == "thorough" || p.quick })
        .collect();
    if selected.is_empty() {
        eprintln!("miridrive: no program selected");
        std::process::exit(2);
    }
    let profiles_of = |p: &P| -> Vec<Profile> {
        if explicit || p.sensitive {
            allowed.clone()
        } else if allowed.contains(&Profile::NoDebug) {
            vec![Profile::NoDebug]
        } else {
            allowed.clone()
        }
    };
    let seeds_of = |p: &P| -> u64 {
        nseeds.unwrap_or(if tier != "thorough" && !p.sensitive { 2 } else { default_seeds })
    };
    let mut queue: Vec<(usize, Profile, u64)> = vec![];
    for p in &selected {
        for pr in profiles_of(p) {
            for k in 0..seeds_of(p) {
                queue.push((p.idx, pr, seed * 1000 + k));
            }
        }
    }
    queue.reverse();
    let queue = Arc::new(Mutex::new(queue));
    let results: Arc<Mutex<Vec<Run>>> = Arc::new(Mutex::new(vec![]));
    let mut workers = vec![];
    for _ in 0..jobs {
        let (queue, results, dir, base_flags) = (queue.clone(), results.clone(), dir.clone(), base_flags.clone());
        workers.push(std::thread::spawn(move || loop {
            let Some((prog, profile, s)) = queue.lock().unwrap().pop() else { break };
            let t = Instant::now();
            let flags = format!("{base_flags} -Zmiri-seed={s}");
            let finding = match miri(&dir, profile, &flags, &prog.to_string()) {
                Ok((true, stdout, _)) if stdout.contains(&format!("ok {prog}")) => None,
                Ok((_, _, stderr)) => Some(classify(&stderr)),
                Err(e) => Some(("error".to_string(), format!("cannot run cargo: {e}"))),
            };
            results.lock().unwrap().push(Run { prog, profile, seed: s, finding, ms: t.elapsed().as_millis() });
        }));
    }
    for w in workers {
        let _ = w.join();
    }
    let mut results = std::mem::take(&mut *results.lock().unwrap());
    results.sort_by_key(|r| (r.prog, r.profile, r.seed));

    let mut dist: BTreeMap<String, usize> = BTreeMap::new();
    let mut internal = false;
    let mut disagreements = vec![];
    let mut samples = vec![];
    for p in &selected {
        let all_runs: Vec<&Run> = results.iter().filter(|r| r.prog == p.idx).collect();
        let mut per_profile = vec![];
        for pr in profiles_of(p) {
            let runs: Vec<&&Run> = all_runs.iter().filter(|r| r.profile == pr).collect();
            let hits: Vec<&&&Run> = runs.iter().filter(|r| r.finding.is_some()).collect();
            for r in &runs {
                let k = r.finding.as_ref().map_or("ok".to_string(), |f| f.0.clone());
                *dist.entry(format!("{}:{k}", pr.name())).or_default() += 1;
            }
            per_profile.push(format!("\"{}\":{{\"runs\":{},\"findings\":{}}}", pr.name(), runs.len(), hits.len()));
            if let Some(first) = hits.first() {
                let (kind, text) = first.finding.clone().unwrap();
                if kind == "error" {
                    internal = true;
                }
                let seeds: Vec<String> = hits.iter().map(|r| r.seed.to_string()).collect();
                let kinds: Vec<String> = {
                    let mut m: BTreeMap<String, usize> = BTreeMap::new();
                    for r in &hits { *m.entry(r.finding.as_ref().unwrap().0.clone()).or_default() += 1; }
                    m.into_iter().map(|(k, n)| format!("\"{k}\":{n}")).collect()
                };
                eprintln!("miridrive: MONITOR {kind} [{}] on program {} `{}`: {}/{} seeds hit (first seed {}): {}",
                    pr.name(), p.idx, p.desc, hits.len(), runs.len(), first.seed, text);
                disagreements.push(format!(
                    "{{\"kind\":\"monitor\",\"monitor\":\"{}\",\"input\":[\"miriprog {}: {}\"],\"expected\":\"no data race, use after free or other undefined behaviour, and every handle reads its expected content, under every schedule\",\"observed\":\"{}\",\"profile\":\"{}\",\"program\":{},\"seed\":{},\"seeds_hit\":[{}],\"hit\":{},\"runs\":{},\"kinds\":{{{}}},\"replay\":\"cd {} && MIRIFLAGS='{} -Zmiri-seed={}' cargo +nightly miri run --offline{} --bin miriprog -- {}\"}}",
                    kind, p.idx, esc(&p.desc), esc(&text), pr.name(), p.idx, first.seed, seeds.join(","), hits.len(), runs.len(),
                    kinds.join(","), esc(&dir), esc(base_flags.trim()), first.seed, pr.cargo_flag(), p.idx
                ));
            } else if verbose {
                eprintln!("miridrive: program {} [{}] `{}`: {} seeds ok", p.idx, pr.name(), p.desc, runs.len());
            }
        }
        samples.push(format!(
            "{{\"program\":{},\"description\":\"{}\",\"sensitive\":{},\"profiles\":{{{}}},\"mean_ms\":{}}}",
            p.idx, esc(&p.desc), p.sensitive, per_profile.join(","),
            all_runs.iter().map(|r| r.ms).sum::<u128>() / all_runs.len().max(1) as u128
        ));
    }

    // ---- coverage cross-check against Gen/Protocol (needs the Lean driver) ----
    let mut lean_error: Option<String> = None;
    let mut coverage_json = "null".to_string();
    let mut coverage_checked = false;
    if let Some(l) = &lean {
        match protocol(l) {
            Err(e) => lean_error = Some(e),
            Ok(fns) => {
                coverage_checked = true;
                let mut cov = vec![];
                for f in &fns {
                    let by: Vec<String> = progs.iter().filter(|p| p.fns.contains(&f.name)).map(|p| p.idx.to_string()).collect();
                    cov.push(format!("\"{}\":[{}]", esc(&f.name), by.join(",")));
                    if f.relevant && by.is_empty() {
                        eprintln!("miridrive: MONITOR coverage: no program exercises `{}` ({})", f.name, f.loc);
                        disagreements.push(format!(
                            "{{\"kind\":\"monitor\",\"monitor\":\"coverage\",\"input\":[\"{} ({})\"],\"expected\":\"every descriptor-juggling function of Gen/Protocol is exercised by at least one miriprog program\",\"observed\":\"no program declares it\",\"profile\":\"miri\"}}",
                            esc(&f.name), esc(&f.loc)
                        ));
                    }
                }
                coverage_json = format!("{{{}}}", cov.join(","));
                for p in &progs {
                    for name in &p.fns {
                        if !fns.iter().any(|f| &f.name == name) {
                            eprintln!("miridrive: MONITOR coverage: program {} declares `{name}`, which Gen/Protocol does not list (stale name)", p.idx);
                            disagreements.push(format!(
                                "{{\"kind\":\"monitor\",\"monitor\":\"coverage\",\"input\":[\"miriprog {}: {}\"],\"expected\":\"every function a program declares is a function of Gen/Protocol\",\"observed\":\"stale name `{}`\",\"profile\":\"miri\"}}",
                                p.idx, esc(&p.desc), esc(name)
                            ));
                        }
                    }
                }
            }
        }
        if let Some(e) = &lean_error {
            eprintln!("miridrive: Lean driver unusable ({e}): coverage cross-check skipped");
        }
    }
    let total_ms = t0.elapsed().as_millis();
    let dist_s: Vec<String> = dist.iter().map(|(k, n)| format!("\"{k}\":{n}")).collect();
    let json = format!(
        "{{\"evaluations\":{},\"distinct_nontrivial\":{},\"rule\":\"Miri (data-race detector, borrow tracker, allocation tracker) reports nothing and every content assertion holds, for every program and scheduler seed\",\"exhaustive\":false,\"distribution\":{{{}}},\"samples\":[{}],\"disagreements\":[{}],\"tier\":\"{}\",\"seed\":{},\"seeds_per_program\":{},\"programs\":{},\"programs_total\":{},\"profiles\":[{}],\"verif_profile\":{},\"coverage_checked\":{},\"coverage\":{},\"lean_error\":{},\"miri_version\":\"{}\",\"miriflags\":\"{}\",\"build_and_list_ms\":{},\"build_ms_by_profile\":{{{}}},\"runtime_ms\":{},\"jobs\":{}}}\n",
        results.len(), selected.len(), dist_s.join(","), samples.join(","), disagreements.join(","),
        esc(&tier), seed, nseeds.unwrap_or(default_seeds), selected.len(), progs.len(),
        allowed.iter().map(|p| format!("\"{}\"", p.name())).collect::<Vec<_>>().join(","),
        verif_profile.as_ref().map_or("null".to_string(), |v| format!("\"{}\"", esc(v))),
        coverage_checked, coverage_json,
        lean_error.as_ref().map_or("null".to_string(), |e| format!("\"{}\"", esc(e))),
        esc(&version), esc(base_flags.trim()), build_ms,
        build_ms_by_profile.iter().map(|(p, ms)| format!("\"{}\":{}", p.name(), ms)).collect::<Vec<_>>().join(","),
        total_ms, jobs
    );
    if let Some(o) = &out {
        if let Err(e) = std::fs::write(o, &json) {
            eprintln!("miridrive: cannot write {o}: {e}");
            std::process::exit(2);
        }
    } else {
        print!("{json}");
    }
    eprintln!("miridrive: {} programs, {} Miri runs (profiles {}), {} finding(s), coverage {}, build+list {} ms, total {} ms",
        selected.len(), results.len(),
        allowed.iter().map(|p| p.name()).collect::<Vec<_>>().join("+"),
        disagreements.len(),
        if coverage_checked { "checked" } else { "not checked" },
        build_ms, total_ms);
    let code = if !disagreements.is_empty() && !internal {
        1
    } else if internal || lean_error.is_some() {
        2
    } else {
        0
    };
    std::process::exit(code);
}
