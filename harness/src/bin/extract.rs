//! Translator entry point.
//!
//! `extract [--repo /repo] [--out /verif/lean/HipVerif/Gen] [--only name,name]`
//! Writes the generated Lean files (only when their content changed, so that lake's
//! incremental build is not disturbed) and prints one JSON line per generator:
//! `{"gen":"consts","ok":true,"files":["Consts.lean"]}` or `{"gen":…,"ok":false,"error":"…"}`.
//! Exit code 0 when every selected generator succeeded, 3 otherwise.

use std::path::PathBuf;

use hipverif_harness::extract::{self, Repo};

fn json_escape(s: &str) -> String {
    let mut o = String::new();
    for c in s.chars() {
        match c {
            '"' => o.push_str("\\\""),
            '\\' => o.push_str("\\\\"),
            '\n' => o.push_str("\\n"),
            '\t' => o.push_str("\\t"),
            c if (c as u32) < 0x20 => o.push_str(&format!("\\u{:04x}", c as u32)),
            c => o.push(c),
        }
    }
    o
}

fn main() {
    let mut repo = PathBuf::from("/repo");
    let mut out = PathBuf::from("/verif/lean/HipVerif/Gen");
    let mut only: Option<Vec<String>> = None;
    let mut args = std::env::args().skip(1);
    while let Some(a) = args.next() {
        match a.as_str() {
            "--repo" => repo = PathBuf::from(args.next().expect("--repo value")),
            "--out" => out = PathBuf::from(args.next().expect("--out value")),
            "--only" => {
                only = Some(
                    args.next()
                        .expect("--only value")
                        .split(',')
                        .map(str::to_string)
                        .collect(),
                )
            }
            other => {
                eprintln!("unknown argument {other}");
                std::process::exit(2);
            }
        }
    }
    let repo = match Repo::load(&repo) {
        Ok(r) => r,
        Err(e) => {
            println!("{{\"gen\":\"*\",\"ok\":false,\"error\":\"{}\"}}", json_escape(&e));
            std::process::exit(3);
        }
    };
    std::fs::create_dir_all(&out).expect("create out dir");
    let mut failed = false;
    for (name, f) in extract::all() {
        if let Some(only) = &only {
            if !only.iter().any(|o| o == name) {
                continue;
            }
        }
        match f(&repo) {
            Ok(files) => {
                let mut names = vec![];
                for gf in files {
                    let path = out.join(&gf.name);
                    let same = std::fs::read_to_string(&path).map_or(false, |old| old == gf.content);
                    if !same {
                        std::fs::write(&path, &gf.content).expect("write generated file");
                    }
                    names.push(format!("\"{}\"", json_escape(&gf.name)));
                }
                println!("{{\"gen\":\"{name}\",\"ok\":true,\"files\":[{}]}}", names.join(","));
            }
            Err(e) => {
                failed = true;
                println!("{{\"gen\":\"{name}\",\"ok\":false,\"error\":\"{}\"}}", json_escape(&e));
            }
        }
    }
    std::process::exit(if failed { 3 } else { 0 });
}
