//! Differential driver for property C16 (serialisation): runs the real crate (features serde,
//! borsh, bstr) on boundary values and malformed streams, and compares every outcome with
//! (a) the compiled Lean model (`codec_driver`: `borsh_de`, `borsh_ser`, `visit`, `ser`, `bstr`,
//! `rows`) and (b) the std oracle (`Vec<u8>`, `String`, `OsString`, `PathBuf` on the same input).
//! Round-2 adversaries: borsh through readers/writers that legally transfer fewer bytes than asked
//! (chunks of 1/2/3/7, `Interrupted`, an over-reporting reader, partial writers, too-small
//! buffers) on the tuple `(T, u32, T)` with the `Vec<u8>`/`String` twin through the same
//! adversary; `deserialize_in_place` over pre-filled slots (longer / equal / shorter, owned /
//! borrowed) with the std twin and the fresh-`deserialize` rule; every serde data-model shape
//! through `serde::de::value::*Deserializer`; a raw-bytes monitor (`verif_bytes()`,
//! `verif_owner_info()`: owner length <= capacity, view inside the block, UTF-8) on every result.
//! A counting global allocator records the largest single allocation request of each call;
//! the monitor checks it against the model's bound `4096 + 2 * input length` (+ slack).
//!
//! CLI: `serdrive --tier quick|thorough --seed N --lean <codec_driver> --out stats.json [--replay f.json]`
//! (`--child` is internal: risky cases — huge length prefixes / size hints — run in a child
//! process whose allocator refuses requests above 1 GiB, so an abort is a recorded outcome).
//! Exit 0 = no disagreement, 1 = disagreement(s), 2 = internal error.

use std::alloc::{GlobalAlloc, Layout, System};
use std::collections::BTreeMap;
use std::ffi::{OsStr, OsString};
use std::fmt;
use std::os::unix::ffi::{OsStrExt, OsStringExt};
use std::panic::{catch_unwind, AssertUnwindSafe};
use std::path::{Path, PathBuf};
use std::sync::atomic::{AtomicBool, AtomicUsize, Ordering};

use borsh::{BorshDeserialize, BorshSerialize};
use hipstr::bytes::HipByt;
use hipstr::os_string::HipOsStr;
use hipstr::path::HipPath;
use hipstr::string::HipStr;
use hipstr::{Arc, Backend, Rc, Unique};
use hipverif_harness::util::{parse_cli, unhex, LeanDriver, Rng};
use serde::de::{self, DeserializeSeed, IntoDeserializer, SeqAccess, Visitor};
use serde::ser::{self, Impossible};
use serde::{Deserialize, Deserializer, Serialize, Serializer};

/// Lower-case hex, `-` for empty (same format as `util::hex`, table-driven: payloads are large).
fn hex(bytes: &[u8]) -> String {
    const DIGITS: &[u8; 16] = b"0123456789abcdef";
    if bytes.is_empty() {
        return "-".to_string();
    }
    let mut s = Vec::with_capacity(bytes.len() * 2);
    for b in bytes {
        s.push(DIGITS[(b >> 4) as usize]);
        s.push(DIGITS[(b & 15) as usize]);
    }
    String::from_utf8(s).expect("ascii")
}

// ---------------------------------------------------------------------------------------------
// Counting allocator
// ---------------------------------------------------------------------------------------------

struct Counting;

static MAX_REQ: AtomicUsize = AtomicUsize::new(0);
static REFUSE_HUGE: AtomicBool = AtomicBool::new(false);
const HUGE: usize = 1 << 30;

#[inline]
fn note(size: usize) {
    MAX_REQ.fetch_max(size, Ordering::Relaxed);
}

unsafe impl GlobalAlloc for Counting {
    unsafe fn alloc(&self, l: Layout) -> *mut u8 {
        note(l.size());
        if l.size() > HUGE && REFUSE_HUGE.load(Ordering::Relaxed) {
            return std::ptr::null_mut();
        }
        System.alloc(l)
    }
    unsafe fn alloc_zeroed(&self, l: Layout) -> *mut u8 {
        note(l.size());
        if l.size() > HUGE && REFUSE_HUGE.load(Ordering::Relaxed) {
            return std::ptr::null_mut();
        }
        System.alloc_zeroed(l)
    }
    unsafe fn realloc(&self, p: *mut u8, l: Layout, new_size: usize) -> *mut u8 {
        note(new_size);
        if new_size > HUGE && REFUSE_HUGE.load(Ordering::Relaxed) {
            return std::ptr::null_mut();
        }
        System.realloc(p, l, new_size)
    }
    unsafe fn dealloc(&self, p: *mut u8, l: Layout) {
        System.dealloc(p, l)
    }
}

#[global_allocator]
static GLOBAL: Counting = Counting;

/// Runs `f` and returns its result with the largest single allocation request made meanwhile.
fn measure<T>(f: impl FnOnce() -> T) -> (T, usize) {
    MAX_REQ.store(0, Ordering::Relaxed);
    let r = f();
    (r, MAX_REQ.load(Ordering::Relaxed))
}

/// Slack on top of the model's bound: the `Inner` box of an allocated value, error objects.
const SLACK: usize = 256;

// ---------------------------------------------------------------------------------------------
// Cases
// ---------------------------------------------------------------------------------------------

#[derive(Clone, Copy, Debug, PartialEq, Eq, PartialOrd, Ord)]
enum K {
    Byt,
    Str,
    Os,
    Path,
}

impl K {
    fn name(self) -> &'static str {
        match self {
            K::Byt => "byt",
            K::Str => "str",
            K::Os => "os",
            K::Path => "path",
        }
    }
    fn parse(s: &str) -> Option<K> {
        Some(match s {
            "byt" => K::Byt,
            "str" => K::Str,
            "os" => K::Os,
            "path" => K::Path,
            _ => return None,
        })
    }
}

#[derive(Clone, Copy, Debug, PartialEq, Eq, PartialOrd, Ord)]
enum Be {
    Arc,
    Rc,
    Unique,
}

const BACKENDS: [Be; 3] = [Be::Arc, Be::Rc, Be::Unique];

impl Be {
    fn name(self) -> &'static str {
        match self {
            Be::Arc => "arc",
            Be::Rc => "rc",
            Be::Unique => "unique",
        }
    }
    fn parse(s: &str) -> Option<Be> {
        Some(match s {
            "arc" => Be::Arc,
            "rc" => Be::Rc,
            "unique" => Be::Unique,
            _ => return None,
        })
    }
}

macro_rules! with_backend {
    ($be:expr, $f:ident ( $($arg:expr),* )) => {
        match $be {
            Be::Arc => $f::<Arc>($($arg),*),
            Be::Rc => $f::<Rc>($($arg),*),
            Be::Unique => $f::<Unique>($($arg),*),
        }
    };
}

#[derive(Clone, Copy, Debug, PartialEq, Eq)]
enum Tk {
    Str,
    BorrowedStr,
    String,
    Bytes,
    BorrowedBytes,
    ByteBuf,
    Char,
    Seq,
    SeqBad,
    Other,
}

const TOKEN_KINDS: [Tk; 10] = [
    Tk::Str,
    Tk::BorrowedStr,
    Tk::String,
    Tk::Bytes,
    Tk::BorrowedBytes,
    Tk::ByteBuf,
    Tk::Char,
    Tk::Seq,
    Tk::SeqBad,
    Tk::Other,
];

impl Tk {
    fn name(self) -> &'static str {
        match self {
            Tk::Str => "str",
            Tk::BorrowedStr => "borrowed_str",
            Tk::String => "string",
            Tk::Bytes => "bytes",
            Tk::BorrowedBytes => "borrowed_bytes",
            Tk::ByteBuf => "byte_buf",
            Tk::Char => "char",
            Tk::Seq => "seq",
            Tk::SeqBad => "seq_bad",
            Tk::Other => "other",
        }
    }
    fn parse(s: &str) -> Option<Tk> {
        TOKEN_KINDS.iter().copied().find(|t| t.name() == s)
    }
    fn str_typed(self) -> bool {
        matches!(self, Tk::Str | Tk::BorrowedStr | Tk::String | Tk::Char)
    }
}

/// Entry point: `<kind>_owned` = `Deserialize`, `<kind>_borrowed` = `borrow_deserialize`.
#[derive(Clone, Copy, Debug, PartialEq, Eq)]
struct Entry {
    kind: K,
    borrowing: bool,
}

impl Entry {
    fn name(self) -> String {
        format!("{}_{}", self.kind.name(), if self.borrowing { "borrowed" } else { "owned" })
    }
    fn parse(s: &str) -> Option<Entry> {
        let (k, e) = s.rsplit_once('_')?;
        let borrowing = match e {
            "owned" => false,
            "borrowed" => true,
            _ => return None,
        };
        let kind = K::parse(k)?;
        if kind == K::Os && borrowing {
            return None;
        }
        Some(Entry { kind, borrowing })
    }
}

#[derive(Clone, Debug, PartialEq, Eq)]
enum Case {
    BorshDe { kind: K, be: Be, data: Vec<u8> },
    BorshSer { kind: K, be: Be, data: Vec<u8> },
    Visit { entry: Entry, be: Be, tok: Tk, data: Vec<u8>, hint: Option<usize> },
    Ser { kind: K, be: Be, data: Vec<u8> },
    Bstr { src: &'static str, kind: K, be: Be, data: Vec<u8> },
    JsonRt { kind: K, be: Be, data: Vec<u8> },
    JsonDe { kind: K, be: Be, data: Vec<u8> },
    JsonBorrow { kind: K, be: Be, data: Vec<u8> },
    Tokens { kind: K, be: Be, data: Vec<u8> },
    /// Round-2 adversaries (see `ExtOp`): `arg` is the adversary / token kind / shape name,
    /// `old` the previous content of the slot for the in-place operations.
    Ext {
        op: ExtOp,
        kind: K,
        borrowing: bool,
        be: Be,
        arg: String,
        hint: Option<usize>,
        old: Vec<u8>,
        old_borrowed: bool,
        data: Vec<u8>,
    },
}

/// * `BorshIoDe`  — the tuple `(T, u32, T)` read through an adversarial `borsh::io::Read`;
/// * `BorshIoSer` — the same tuple written through an adversarial `borsh::io::Write`;
/// * `InPlace`    — `Deserialize::deserialize_in_place` with a one-call deserializer over a
///                  pre-filled slot;
/// * `JsonInPlace`— the same with serde_json;
/// * `Shape`      — every serde data-model shape through `serde::de::value::*Deserializer`.
#[derive(Clone, Copy, Debug, PartialEq, Eq)]
enum ExtOp {
    BorshIoDe,
    BorshIoSer,
    InPlace,
    JsonInPlace,
    Shape,
    /// an entry point driven through a HINT-HONOURING (`arg = honour`) or always-owned
    /// (`arg = owned`) deserializer over the payload: value, provenance and the hint called
    Hint,
}

impl ExtOp {
    fn name(self) -> &'static str {
        match self {
            ExtOp::BorshIoDe => "borsh_io_de",
            ExtOp::BorshIoSer => "borsh_io_ser",
            ExtOp::InPlace => "in_place",
            ExtOp::JsonInPlace => "json_in_place",
            ExtOp::Shape => "shape",
            ExtOp::Hint => "hint",
        }
    }
}

const HINT_MODES: [&str; 2] = ["honour", "owned"];

const READ_ADVS: [&str; 7] = ["chunk1", "chunk2", "chunk3", "chunk7", "intr1", "intr3", "over"];
const WRITE_ADVS: [&str; 8] = ["accept1", "accept2", "accept5", "accept8", "intr3", "fixed_short1", "fixed3", "slice_short1"];
const SHAPES: [&str; 27] = [
    "bool", "i8", "i16", "i32", "i64", "i128", "u8", "u16", "u32", "u64", "u128", "f32", "f64", "char", "unit",
    "str", "borrowed_str", "string", "cow_str", "bytes", "borrowed_bytes",
    "seq_u8", "seq_u16", "seq_str", "seq_empty", "map", "map_empty",
];

const BSTR_SRCS: [&str; 4] = ["bstr_ref", "bstring", "cow_borrowed", "cow_owned"];

impl Case {
    fn line(&self) -> String {
        match self {
            Case::BorshDe { kind, be, data } => format!("borsh_de {} {} {}", kind.name(), be.name(), hex(data)),
            Case::BorshSer { kind, be, data } => format!("borsh_ser {} {} {}", kind.name(), be.name(), hex(data)),
            Case::Visit { entry, be, tok, data, hint } => {
                let h = hint.map(|h| format!(" {h}")).unwrap_or_default();
                format!("visit {} {} {} {}{h}", entry.name(), be.name(), tok.name(), hex(data))
            }
            Case::Ser { kind, be, data } => format!("ser {} {} {}", kind.name(), be.name(), hex(data)),
            Case::Bstr { src, kind, be, data } => format!("bstr {src} {} {} {}", kind.name(), be.name(), hex(data)),
            Case::JsonRt { kind, be, data } => format!("json_rt {} {} {}", kind.name(), be.name(), hex(data)),
            Case::JsonDe { kind, be, data } => format!("json_de {} {} {}", kind.name(), be.name(), hex(data)),
            Case::JsonBorrow { kind, be, data } => format!("json_borrow {} {} {}", kind.name(), be.name(), hex(data)),
            Case::Tokens { kind, be, data } => format!("tokens {} {} {}", kind.name(), be.name(), hex(data)),
            Case::Ext { op, kind, borrowing, be, arg, hint, old, old_borrowed, data } => {
                let ob = if *old_borrowed { "bor" } else { "own" };
                match op {
                    ExtOp::BorshIoDe | ExtOp::BorshIoSer => {
                        format!("{} {} {} {arg} {}", op.name(), kind.name(), be.name(), hex(data))
                    }
                    ExtOp::InPlace => {
                        let h = hint.map(|h| format!(" {h}")).unwrap_or_default();
                        format!("in_place {} {} {arg} {ob} {} {}{h}", kind.name(), be.name(), hex(old), hex(data))
                    }
                    ExtOp::JsonInPlace => format!("json_in_place {} {} {ob} {} {}", kind.name(), be.name(), hex(old), hex(data)),
                    ExtOp::Shape | ExtOp::Hint => {
                        let e = Entry { kind: *kind, borrowing: *borrowing };
                        format!("{} {} {} {arg} {}", op.name(), e.name(), be.name(), hex(data))
                    }
                }
            }
        }
    }

    fn ext(op: ExtOp, kind: K, be: Be, arg: &str, data: Vec<u8>) -> Case {
        Case::Ext { op, kind, borrowing: false, be, arg: arg.to_string(), hint: None, old: vec![], old_borrowed: false, data }
    }

    fn parse(line: &str) -> Option<Case> {
        let w: Vec<&str> = line.split_whitespace().collect();
        match w.as_slice() {
            ["visit", en, be, tk, h, rest @ ..] => {
                let hint = match rest {
                    [] => None,
                    [n] => Some(n.parse().ok()?),
                    _ => return None,
                };
                Some(Case::Visit { entry: Entry::parse(en)?, be: Be::parse(be)?, tok: Tk::parse(tk)?, data: unhex(h)?, hint })
            }
            [op @ ("borsh_io_de" | "borsh_io_ser"), k, be, adv, h] => {
                let (o, advs): (ExtOp, &[&str]) =
                    if *op == "borsh_io_de" { (ExtOp::BorshIoDe, &READ_ADVS) } else { (ExtOp::BorshIoSer, &WRITE_ADVS) };
                if !advs.contains(adv) {
                    return None;
                }
                Some(Case::ext(o, K::parse(k)?, Be::parse(be)?, adv, unhex(h)?))
            }
            ["in_place", k, be, tk, ob, ho, h, rest @ ..] => {
                let hint = match rest {
                    [] => None,
                    [n] => Some(n.parse().ok()?),
                    _ => return None,
                };
                Tk::parse(tk)?;
                Some(Case::Ext {
                    op: ExtOp::InPlace,
                    kind: K::parse(k)?,
                    borrowing: false,
                    be: Be::parse(be)?,
                    arg: tk.to_string(),
                    hint,
                    old: unhex(ho)?,
                    old_borrowed: *ob == "bor",
                    data: unhex(h)?,
                })
            }
            ["json_in_place", k, be, ob, ho, h] => Some(Case::Ext {
                op: ExtOp::JsonInPlace,
                kind: K::parse(k)?,
                borrowing: false,
                be: Be::parse(be)?,
                arg: String::new(),
                hint: None,
                old: unhex(ho)?,
                old_borrowed: *ob == "bor",
                data: unhex(h)?,
            }),
            ["hint", en, be, mode, h] => {
                let e = Entry::parse(en)?;
                if !HINT_MODES.contains(mode) {
                    return None;
                }
                Some(Case::Ext {
                    op: ExtOp::Hint,
                    kind: e.kind,
                    borrowing: e.borrowing,
                    be: Be::parse(be)?,
                    arg: mode.to_string(),
                    hint: None,
                    old: vec![],
                    old_borrowed: false,
                    data: unhex(h)?,
                })
            }
            ["shape", en, be, sh, h] => {
                let e = Entry::parse(en)?;
                if !SHAPES.contains(sh) {
                    return None;
                }
                Some(Case::Ext {
                    op: ExtOp::Shape,
                    kind: e.kind,
                    borrowing: e.borrowing,
                    be: Be::parse(be)?,
                    arg: sh.to_string(),
                    hint: None,
                    old: vec![],
                    old_borrowed: false,
                    data: unhex(h)?,
                })
            }
            ["bstr", src, k, be, h] => {
                let src = BSTR_SRCS.iter().copied().find(|s| s == src)?;
                Some(Case::Bstr { src, kind: K::parse(k)?, be: Be::parse(be)?, data: unhex(h)? })
            }
            [op, k, be, h] => {
                let (kind, be, data) = (K::parse(k)?, Be::parse(be)?, unhex(h)?);
                Some(match *op {
                    "borsh_de" => Case::BorshDe { kind, be, data },
                    "borsh_ser" => Case::BorshSer { kind, be, data },
                    "ser" => Case::Ser { kind, be, data },
                    "json_rt" => Case::JsonRt { kind, be, data },
                    "json_de" => Case::JsonDe { kind, be, data },
                    "json_borrow" => Case::JsonBorrow { kind, be, data },
                    "tokens" => Case::Tokens { kind, be, data },
                    _ => return None,
                })
            }
            _ => None,
        }
    }

    /// The case without its payload (for statistics).
    fn key(&self) -> String {
        match self {
            Case::Visit { entry, be, tok, hint, .. } => {
                let h = match hint {
                    None => "nohint",
                    Some(h) if *h > (1 << 20) => "hugehint",
                    Some(_) => "hint",
                };
                format!("visit {} {} {} {h}", entry.name(), be.name(), tok.name())
            }
            Case::Bstr { src, kind, be, .. } => format!("bstr {src} {} {}", kind.name(), be.name()),
            Case::Ext { op, kind, borrowing, be, arg, old, old_borrowed, data, .. } => {
                let rel = match op {
                    ExtOp::InPlace | ExtOp::JsonInPlace => match old.len().cmp(&data.len()) {
                        _ if *op == ExtOp::JsonInPlace => len_class(old.len()),
                        std::cmp::Ordering::Less => "old-shorter",
                        std::cmp::Ordering::Equal => "old-equal",
                        std::cmp::Ordering::Greater => "old-longer",
                    },
                    _ => "",
                };
                format!("{} {} {} {} {arg} {rel} {}", op.name(), kind.name(), borrowing, be.name(), old_borrowed)
            }
            Case::BorshDe { kind, be, .. }
            | Case::BorshSer { kind, be, .. }
            | Case::Ser { kind, be, .. }
            | Case::JsonRt { kind, be, .. }
            | Case::JsonDe { kind, be, .. }
            | Case::JsonBorrow { kind, be, .. }
            | Case::Tokens { kind, be, .. } => format!("{} {} {}", self.op(), kind.name(), be.name()),
        }
    }

    fn op(&self) -> &'static str {
        match self {
            Case::BorshDe { .. } => "borsh_de",
            Case::BorshSer { .. } => "borsh_ser",
            Case::Visit { .. } => "visit",
            Case::Ser { .. } => "ser",
            Case::Bstr { .. } => "bstr",
            Case::JsonRt { .. } => "json_rt",
            Case::JsonDe { .. } => "json_de",
            Case::JsonBorrow { .. } => "json_borrow",
            Case::Tokens { .. } => "tokens",
            Case::Ext { op, .. } => op.name(),
        }
    }

    fn data(&self) -> &Vec<u8> {
        match self {
            Case::BorshDe { data, .. }
            | Case::BorshSer { data, .. }
            | Case::Visit { data, .. }
            | Case::Ser { data, .. }
            | Case::Bstr { data, .. }
            | Case::JsonRt { data, .. }
            | Case::JsonDe { data, .. }
            | Case::JsonBorrow { data, .. }
            | Case::Tokens { data, .. }
            | Case::Ext { data, .. } => data,
        }
    }

    fn with_data(&self, d: Vec<u8>) -> Case {
        let mut c = self.clone();
        match &mut c {
            Case::BorshDe { data, .. }
            | Case::BorshSer { data, .. }
            | Case::Visit { data, .. }
            | Case::Ser { data, .. }
            | Case::Bstr { data, .. }
            | Case::JsonRt { data, .. }
            | Case::JsonDe { data, .. }
            | Case::JsonBorrow { data, .. }
            | Case::Tokens { data, .. }
            | Case::Ext { data, .. } => *data = d,
        }
        c
    }

    /// The payload must be UTF-8 for the case to be constructible (a `str`-typed token, a
    /// `HipStr` value…).
    fn needs_utf8(&self) -> bool {
        match self {
            Case::Visit { tok, .. } => tok.str_typed(),
            Case::Ext { op: ExtOp::InPlace, arg, .. } => Tk::parse(arg).map_or(false, Tk::str_typed),
            Case::Ext { op: ExtOp::BorshIoDe | ExtOp::BorshIoSer, kind, .. } => *kind == K::Str,
            Case::Ext { op: ExtOp::Shape, arg, .. } => {
                matches!(arg.as_str(), "str" | "borrowed_str" | "string" | "cow_str" | "char" | "seq_str" | "map")
            }
            Case::BorshSer { kind, .. } | Case::Ser { kind, .. } | Case::JsonRt { kind, .. } | Case::Tokens { kind, .. } => {
                *kind == K::Str
            }
            _ => false,
        }
    }

    fn well_formed(&self) -> bool {
        if self.needs_utf8() && std::str::from_utf8(self.data()).is_err() {
            return false;
        }
        match self {
            Case::Visit { tok: Tk::Char, data, .. } => {
                std::str::from_utf8(data).map_or(false, |s| s.chars().count() == 1)
            }
            Case::BorshSer { kind, .. } | Case::BorshDe { kind, .. } => matches!(kind, K::Byt | K::Str),
            Case::Bstr { kind, .. } => matches!(kind, K::Byt | K::Str),
            Case::Ext { op, kind, arg, data, old, .. } => {
                let old_ok = !matches!(kind, K::Str) || std::str::from_utf8(old).is_ok();
                let one_char = |d: &[u8]| std::str::from_utf8(d).map_or(false, |s| s.chars().count() == 1);
                old_ok
                    && match op {
                        ExtOp::BorshIoDe | ExtOp::BorshIoSer => matches!(kind, K::Byt | K::Str),
                        ExtOp::InPlace => arg != "char" || one_char(data),
                        ExtOp::Shape => arg != "char" || one_char(data),
                        ExtOp::JsonInPlace | ExtOp::Hint => true,
                    }
            }
            _ => true,
        }
    }

    /// Cases that could make a defective implementation request an absurd allocation run in the
    /// child process.
    fn risky(&self) -> bool {
        match self {
            Case::BorshDe { data, .. } => {
                data.len() >= 4 && {
                    let n = u32::from_le_bytes([data[0], data[1], data[2], data[3]]) as usize;
                    n > (1 << 16) && n > data.len()
                }
            }
            Case::Visit { hint: Some(h), .. } => *h > (1 << 20),
            // an over-reporting reader may push a defective implementation into undefined
            // behaviour (or into std's debug precondition checks, which abort)
            Case::Ext { op: ExtOp::BorshIoDe, arg, .. } => arg == "over",
            Case::Ext { op: ExtOp::InPlace, hint: Some(h), .. } => *h > (1 << 20),
            _ => false,
        }
    }
}

/// What was observed on one side: a canonical line and the largest allocation request.
#[derive(Clone, Debug, PartialEq, Eq)]
struct Obs {
    line: String,
    maxalloc: usize,
}

// ---------------------------------------------------------------------------------------------
// A deserializer that makes exactly one visitor call
// ---------------------------------------------------------------------------------------------

#[derive(Clone, Copy, Debug, PartialEq, Eq)]
enum ErrClass {
    InvalidType,
    InvalidValue,
    InvalidLength,
    Element,
    Custom,
}

impl ErrClass {
    fn name(self) -> &'static str {
        match self {
            ErrClass::InvalidType => "invalid_type",
            ErrClass::InvalidValue => "invalid_value",
            ErrClass::InvalidLength => "invalid_length",
            ErrClass::Element => "element",
            ErrClass::Custom => "custom",
        }
    }
}

#[derive(Debug)]
struct OcErr(ErrClass);

impl fmt::Display for OcErr {
    fn fmt(&self, f: &mut fmt::Formatter) -> fmt::Result {
        f.write_str(self.0.name())
    }
}

impl std::error::Error for OcErr {}

impl de::Error for OcErr {
    fn custom<T: fmt::Display>(_msg: T) -> Self {
        OcErr(ErrClass::Custom)
    }
    fn invalid_type(u: de::Unexpected, exp: &dyn de::Expected) -> Self {
        // format both so that the visitor's `expecting` runs as it would in a real format
        let _ = format!("{u} {exp}");
        OcErr(ErrClass::InvalidType)
    }
    fn invalid_value(u: de::Unexpected, exp: &dyn de::Expected) -> Self {
        let _ = format!("{u} {exp}");
        OcErr(ErrClass::InvalidValue)
    }
    fn invalid_length(_len: usize, exp: &dyn de::Expected) -> Self {
        let _ = format!("{exp}");
        OcErr(ErrClass::InvalidLength)
    }
}

impl ser::Error for OcErr {
    fn custom<T: fmt::Display>(_msg: T) -> Self {
        OcErr(ErrClass::Custom)
    }
}

#[derive(Clone, Copy)]
struct OneCall<'de> {
    tok: Tk,
    data: &'de [u8],
    hint: Option<usize>,
}

struct SeqAcc<'de> {
    data: &'de [u8],
    pos: usize,
    bad: bool,
    hint: Option<usize>,
}

impl<'de> SeqAccess<'de> for SeqAcc<'de> {
    type Error = OcErr;
    fn next_element_seed<T: DeserializeSeed<'de>>(&mut self, seed: T) -> Result<Option<T::Value>, OcErr> {
        if self.pos < self.data.len() {
            let b = self.data[self.pos];
            self.pos += 1;
            let d: de::value::U8Deserializer<OcErr> = b.into_deserializer();
            seed.deserialize(d).map(Some)
        } else if self.bad {
            self.bad = false;
            Err(OcErr(ErrClass::Element))
        } else {
            Ok(None)
        }
    }
    fn size_hint(&self) -> Option<usize> {
        self.hint
    }
}

impl<'de> Deserializer<'de> for OneCall<'de> {
    type Error = OcErr;

    fn deserialize_any<V: Visitor<'de>>(self, v: V) -> Result<V::Value, OcErr> {
        match self.tok {
            Tk::Str => {
                let tmp = String::from_utf8(self.data.to_vec()).expect("utf8 case");
                v.visit_str(&tmp)
            }
            Tk::BorrowedStr => v.visit_borrowed_str(std::str::from_utf8(self.data).expect("utf8 case")),
            Tk::String => v.visit_string(String::from_utf8(self.data.to_vec()).expect("utf8 case")),
            Tk::Bytes => {
                let tmp = self.data.to_vec();
                v.visit_bytes(&tmp)
            }
            Tk::BorrowedBytes => v.visit_borrowed_bytes(self.data),
            Tk::ByteBuf => v.visit_byte_buf(self.data.to_vec()),
            Tk::Char => {
                let c = std::str::from_utf8(self.data).expect("utf8 case").chars().next().expect("one char");
                v.visit_char(c)
            }
            Tk::Seq | Tk::SeqBad => {
                v.visit_seq(SeqAcc { data: self.data, pos: 0, bad: self.tok == Tk::SeqBad, hint: self.hint })
            }
            Tk::Other => v.visit_bool(true),
        }
    }

    // `OsString` asks for an enum: the one-call deserializer has none to offer
    serde::forward_to_deserialize_any! {
        bool i8 i16 i32 i64 i128 u8 u16 u32 u64 u128 f32 f64 char str string bytes byte_buf option
        unit unit_struct newtype_struct seq tuple tuple_struct map struct enum identifier ignored_any
    }
}

// ---------------------------------------------------------------------------------------------
// A serializer that records the call it receives
// ---------------------------------------------------------------------------------------------

#[derive(Debug, Clone, PartialEq, Eq)]
enum Rec {
    Bytes(Vec<u8>),
    Str(Vec<u8>),
    U8(u8),
    SeqU8(Vec<u8>),
    OsUnix(Vec<u8>),
    Other(&'static str),
}

impl Rec {
    fn line(r: &Result<Rec, OcErr>) -> String {
        match r {
            Ok(Rec::Bytes(b)) => format!("bytes {}", hex(b)),
            Ok(Rec::Str(s)) => format!("str {}", hex(s)),
            Ok(Rec::OsUnix(b)) => format!("os_unix {}", hex(b)),
            Ok(Rec::U8(_)) => "other u8".into(),
            Ok(Rec::SeqU8(b)) => format!("other seq {}", hex(b)),
            Ok(Rec::Other(n)) => format!("other {n}"),
            Err(_) => "err".into(),
        }
    }
}

struct RecSer;

struct RecSeq(Vec<u8>, bool);

impl ser::SerializeSeq for RecSeq {
    type Ok = Rec;
    type Error = OcErr;
    fn serialize_element<T: ?Sized + Serialize>(&mut self, value: &T) -> Result<(), OcErr> {
        match value.serialize(RecSer)? {
            Rec::U8(b) => self.0.push(b),
            _ => self.1 = false,
        }
        Ok(())
    }
    fn end(self) -> Result<Rec, OcErr> {
        Ok(if self.1 { Rec::SeqU8(self.0) } else { Rec::Other("seq") })
    }
}

macro_rules! rec_other {
    ($($name:ident ( $($ty:ty),* );)*) => {
        $(fn $name(self $(, _: $ty)*) -> Result<Rec, OcErr> { Ok(Rec::Other(stringify!($name))) })*
    };
}

impl Serializer for RecSer {
    type Ok = Rec;
    type Error = OcErr;
    type SerializeSeq = RecSeq;
    type SerializeTuple = Impossible<Rec, OcErr>;
    type SerializeTupleStruct = Impossible<Rec, OcErr>;
    type SerializeTupleVariant = Impossible<Rec, OcErr>;
    type SerializeMap = Impossible<Rec, OcErr>;
    type SerializeStruct = Impossible<Rec, OcErr>;
    type SerializeStructVariant = Impossible<Rec, OcErr>;

    rec_other! {
        serialize_bool(bool); serialize_i8(i8); serialize_i16(i16); serialize_i32(i32); serialize_i64(i64);
        serialize_u16(u16); serialize_u32(u32); serialize_u64(u64); serialize_f32(f32); serialize_f64(f64);
        serialize_char(char); serialize_none(); serialize_unit(); serialize_unit_struct(&'static str);
        serialize_unit_variant(&'static str, u32, &'static str);
    }

    fn serialize_u8(self, v: u8) -> Result<Rec, OcErr> {
        Ok(Rec::U8(v))
    }
    fn serialize_str(self, v: &str) -> Result<Rec, OcErr> {
        Ok(Rec::Str(v.as_bytes().to_vec()))
    }
    fn serialize_bytes(self, v: &[u8]) -> Result<Rec, OcErr> {
        Ok(Rec::Bytes(v.to_vec()))
    }
    fn serialize_some<T: ?Sized + Serialize>(self, _: &T) -> Result<Rec, OcErr> {
        Ok(Rec::Other("serialize_some"))
    }
    fn serialize_newtype_struct<T: ?Sized + Serialize>(self, _: &'static str, _: &T) -> Result<Rec, OcErr> {
        Ok(Rec::Other("serialize_newtype_struct"))
    }
    fn serialize_newtype_variant<T: ?Sized + Serialize>(
        self,
        name: &'static str,
        _idx: u32,
        variant: &'static str,
        value: &T,
    ) -> Result<Rec, OcErr> {
        match value.serialize(RecSer)? {
            Rec::SeqU8(b) if name == "OsString" && variant == "Unix" => Ok(Rec::OsUnix(b)),
            _ => Ok(Rec::Other("serialize_newtype_variant")),
        }
    }
    fn serialize_seq(self, _len: Option<usize>) -> Result<RecSeq, OcErr> {
        Ok(RecSeq(vec![], true))
    }
    fn serialize_tuple(self, _: usize) -> Result<Self::SerializeTuple, OcErr> {
        Err(OcErr(ErrClass::Custom))
    }
    fn serialize_tuple_struct(self, _: &'static str, _: usize) -> Result<Self::SerializeTupleStruct, OcErr> {
        Err(OcErr(ErrClass::Custom))
    }
    fn serialize_tuple_variant(
        self,
        _: &'static str,
        _: u32,
        _: &'static str,
        _: usize,
    ) -> Result<Self::SerializeTupleVariant, OcErr> {
        Err(OcErr(ErrClass::Custom))
    }
    fn serialize_map(self, _: Option<usize>) -> Result<Self::SerializeMap, OcErr> {
        Err(OcErr(ErrClass::Custom))
    }
    fn serialize_struct(self, _: &'static str, _: usize) -> Result<Self::SerializeStruct, OcErr> {
        Err(OcErr(ErrClass::Custom))
    }
    fn serialize_struct_variant(
        self,
        _: &'static str,
        _: u32,
        _: &'static str,
        _: usize,
    ) -> Result<Self::SerializeStructVariant, OcErr> {
        Err(OcErr(ErrClass::Custom))
    }
}

// ---------------------------------------------------------------------------------------------
// A probe that records what a format hands out (content and whether it was borrowed data)
// ---------------------------------------------------------------------------------------------

struct Probe {
    content: Vec<u8>,
    offered: bool,
}

struct ProbeVisitor {
    strings_only: bool,
}

impl<'de> Visitor<'de> for ProbeVisitor {
    type Value = Probe;
    fn expecting(&self, f: &mut fmt::Formatter) -> fmt::Result {
        f.write_str("string-like data")
    }
    fn visit_borrowed_str<E: de::Error>(self, v: &'de str) -> Result<Probe, E> {
        Ok(Probe { content: v.as_bytes().to_vec(), offered: true })
    }
    fn visit_str<E: de::Error>(self, v: &str) -> Result<Probe, E> {
        Ok(Probe { content: v.as_bytes().to_vec(), offered: false })
    }
    fn visit_string<E: de::Error>(self, v: String) -> Result<Probe, E> {
        Ok(Probe { content: v.into_bytes(), offered: false })
    }
    fn visit_borrowed_bytes<E: de::Error>(self, v: &'de [u8]) -> Result<Probe, E> {
        if self.strings_only && std::str::from_utf8(v).is_err() {
            return Err(E::invalid_value(de::Unexpected::Bytes(v), &self));
        }
        Ok(Probe { content: v.to_vec(), offered: true })
    }
    fn visit_bytes<E: de::Error>(self, v: &[u8]) -> Result<Probe, E> {
        if self.strings_only && std::str::from_utf8(v).is_err() {
            return Err(E::invalid_value(de::Unexpected::Bytes(v), &self));
        }
        Ok(Probe { content: v.to_vec(), offered: false })
    }
    fn visit_byte_buf<E: de::Error>(self, v: Vec<u8>) -> Result<Probe, E> {
        self.visit_bytes(&v)
    }
    fn visit_seq<A: SeqAccess<'de>>(self, mut seq: A) -> Result<Probe, A::Error> {
        if self.strings_only {
            return Err(de::Error::invalid_type(de::Unexpected::Seq, &self));
        }
        let mut content = vec![];
        while let Some(b) = seq.next_element::<u8>()? {
            content.push(b);
        }
        Ok(Probe { content, offered: false })
    }
}

/// Probes a deserializer with the hint the Hip type of `kind` uses.
fn probe<'de, D: Deserializer<'de>>(kind: K, d: D) -> Result<Probe, D::Error> {
    match kind {
        K::Byt => d.deserialize_bytes(ProbeVisitor { strings_only: false }),
        _ => d.deserialize_str(ProbeVisitor { strings_only: true }),
    }
}

// ---------------------------------------------------------------------------------------------
// The four Hip types behind one interface (for a fixed backend), and their std counterparts
// ---------------------------------------------------------------------------------------------

/// Memory monitor on the raw bytes of a value (hooks `verif_owner_info`): a heap-backed value's
/// view must lie inside its owner's block and the owner's length must not exceed its capacity.
/// Returns `""` or a `" !mem…"` marker.  Must be called BEFORE the content is read.
fn mem_monitor<B: Backend>(raw: &HipByt<'_, B>) -> String {
    if let Some((ptr, vlen, vcap, _inner, _count)) = raw.verif_owner_info() {
        let p = raw.as_ptr() as usize;
        if vlen > vcap {
            return format!(" !mem:owner-len={vlen}>cap={vcap}");
        }
        if p < ptr || p + raw.len() > ptr + vcap {
            return format!(" !mem:view-outside-block(len={},cap={vcap})", raw.len());
        }
    }
    String::new()
}

trait Hip<'a>: Sized + Serialize + fmt::Debug + PartialEq {
    const KIND: K;
    /// owned value with the given content (must be UTF-8 for `HipStr`)
    fn make(v: &[u8]) -> Self;
    /// value borrowing `v` (must be UTF-8 for `HipStr`)
    fn make_borrowed(v: &'a [u8]) -> Self;
    /// memory monitor on the raw bytes (`""` when fine)
    fn monitor(&self) -> String;
    /// the raw bytes (through `verif_bytes()`, never through `as_str()`); empty when the
    /// memory monitor fires (the content must not be read then)
    fn content(&self) -> Vec<u8>;
    fn borrowed(&self) -> bool;
    fn ptr(&self) -> *const u8;
    fn de<D: Deserializer<'a>>(d: D) -> Result<Self, D::Error>;
    fn de_in_place<D: Deserializer<'a>>(d: D, slot: &mut Self) -> Result<(), D::Error>;
    /// `borrow_deserialize` of the type's serde module (`None`: the type has none)
    fn de_borrow<D: Deserializer<'a>>(d: D) -> Option<Result<Self, D::Error>>;
}

impl<'a, B: Backend> Hip<'a> for HipByt<'a, B> {
    const KIND: K = K::Byt;
    fn de<D: Deserializer<'a>>(d: D) -> Result<Self, D::Error> {
        <Self as Deserialize<'a>>::deserialize(d)
    }
    fn de_in_place<D: Deserializer<'a>>(d: D, slot: &mut Self) -> Result<(), D::Error> {
        <Self as Deserialize<'a>>::deserialize_in_place(d, slot)
    }
    fn make(v: &[u8]) -> Self {
        HipByt::from(v)
    }
    fn make_borrowed(v: &'a [u8]) -> Self {
        HipByt::borrowed(v)
    }
    fn monitor(&self) -> String {
        mem_monitor(self)
    }
    fn content(&self) -> Vec<u8> {
        if mem_monitor(self).is_empty() { self.as_slice().to_vec() } else { vec![] }
    }
    fn borrowed(&self) -> bool {
        self.is_borrowed()
    }
    fn ptr(&self) -> *const u8 {
        self.as_ptr()
    }
    fn de_borrow<D: Deserializer<'a>>(d: D) -> Option<Result<Self, D::Error>> {
        Some(hipstr::bytes::serde::borrow_deserialize(d))
    }
}

impl<'a, B: Backend> Hip<'a> for HipStr<'a, B> {
    const KIND: K = K::Str;
    fn de<D: Deserializer<'a>>(d: D) -> Result<Self, D::Error> {
        <Self as Deserialize<'a>>::deserialize(d)
    }
    fn de_in_place<D: Deserializer<'a>>(d: D, slot: &mut Self) -> Result<(), D::Error> {
        <Self as Deserialize<'a>>::deserialize_in_place(d, slot)
    }
    fn make(v: &[u8]) -> Self {
        HipStr::from(std::str::from_utf8(v).expect("utf8 value"))
    }
    fn make_borrowed(v: &'a [u8]) -> Self {
        HipStr::borrowed(std::str::from_utf8(v).expect("utf8 value"))
    }
    fn monitor(&self) -> String {
        mem_monitor(self.verif_bytes())
    }
    fn content(&self) -> Vec<u8> {
        self.verif_bytes().content()
    }
    fn borrowed(&self) -> bool {
        self.is_borrowed()
    }
    fn ptr(&self) -> *const u8 {
        self.verif_bytes().as_ptr()
    }
    fn de_borrow<D: Deserializer<'a>>(d: D) -> Option<Result<Self, D::Error>> {
        Some(hipstr::string::serde::borrow_deserialize(d))
    }
}

impl<'a, B: Backend> Hip<'a> for HipOsStr<'a, B> {
    const KIND: K = K::Os;
    fn de<D: Deserializer<'a>>(d: D) -> Result<Self, D::Error> {
        <Self as Deserialize<'a>>::deserialize(d)
    }
    fn de_in_place<D: Deserializer<'a>>(d: D, slot: &mut Self) -> Result<(), D::Error> {
        <Self as Deserialize<'a>>::deserialize_in_place(d, slot)
    }
    fn make(v: &[u8]) -> Self {
        HipOsStr::from(OsStr::from_bytes(v))
    }
    fn make_borrowed(v: &'a [u8]) -> Self {
        HipOsStr::borrowed(OsStr::from_bytes(v))
    }
    fn monitor(&self) -> String {
        mem_monitor(self.verif_bytes())
    }
    fn content(&self) -> Vec<u8> {
        self.verif_bytes().content()
    }
    fn borrowed(&self) -> bool {
        self.is_borrowed()
    }
    fn ptr(&self) -> *const u8 {
        self.verif_bytes().as_ptr()
    }
    fn de_borrow<D: Deserializer<'a>>(_d: D) -> Option<Result<Self, D::Error>> {
        None
    }
}

impl<'a, B: Backend> Hip<'a> for HipPath<'a, B> {
    const KIND: K = K::Path;
    fn de<D: Deserializer<'a>>(d: D) -> Result<Self, D::Error> {
        <Self as Deserialize<'a>>::deserialize(d)
    }
    fn de_in_place<D: Deserializer<'a>>(d: D, slot: &mut Self) -> Result<(), D::Error> {
        <Self as Deserialize<'a>>::deserialize_in_place(d, slot)
    }
    fn make(v: &[u8]) -> Self {
        HipPath::from(Path::new(OsStr::from_bytes(v)))
    }
    fn make_borrowed(v: &'a [u8]) -> Self {
        HipPath::borrowed(Path::new(OsStr::from_bytes(v)))
    }
    fn monitor(&self) -> String {
        mem_monitor(self.verif_bytes())
    }
    fn content(&self) -> Vec<u8> {
        self.verif_bytes().content()
    }
    fn borrowed(&self) -> bool {
        self.is_borrowed()
    }
    fn ptr(&self) -> *const u8 {
        self.verif_bytes().as_ptr()
    }
    fn de_borrow<D: Deserializer<'a>>(d: D) -> Option<Result<Self, D::Error>> {
        Some(hipstr::path::serde::borrow_deserialize(d))
    }
}

/// Calls `$f::<HipX<'_, B>>(args)` for the given kind and backend.
macro_rules! dispatch {
    ($kind:expr, $be:expr, $f:ident ( $($arg:expr),* )) => {
        match ($kind, $be) {
            (K::Byt, Be::Arc) => $f::<HipByt<'_, Arc>>($($arg),*),
            (K::Byt, Be::Rc) => $f::<HipByt<'_, Rc>>($($arg),*),
            (K::Byt, Be::Unique) => $f::<HipByt<'_, Unique>>($($arg),*),
            (K::Str, Be::Arc) => $f::<HipStr<'_, Arc>>($($arg),*),
            (K::Str, Be::Rc) => $f::<HipStr<'_, Rc>>($($arg),*),
            (K::Str, Be::Unique) => $f::<HipStr<'_, Unique>>($($arg),*),
            (K::Os, Be::Arc) => $f::<HipOsStr<'_, Arc>>($($arg),*),
            (K::Os, Be::Rc) => $f::<HipOsStr<'_, Rc>>($($arg),*),
            (K::Os, Be::Unique) => $f::<HipOsStr<'_, Unique>>($($arg),*),
            (K::Path, Be::Arc) => $f::<HipPath<'_, Arc>>($($arg),*),
            (K::Path, Be::Rc) => $f::<HipPath<'_, Rc>>($($arg),*),
            (K::Path, Be::Unique) => $f::<HipPath<'_, Unique>>($($arg),*),
        }
    };
}

/// The std counterpart of a Hip value.
#[derive(Debug, Clone, PartialEq)]
enum StdVal {
    Bytes(Vec<u8>),
    Str(String),
    Os(OsString),
    Path(PathBuf),
}

impl StdVal {
    fn make(kind: K, v: &[u8]) -> StdVal {
        match kind {
            K::Byt => StdVal::Bytes(v.to_vec()),
            K::Str => StdVal::Str(String::from_utf8(v.to_vec()).expect("utf8 value")),
            K::Os => StdVal::Os(OsString::from_vec(v.to_vec())),
            K::Path => StdVal::Path(PathBuf::from(OsString::from_vec(v.to_vec()))),
        }
    }
    fn content(&self) -> Vec<u8> {
        match self {
            StdVal::Bytes(b) => b.clone(),
            StdVal::Str(s) => s.as_bytes().to_vec(),
            StdVal::Os(o) => o.as_bytes().to_vec(),
            StdVal::Path(p) => p.as_os_str().as_bytes().to_vec(),
        }
    }
    fn de<'de, D: Deserializer<'de>>(kind: K, d: D) -> Result<StdVal, D::Error> {
        Ok(match kind {
            K::Byt => StdVal::Bytes(<Vec<u8> as Deserialize>::deserialize(d)?),
            K::Str => StdVal::Str(<String as Deserialize>::deserialize(d)?),
            K::Os => StdVal::Os(<OsString as Deserialize>::deserialize(d)?),
            K::Path => StdVal::Path(<PathBuf as Deserialize>::deserialize(d)?),
        })
    }
}

impl Serialize for StdVal {
    fn serialize<S: Serializer>(&self, s: S) -> Result<S::Ok, S::Error> {
        match self {
            StdVal::Bytes(b) => Serialize::serialize(b.as_slice(), s),
            StdVal::Str(x) => Serialize::serialize(x.as_str(), s),
            StdVal::Os(o) => Serialize::serialize(o.as_os_str(), s),
            StdVal::Path(p) => Serialize::serialize(p.as_path(), s),
        }
    }
}

fn utf8_monitor(kind: K, content: &[u8]) -> &'static str {
    if matches!(kind, K::Str) && std::str::from_utf8(content).is_err() {
        " !utf8"
    } else {
        ""
    }
}

// ---------------------------------------------------------------------------------------------
// borsh
// ---------------------------------------------------------------------------------------------

fn borsh_err_class(e: &borsh::io::Error) -> &'static str {
    let msg = e.to_string();
    if msg.contains("Unexpected length of input") {
        "eof"
    } else if e.kind() == borsh::io::ErrorKind::InvalidData {
        "invalid"
    } else {
        "other"
    }
}

fn borsh_de_impl<B: Backend>(kind: K, input: &[u8]) -> Obs {
    let mut rd: &[u8] = input;
    let (line, maxalloc) = match kind {
        K::Str => {
            let (r, m) = measure(|| HipStr::<B>::deserialize_reader(&mut rd));
            (
                match r {
                    Ok(h) => {
                        let c = Hip::content(&h);
                        format!("ok {} rest={}{}{}", hex(&c), hex(rd), utf8_monitor(K::Str, &c), Hip::monitor(&h))
                    }
                    Err(e) => format!("err {}", borsh_err_class(&e)),
                },
                m,
            )
        }
        _ => {
            let (r, m) = measure(|| HipByt::<B>::deserialize_reader(&mut rd));
            (
                match r {
                    Ok(h) => format!("ok {} rest={}{}", hex(&Hip::content(&h)), hex(rd), Hip::monitor(&h)),
                    Err(e) => format!("err {}", borsh_err_class(&e)),
                },
                m,
            )
        }
    };
    Obs { line, maxalloc }
}

fn borsh_de_std(kind: K, input: &[u8]) -> String {
    let mut rd: &[u8] = input;
    match kind {
        K::Str => match String::deserialize_reader(&mut rd) {
            Ok(s) => format!("ok {} rest={}", hex(s.as_bytes()), hex(rd)),
            Err(e) => format!("err {}", borsh_err_class(&e)),
        },
        _ => match Vec::<u8>::deserialize_reader(&mut rd) {
            Ok(v) => format!("ok {} rest={}", hex(&v), hex(rd)),
            Err(e) => format!("err {}", borsh_err_class(&e)),
        },
    }
}

fn borsh_ser_impl<B: Backend>(kind: K, v: &[u8]) -> Obs {
    let mut out = vec![];
    let r = match kind {
        K::Str => BorshSerialize::serialize(&HipStr::<B>::from(std::str::from_utf8(v).expect("utf8 value")), &mut out),
        _ => BorshSerialize::serialize(&HipByt::<B>::from(v), &mut out),
    };
    Obs { line: if r.is_ok() { hex(&out) } else { "err".into() }, maxalloc: 0 }
}

fn borsh_ser_std(kind: K, v: &[u8]) -> String {
    let mut out = vec![];
    let r = match kind {
        K::Str => BorshSerialize::serialize(std::str::from_utf8(v).expect("utf8 value"), &mut out),
        _ => BorshSerialize::serialize(&v.to_vec(), &mut out),
    };
    if r.is_ok() {
        hex(&out)
    } else {
        "err".into()
    }
}

// ---------------------------------------------------------------------------------------------
// serde: one visitor call, Serialize, bstr
// ---------------------------------------------------------------------------------------------

fn visit_line<'a, H: Hip<'a>>(r: Result<H, OcErr>, data: &[u8]) -> String {
    match r {
        Ok(h) => {
            let c = h.content();
            let mut s = format!("ok {} borrowed={}{}{}", hex(&c), h.borrowed() as u8, utf8_monitor(H::KIND, &c), h.monitor());
            if matches!(H::KIND, K::Path) && std::str::from_utf8(&c).is_err() {
                s.push_str(" !utf8");
            }
            if h.borrowed() && !data.is_empty() && h.ptr() != data.as_ptr() {
                s.push_str(" !ptr");
            }
            s
        }
        Err(e) => format!("err {}", e.0.name()),
    }
}

fn visit_impl<'a, H: Hip<'a>>(borrowing: bool, d: OneCall<'a>) -> Obs {
    let (r, maxalloc) = measure(|| if borrowing { H::de_borrow(d).expect("entry exists") } else { H::de(d) });
    Obs { line: visit_line::<H>(r, d.data), maxalloc }
}

fn visit_std(kind: K, d: OneCall) -> String {
    match StdVal::de(kind, d) {
        Ok(v) => format!("ok {}", hex(&v.content())),
        Err(e) => format!("err {}", e.0.name()),
    }
}

fn ser_impl<'a, H: Hip<'a>>(v: &[u8]) -> Obs {
    let h = H::make(v);
    Obs { line: Rec::line(&h.serialize(RecSer)), maxalloc: 0 }
}

fn ser_std(kind: K, v: &[u8]) -> String {
    Rec::line(&StdVal::make(kind, v).serialize(RecSer))
}

fn bstr_impl<B: Backend>(src: &str, kind: K, v: &[u8]) -> Obs {
    use bstr::{BStr, BString};
    use std::borrow::Cow;
    match kind {
        K::Str => {
            // the owned source is built outside the measured region
            let owned = BString::from(v);
            let (r, maxalloc): (Result<HipStr<B>, ()>, usize) = match src {
                "bstr_ref" => measure(|| HipStr::try_from(BStr::new(v)).map_err(|_| ())),
                "bstring" => measure(move || HipStr::try_from(owned).map_err(|_| ())),
                _ => return Obs { line: "err no_impl".to_string(), maxalloc: 0 },
            };
            let line = match r {
                Ok(h) => format!(
                    "ok {} borrowed={}{}{}",
                    hex(h.as_bytes()),
                    h.is_borrowed() as u8,
                    utf8_monitor(K::Str, h.as_bytes()),
                    if h.is_borrowed() && !v.is_empty() && h.as_ptr() != v.as_ptr() { " !ptr" } else { "" }
                ),
                Err(()) => "err invalid_value".into(),
            };
            Obs { line, maxalloc }
        }
        _ => {
            let owned = BString::from(v);
            let (h, maxalloc): (HipByt<B>, usize) = match src {
                "bstr_ref" => measure(|| HipByt::from(BStr::new(v))),
                "bstring" => measure(move || HipByt::from(owned)),
                "cow_borrowed" => measure(|| HipByt::from(Cow::Borrowed(BStr::new(v)))),
                _ => measure(move || HipByt::from(Cow::<BStr>::Owned(owned))),
            };
            // and back out again
            let back: BString = h.clone().into();
            let line = format!(
                "ok {} borrowed={}{}{}",
                hex(h.as_slice()),
                h.is_borrowed() as u8,
                if h.is_borrowed() && !v.is_empty() && h.as_ptr() != v.as_ptr() { " !ptr" } else { "" },
                if back.as_slice() != v { " !back" } else { "" }
            );
            Obs { line, maxalloc }
        }
    }
}

/// std oracle of a bstr conversion: the bytes, or an error when a string is asked of non-UTF-8.
fn bstr_std(src: &str, kind: K, v: &[u8]) -> String {
    if kind == K::Str && !(src == "bstr_ref" || src == "bstring") {
        return "err no_impl".into();
    }
    if kind == K::Str && String::from_utf8(v.to_vec()).is_err() {
        return "err invalid_value".into();
    }
    format!("ok {}", hex(v))
}

// ---------------------------------------------------------------------------------------------
// serde_json
// ---------------------------------------------------------------------------------------------

use serde::de::DeserializeOwned;
use serde_json::Value;

/// Monitor marker when a deserialisation call requested more than the bound allows.
fn alloc_marker(maxalloc: usize, input_len: usize) -> String {
    if maxalloc > 4096 + 2 * input_len + SLACK {
        format!(" !alloc={maxalloc}/{input_len}")
    } else {
        String::new()
    }
}

fn json_rt_impl<'a, H: Hip<'a> + DeserializeOwned>(v: &[u8]) -> Obs {
    let h = H::make(v);
    let std = StdVal::make(H::KIND, v);
    let ser = serde_json::to_string(&h);
    let std_ser = serde_json::to_string(&std);
    let mut marks = String::new();
    let mut maxalloc = 0;
    let mut de_hip = |js: &str, expect_eq: bool| -> String {
        let (r, m) = measure(|| serde_json::from_str::<H>(js));
        maxalloc = maxalloc.max(m);
        marks.push_str(&alloc_marker(m, js.len()));
        match r {
            Ok(x) => {
                if expect_eq && x != h {
                    marks.push_str(" !ne");
                }
                if x.borrowed() {
                    marks.push_str(" !owned-entry-borrowed");
                }
                hex(&x.content())
            }
            Err(_) => "err".into(),
        }
    };
    let line = match (&ser, &std_ser) {
        (Ok(js), Ok(sjs)) => {
            let de = de_hip(js, true);
            let de_std = de_hip(sjs, true);
            let std_reads = match serde_json::from_str::<Value>(js).ok().map(|_| {
                let mut d = serde_json::Deserializer::from_str(js);
                StdVal::de(H::KIND, &mut d)
            }) {
                Some(Ok(x)) => hex(&x.content()),
                _ => "err".into(),
            };
            let de_str = match (H::KIND, std::str::from_utf8(v)) {
                (K::Byt, Ok(s)) => de_hip(&serde_json::to_string(s).expect("string to json"), true),
                _ => "-".into(),
            };
            format!("ser={} de={de} de_std={de_std} std_reads={std_reads} de_str={de_str}", hex(js.as_bytes()))
        }
        (Err(_), _) => "ser=err de=- de_std=- std_reads=- de_str=-".to_string(),
        (Ok(js), Err(_)) => format!("ser={} (std: err)", hex(js.as_bytes())),
    };
    Obs { line: line + &marks, maxalloc }
}

fn json_rt_std(kind: K, v: &[u8]) -> String {
    let std = StdVal::make(kind, v);
    match serde_json::to_string(&std) {
        Ok(sjs) => {
            let de_str = if kind == K::Byt && std::str::from_utf8(v).is_ok() { hex(v) } else { "-".into() };
            format!("ser={} de={h} de_std={h} std_reads={h} de_str={de_str}", hex(sjs.as_bytes()), h = hex(v))
        }
        Err(_) => "ser=err de=- de_std=- std_reads=- de_str=-".into(),
    }
}

fn json_de_impl<'a, H: Hip<'a> + DeserializeOwned>(text: &[u8]) -> Obs {
    let (r, maxalloc) = measure(|| serde_json::from_slice::<H>(text));
    let line = match r {
        Ok(h) => {
            let c = h.content();
            format!("ok {}{}", hex(&c), utf8_monitor(H::KIND, &c))
        }
        Err(_) => "err".into(),
    };
    Obs { line: line + &alloc_marker(maxalloc, text.len()), maxalloc }
}

/// What the std counterpart makes of the same JSON text.  `HipByt` asks for a byte string
/// (`deserialize_bytes`), for which serde_json also hands out JSON strings — including raw
/// non-UTF-8 bytes between the quotes — so its oracle is the probe with the same hint; it must
/// in addition agree with `Vec<u8>` whenever `Vec<u8>` accepts.
fn json_de_std(kind: K, text: &[u8]) -> String {
    let r = match kind {
        K::Byt => {
            let mut d = serde_json::Deserializer::from_slice(text);
            let p = probe(K::Byt, &mut d).and_then(|p| d.end().map(|_| p.content));
            if let (Ok(v), Ok(pv)) = (serde_json::from_slice::<Vec<u8>>(text), &p) {
                if &v != pv {
                    return format!("oracle-split vec={} probe={}", hex(&v), hex(pv));
                }
            }
            p
        }
        K::Str => serde_json::from_slice::<String>(text).map(String::into_bytes),
        K::Os => serde_json::from_slice::<OsString>(text).map(OsString::into_vec),
        K::Path => serde_json::from_slice::<PathBuf>(text).map(|p| p.into_os_string().into_vec()),
    };
    match r {
        Ok(v) => format!("ok {}", hex(&v)),
        Err(_) => "err".into(),
    }
}

fn borrow_line<'a, H: Hip<'a>, E>(r: Result<H, E>, src: Option<&[u8]>) -> String {
    match r {
        Ok(h) => {
            let c = h.content();
            let mut s = format!("ok {} borrowed={}{}", hex(&c), h.borrowed() as u8, utf8_monitor(H::KIND, &c));
            if let (true, Some(src)) = (h.borrowed() && !c.is_empty(), src) {
                let p = h.ptr() as usize;
                let lo = src.as_ptr() as usize;
                if p < lo || p + c.len() > lo + src.len() {
                    s.push_str(" !ptr");
                }
            }
            s
        }
        Err(_) => "err".into(),
    }
}

fn json_borrow_impl<'a, H: Hip<'a>>(text: &'a [u8], value: Option<&'a Value>) -> Obs {
    let mut marks = String::new();
    let (slice, m) = measure(|| {
        let mut d = serde_json::Deserializer::from_slice(text);
        let r = H::de_borrow(&mut d).expect("entry exists");
        match (r, d.end()) {
            (Ok(h), Ok(())) => Ok(h),
            (Err(e), _) | (_, Err(e)) => Err(e),
        }
    });
    marks.push_str(&alloc_marker(m, text.len()));
    let mut line = format!("slice:{}", borrow_line::<H, _>(slice, Some(text)));
    if let Some(v) = value {
        let owned = v.clone();
        let (r, m2) = measure(|| H::de_borrow(owned).expect("entry exists"));
        marks.push_str(&alloc_marker(m2, text.len()));
        line.push_str(&format!(" value:{}", borrow_line::<H, _>(r, None)));
        let (r, m3) = measure(|| H::de_borrow(v).expect("entry exists"));
        marks.push_str(&alloc_marker(m3, text.len()));
        line.push_str(&format!(" ref:{}", borrow_line::<H, _>(r, None)));
    }
    Obs { line: line + &marks, maxalloc: m }
}

fn probe_line<E>(r: Result<Probe, E>) -> String {
    match r {
        Ok(p) => format!("ok {} borrowed={}", hex(&p.content), p.offered as u8),
        Err(_) => "err".into(),
    }
}

/// The format-side oracle: borrowed iff the format offered borrowed data.
fn json_borrow_std(kind: K, text: &[u8], value: Option<&Value>) -> String {
    let mut d = serde_json::Deserializer::from_slice(text);
    let r = probe(kind, &mut d);
    let r = match (r, d.end()) {
        (Ok(p), Ok(())) => Ok(p),
        (Err(e), _) | (_, Err(e)) => Err(e),
    };
    let mut line = format!("slice:{}", probe_line(r));
    if let Some(v) = value {
        line.push_str(&format!(" value:{}", probe_line(probe(kind, v.clone()))));
        line.push_str(&format!(" ref:{}", probe_line(probe(kind, v))));
    }
    line
}

// ---------------------------------------------------------------------------------------------
// serde_test token streams
// ---------------------------------------------------------------------------------------------

fn leak_bytes(v: &[u8]) -> &'static [u8] {
    Box::leak(v.to_vec().into_boxed_slice())
}

fn leak_str(v: &[u8]) -> &'static str {
    Box::leak(String::from_utf8(v.to_vec()).expect("utf8").into_boxed_str())
}

fn seq_tokens(v: &[u8]) -> Vec<serde_test::Token> {
    use serde_test::Token;
    let mut t = vec![Token::Seq { len: Some(v.len()) }];
    t.extend(v.iter().map(|b| Token::U8(*b)));
    t.push(Token::SeqEnd);
    t
}

fn tokens_impl<'a, H: Hip<'a> + DeserializeOwned>(v: &[u8]) -> Obs {
    use serde_test::{assert_de_tokens, assert_ser_tokens, Token};
    let h = H::make(v);
    let std = StdVal::make(H::KIND, v);
    let utf8 = std::str::from_utf8(v).is_ok();
    let mut fails: Vec<&str> = vec![];
    let mut run = |name: &'static str, f: &dyn Fn()| {
        if catch_unwind(AssertUnwindSafe(f)).is_err() {
            fails.push(name);
        }
    };
    let strs = |v: &[u8]| {
        vec![
            ("de_str", vec![Token::Str(leak_str(v))]),
            ("de_string", vec![Token::String(leak_str(v))]),
            ("de_borrowed_str", vec![Token::BorrowedStr(leak_str(v))]),
        ]
    };
    let byts = |v: &[u8]| {
        vec![
            ("de_bytes", vec![Token::Bytes(leak_bytes(v))]),
            ("de_byte_buf", vec![Token::ByteBuf(leak_bytes(v))]),
            ("de_borrowed_bytes", vec![Token::BorrowedBytes(leak_bytes(v))]),
        ]
    };
    match H::KIND {
        K::Byt => {
            run("ser", &|| assert_ser_tokens(&h, &[Token::Bytes(leak_bytes(v))]));
            run("std_ser", &|| assert_ser_tokens(&std, &seq_tokens(v)));
            let mut streams = byts(v);
            streams.push(("de_seq", seq_tokens(v)));
            if utf8 {
                streams.extend(strs(v));
            }
            for (name, toks) in streams {
                run(name, &|| assert_de_tokens(&h, &toks));
            }
        }
        K::Str | K::Path => {
            if !utf8 {
                return Obs { line: "skip".into(), maxalloc: 0 };
            }
            run("ser", &|| assert_ser_tokens(&h, &[Token::Str(leak_str(v))]));
            run("std_ser", &|| assert_ser_tokens(&std, &[Token::Str(leak_str(v))]));
            let mut streams = strs(v);
            streams.extend(byts(v));
            for (name, toks) in streams {
                run(name, &|| assert_de_tokens(&h, &toks));
            }
            // like `String`/`PathBuf`, a sequence of `u8` is NOT a string
            let seq = seq_tokens(v);
            if catch_unwind(AssertUnwindSafe(|| assert_de_tokens(&h, &seq))).is_ok() {
                fails.push("seq_accepted");
            }
            let twin = String::from_utf8(v.to_vec()).expect("utf8");
            if catch_unwind(AssertUnwindSafe(|| assert_de_tokens(&twin, &seq))).is_ok() {
                fails.push("std_seq_accepted");
            }
        }
        K::Os => {
            let mut toks = vec![Token::NewtypeVariant { name: "OsString", variant: "Unix" }];
            toks.extend(seq_tokens(v));
            run("ser", &|| assert_ser_tokens(&h, &toks));
            run("std_ser", &|| assert_ser_tokens(&std, &toks));
            run("de", &|| assert_de_tokens(&h, &toks));
        }
    }
    let line = if fails.is_empty() { "ok".to_string() } else { format!("fail={}", fails.join(",")) };
    Obs { line, maxalloc: 0 }
}

// ---------------------------------------------------------------------------------------------
// Round 2: borsh I/O adversaries
// ---------------------------------------------------------------------------------------------

/// A `borsh::io::Read` over a fixed stream that is legal but unhelpful:
/// * `chunk<k>`: at most `k` bytes per call (never `Ok(0)` before the end);
/// * `intr<k>` : every other call fails with `ErrorKind::Interrupted` (to be retried), the
///               others deliver at most `k` bytes;
/// * `over`    : fills the buffer but, for buffers of 16 bytes or more, REPORTS 8 bytes more
///               than the buffer holds (std: callers must not rely on `n <= buf.len()` for
///               memory safety).
struct AdvReader<'a> {
    data: &'a [u8],
    pos: usize,
    chunk: usize,
    interrupt: bool,
    over: bool,
    calls: usize,
}

impl<'a> AdvReader<'a> {
    fn new(adv: &str, data: &'a [u8]) -> AdvReader<'a> {
        let num = |p: &str| adv.strip_prefix(p).and_then(|n| n.parse::<usize>().ok());
        let (chunk, interrupt, over) = if let Some(k) = num("chunk") {
            (k, false, false)
        } else if let Some(k) = num("intr") {
            (k, true, false)
        } else {
            (usize::MAX, false, adv == "over")
        };
        AdvReader { data, pos: 0, chunk, interrupt, over, calls: 0 }
    }
}

impl borsh::io::Read for AdvReader<'_> {
    fn read(&mut self, buf: &mut [u8]) -> borsh::io::Result<usize> {
        self.calls += 1;
        if self.interrupt && self.calls % 2 == 1 {
            return Err(borsh::io::ErrorKind::Interrupted.into());
        }
        let n = buf.len().min(self.chunk).min(self.data.len() - self.pos);
        buf[..n].copy_from_slice(&self.data[self.pos..self.pos + n]);
        self.pos += n;
        if self.over && buf.len() >= 16 && n == buf.len() {
            return Ok(n + 8);
        }
        Ok(n)
    }
}

/// A `borsh::io::Write` that accepts at most `k` bytes per call (`accept<k>`), interrupts every
/// other call (`intr<k>`), or has a fixed capacity (`fixed…`: `Ok(0)` once full).
struct AdvWriter {
    out: Vec<u8>,
    accept: usize,
    interrupt: bool,
    capacity: usize,
    calls: usize,
}

impl borsh::io::Write for AdvWriter {
    fn write(&mut self, buf: &[u8]) -> borsh::io::Result<usize> {
        self.calls += 1;
        if self.interrupt && self.calls % 2 == 1 {
            return Err(borsh::io::ErrorKind::Interrupted.into());
        }
        let n = buf.len().min(self.accept).min(self.capacity - self.out.len());
        self.out.extend_from_slice(&buf[..n]);
        Ok(n)
    }
    fn flush(&mut self) -> borsh::io::Result<()> {
        Ok(())
    }
}

const IO_MARK: u32 = 0xDEAD_BEEF;

/// Bytes of the tuple `(v, IO_MARK, v)` as std's `Vec<u8>`/`str` write it.
fn io_stream(v: &[u8]) -> Vec<u8> {
    let mut s = le32(v.len() as u32, v);
    s.extend_from_slice(&IO_MARK.to_le_bytes());
    s.extend_from_slice(&le32(v.len() as u32, v));
    s
}

fn io_err_line(e: &borsh::io::Error, field: usize) -> String {
    let k = match e.kind() {
        borsh::io::ErrorKind::Interrupted => "interrupted",
        borsh::io::ErrorKind::WriteZero => "write_zero",
        borsh::io::ErrorKind::UnexpectedEof => "unexpected_eof",
        _ => borsh_err_class(e),
    };
    format!("err {k} field={field}")
}

/// One field read through the adversary: its raw content and the monitor markers.
type Field = (Vec<u8>, String);

/// Reads `(T, u32, T)` through the adversary with `read_one`; formatting happens afterwards so
/// that the measured allocations are the reader's own.
fn io_de_with<'d>(
    adv: &str,
    stream: &'d [u8],
    read_one: &mut dyn FnMut(&mut AdvReader<'d>) -> Result<Field, borsh::io::Error>,
) -> (Result<(Field, u32, Field, usize), (usize, borsh::io::Error)>, usize) {
    measure(|| {
        let mut rd = AdvReader::new(adv, stream);
        let a = read_one(&mut rd).map_err(|e| (0, e))?;
        let m = u32::deserialize_reader(&mut rd).map_err(|e| (1, e))?;
        let b = read_one(&mut rd).map_err(|e| (2, e))?;
        Ok((a, m, b, stream.len() - rd.pos))
    })
}

fn io_de_line(r: Result<(Field, u32, Field, usize), (usize, borsh::io::Error)>) -> String {
    match r {
        Ok((a, m, b, unread)) => format!("ok {}{} {m:08x} {}{} unread={unread}", hex(&a.0), a.1, hex(&b.0), b.1),
        Err((f, e)) => io_err_line(&e, f),
    }
}

fn borsh_io_de_impl<B: Backend>(kind: K, adv: &str, v: &[u8]) -> Obs {
    let stream = io_stream(v);
    let (r, maxalloc) = match kind {
        K::Str => io_de_with(adv, &stream, &mut |r| {
            HipStr::<B>::deserialize_reader(r).map(|h| {
                let mon = Hip::monitor(&h);
                let c = Hip::content(&h);
                let marks = format!("{}{mon}", utf8_monitor(K::Str, &c));
                (c, marks)
            })
        }),
        _ => io_de_with(adv, &stream, &mut |r| {
            HipByt::<B>::deserialize_reader(r).map(|h| {
                let mon = Hip::monitor(&h);
                (Hip::content(&h), mon)
            })
        }),
    };
    Obs { line: io_de_line(r), maxalloc }
}

/// The twin: `Vec<u8>`/`String` through the same adversary.  `Interrupted` is something
/// `read_exact` retries but borsh's bulk `Vec<u8>` reader does not: for the `intr` adversaries
/// the expectation is what the uninterrupted chunked reader delivers.
fn borsh_io_de_std(kind: K, adv: &str, v: &[u8]) -> String {
    let stream = io_stream(v);
    let adv = if let Some(k) = adv.strip_prefix("intr") { format!("chunk{k}") } else { adv.to_string() };
    let (r, _) = match kind {
        K::Str => io_de_with(&adv, &stream, &mut |r| String::deserialize_reader(r).map(|s| (s.into_bytes(), String::new()))),
        _ => io_de_with(&adv, &stream, &mut |r| Vec::<u8>::deserialize_reader(r).map(|s| (s, String::new()))),
    };
    io_de_line(r)
}

/// Serialises `(value, IO_MARK, value)` through the adversary; `ser_one(writer)` writes one value.
fn io_ser_run<W: borsh::io::Write>(w: &mut W, ser_one: &dyn Fn(&mut W) -> borsh::io::Result<()>) -> Result<(), (usize, borsh::io::Error)> {
    ser_one(w).map_err(|e| (0, e))?;
    BorshSerialize::serialize(&IO_MARK, w).map_err(|e| (1, e))?;
    ser_one(w).map_err(|e| (2, e))
}

fn io_ser_line(r: Result<(), (usize, borsh::io::Error)>, written: &[u8]) -> String {
    match r {
        Ok(()) => format!("ok {}", hex(written)),
        Err((f, e)) => format!("{} written={}", io_err_line(&e, f), hex(written)),
    }
}

/// Runs a serialisation of the tuple through the named write adversary.
fn io_ser_adv(adv: &str, v_len: usize, ser_adv: &dyn Fn(&mut AdvWriter) -> borsh::io::Result<()>, ser_slice: &dyn Fn(&mut &mut [u8]) -> borsh::io::Result<()>) -> String {
    let total = 2 * (4 + v_len) + 4;
    let num = |p: &str| adv.strip_prefix(p).and_then(|n| n.parse::<usize>().ok());
    if adv == "slice_short1" {
        // a real `&mut [u8]` that is one byte too small
        let mut buf = vec![0u8; total - 1];
        let r = {
            let mut w: &mut [u8] = &mut buf;
            let r = io_ser_run(&mut w, ser_slice);
            let left = w.len();
            (r, left)
        };
        let used = buf.len() - r.1;
        return io_ser_line(r.0, &buf[..used]);
    }
    let mut w = AdvWriter { out: vec![], accept: usize::MAX, interrupt: false, capacity: usize::MAX, calls: 0 };
    if let Some(k) = num("accept") {
        w.accept = k;
    } else if let Some(k) = num("intr") {
        w.accept = k;
        w.interrupt = true;
    } else if adv == "fixed_short1" {
        w.capacity = total - 1;
    } else if let Some(k) = num("fixed") {
        w.capacity = k;
    }
    let r = io_ser_run(&mut w, ser_adv);
    io_ser_line(r, &w.out)
}

fn borsh_io_ser_impl<B: Backend>(kind: K, adv: &str, v: &[u8]) -> Obs {
    let line = match kind {
        K::Str => {
            let h = HipStr::<B>::from(std::str::from_utf8(v).expect("utf8 value"));
            io_ser_adv(adv, v.len(), &|w| BorshSerialize::serialize(&h, w), &|w| BorshSerialize::serialize(&h, w))
        }
        _ => {
            let h = HipByt::<B>::from(v);
            io_ser_adv(adv, v.len(), &|w| BorshSerialize::serialize(&h, w), &|w| BorshSerialize::serialize(&h, w))
        }
    };
    Obs { line, maxalloc: 0 }
}

fn borsh_io_ser_std(kind: K, adv: &str, v: &[u8]) -> String {
    match kind {
        K::Str => {
            let s = std::str::from_utf8(v).expect("utf8 value");
            io_ser_adv(adv, v.len(), &|w| BorshSerialize::serialize(s, w), &|w| BorshSerialize::serialize(s, w))
        }
        _ => {
            let s = v.to_vec();
            io_ser_adv(adv, v.len(), &|w| BorshSerialize::serialize(&s, w), &|w| BorshSerialize::serialize(&s, w))
        }
    }
}

// ---------------------------------------------------------------------------------------------
// Round 2: deserialize_in_place
// ---------------------------------------------------------------------------------------------

fn in_place_line<'a, H: Hip<'a>, E>(r: Result<(), E>, slot: &H, class: impl Fn(&E) -> String) -> String {
    match r {
        Ok(()) => {
            let mon = slot.monitor();
            let c = slot.content();
            let mut s = format!("ok {}{}{mon}", hex(&c), utf8_monitor(H::KIND, &c));
            if matches!(H::KIND, K::Path) && std::str::from_utf8(&c).is_err() {
                s.push_str(" !utf8");
            }
            s
        }
        Err(e) => format!("err {}", class(&e)),
    }
}

fn in_place_impl<'a, H: Hip<'a>>(d: OneCall<'a>, old: &'a [u8], old_borrowed: bool) -> Obs {
    let mut slot = if old_borrowed { H::make_borrowed(old) } else { H::make(old) };
    let (r, maxalloc) = measure(|| H::de_in_place(d, &mut slot));
    let mut line = in_place_line(r, &slot, |e: &OcErr| e.0.name().to_string());
    // whatever happened, the slot must still be a sound value
    if line.starts_with("err") {
        line.push_str(&slot.monitor());
        let c = slot.content();
        line.push_str(utf8_monitor(H::KIND, &c));
    }
    Obs { line, maxalloc }
}

/// In-place on the std twin, pre-filled with the same old content.
fn in_place_std(kind: K, d: OneCall, old: &[u8]) -> String {
    fn run<'de, T: Deserialize<'de>>(d: OneCall<'de>, mut slot: T, content: impl Fn(&T) -> Vec<u8>) -> String {
        match T::deserialize_in_place(d, &mut slot) {
            Ok(()) => format!("ok {}", hex(&content(&slot))),
            Err(e) => format!("err {}", e.0.name()),
        }
    }
    match kind {
        K::Byt => run(d, old.to_vec(), |v: &Vec<u8>| v.clone()),
        K::Str => run(d, String::from_utf8(old.to_vec()).expect("utf8 old value"), |s: &String| s.as_bytes().to_vec()),
        K::Os => run(d, OsString::from_vec(old.to_vec()), |s: &OsString| s.as_bytes().to_vec()),
        K::Path => run(d, PathBuf::from(OsString::from_vec(old.to_vec())), |p: &PathBuf| p.as_os_str().as_bytes().to_vec()),
    }
}

fn json_in_place_impl<'a, H: Hip<'a>>(text: &'a [u8], old: &'a [u8], old_borrowed: bool) -> Obs {
    let mut slot = if old_borrowed { H::make_borrowed(old) } else { H::make(old) };
    let (r, maxalloc) = measure(|| {
        let mut d = serde_json::Deserializer::from_slice(text);
        H::de_in_place(&mut d, &mut slot).and_then(|()| d.end())
    });
    let line = in_place_line(r, &slot, |_e: &serde_json::Error| String::new()).trim_end().to_string();
    Obs { line, maxalloc }
}

fn json_in_place_std(kind: K, text: &[u8], old: &[u8]) -> String {
    fn run<'de, T: Deserialize<'de>>(text: &'de [u8], mut slot: T, content: impl Fn(&T) -> Vec<u8>) -> String {
        let mut d = serde_json::Deserializer::from_slice(text);
        match T::deserialize_in_place(&mut d, &mut slot).and_then(|()| d.end()) {
            Ok(()) => format!("ok {}", hex(&content(&slot))),
            Err(_) => "err".into(),
        }
    }
    match kind {
        K::Byt => run(text, old.to_vec(), |v: &Vec<u8>| v.clone()),
        K::Str => run(text, String::from_utf8(old.to_vec()).expect("utf8 old value"), |s: &String| s.as_bytes().to_vec()),
        K::Os => run(text, OsString::from_vec(old.to_vec()), |s: &OsString| s.as_bytes().to_vec()),
        K::Path => run(text, PathBuf::from(OsString::from_vec(old.to_vec())), |p: &PathBuf| p.as_os_str().as_bytes().to_vec()),
    }
}

// ---------------------------------------------------------------------------------------------
// Round 2: every data-model shape through serde's value deserializers
// ---------------------------------------------------------------------------------------------

/// Calls `f` with the `serde::de::value` deserializer of the named shape built from `data`.
macro_rules! with_shape {
    ($shape:expr, $data:expr, |$d:ident| $body:expr) => {{
        use serde::de::value as v;
        let data: &[u8] = $data;
        let first = data.first().copied().unwrap_or(0);
        let wide = u64::from_le_bytes({
            let mut b = [0u8; 8];
            for (i, x) in data.iter().take(8).enumerate() {
                b[i] = *x;
            }
            b
        });
        let text = || std::str::from_utf8(data).expect("utf8 case");
        match $shape {
            "bool" => { let $d = v::BoolDeserializer::<OcErr>::new(first & 1 == 1); $body }
            "i8" => { let $d = v::I8Deserializer::<OcErr>::new(first as i8); $body }
            "i16" => { let $d = v::I16Deserializer::<OcErr>::new(wide as i16); $body }
            "i32" => { let $d = v::I32Deserializer::<OcErr>::new(wide as i32); $body }
            "i64" => { let $d = v::I64Deserializer::<OcErr>::new(wide as i64); $body }
            "i128" => { let $d = v::I128Deserializer::<OcErr>::new(wide as i128); $body }
            "u8" => { let $d = v::U8Deserializer::<OcErr>::new(first); $body }
            "u16" => { let $d = v::U16Deserializer::<OcErr>::new(wide as u16); $body }
            "u32" => { let $d = v::U32Deserializer::<OcErr>::new(wide as u32); $body }
            "u64" => { let $d = v::U64Deserializer::<OcErr>::new(wide); $body }
            "u128" => { let $d = v::U128Deserializer::<OcErr>::new(wide as u128); $body }
            "f32" => { let $d = v::F32Deserializer::<OcErr>::new(wide as f32); $body }
            "f64" => { let $d = v::F64Deserializer::<OcErr>::new(wide as f64); $body }
            "char" => { let $d = v::CharDeserializer::<OcErr>::new(text().chars().next().expect("one char")); $body }
            "unit" => { let $d = v::UnitDeserializer::<OcErr>::new(); $body }
            "str" => { let tmp = text().to_string(); let $d = v::StrDeserializer::<OcErr>::new(&tmp); $body }
            "borrowed_str" => { let $d = v::BorrowedStrDeserializer::<OcErr>::new(text()); $body }
            "string" => { let $d = v::StringDeserializer::<OcErr>::new(text().to_string()); $body }
            "cow_str" => {
                let $d: v::CowStrDeserializer<OcErr> = std::borrow::Cow::Owned::<str>(text().to_string()).into_deserializer();
                $body
            }
            "bytes" => { let tmp = data.to_vec(); let $d = v::BytesDeserializer::<OcErr>::new(&tmp); $body }
            "borrowed_bytes" => { let $d = v::BorrowedBytesDeserializer::<OcErr>::new(data); $body }
            "seq_u8" => { let $d = v::SeqDeserializer::<_, OcErr>::new(data.iter().copied()); $body }
            "seq_u16" => { let $d = v::SeqDeserializer::<_, OcErr>::new(data.iter().map(|b| 256u16 + *b as u16)); $body }
            "seq_str" => { let t = text(); let $d = v::SeqDeserializer::<_, OcErr>::new([t, t].into_iter()); $body }
            "seq_empty" => { let $d = v::SeqDeserializer::<_, OcErr>::new(std::iter::empty::<u8>()); $body }
            "map" => { let t = text(); let $d = v::MapDeserializer::<_, OcErr>::new([(t, first)].into_iter()); $body }
            _ => { let $d = v::MapDeserializer::<_, OcErr>::new(std::iter::empty::<(u8, u8)>()); $body }
        }
    }};
}

fn shape_impl<'a, H: Hip<'a>>(borrowing: bool, shape: &str, data: &'a [u8]) -> Obs {
    let (r, maxalloc): (Result<H, OcErr>, usize) =
        with_shape!(shape, data, |d| measure(|| if borrowing { H::de_borrow(d).expect("entry exists") } else { H::de(d) }));
    // `borrowed=` is decided by the oracle only for the shapes that carry 'de data
    Obs { line: visit_line::<H>(r, data), maxalloc }
}

fn shape_std(kind: K, shape: &str, data: &[u8]) -> String {
    let r: Result<StdVal, OcErr> = with_shape!(shape, data, |d| StdVal::de(kind, d));
    match r {
        Ok(v) => format!("ok {}", hex(&v.content())),
        Err(e) => format!("err {}", e.0.name()),
    }
}

// ---------------------------------------------------------------------------------------------
// Round 3: hint-honouring / always-owned deserializers (bincode-like) and provenance
// ---------------------------------------------------------------------------------------------

/// A deserializer over one byte string that, like bincode 1.x, does what the HINT says:
/// `honour`: `deserialize_bytes` lends the input (`visit_borrowed_bytes`), `deserialize_byte_buf`
/// hands out a fresh `Vec`, `deserialize_str` lends (`visit_borrowed_str`), `deserialize_string`
/// hands out a fresh `String`; `owned`: every hint gets a fresh buffer.  `deserialize_seq`
/// presents the bytes as a sequence of `u8` (what `Vec<u8>` asks for); `deserialize_any` and
/// every other method fail (the format is not self-describing).  The first method called is
/// logged.
struct HintDe<'de, 'l> {
    data: &'de [u8],
    lend: bool,
    log: &'l std::cell::Cell<&'static str>,
}

impl HintDe<'_, '_> {
    fn note(&self, m: &'static str) {
        if self.log.get().is_empty() {
            self.log.set(m);
        }
    }
}

macro_rules! hint_refuse {
    ($($name:ident),*) => {
        $(fn $name<V: Visitor<'de>>(self, _v: V) -> Result<V::Value, OcErr> {
            self.note(stringify!($name));
            Err(OcErr(ErrClass::Custom))
        })*
    };
}

impl<'de> Deserializer<'de> for HintDe<'de, '_> {
    type Error = OcErr;

    fn deserialize_bytes<V: Visitor<'de>>(self, v: V) -> Result<V::Value, OcErr> {
        self.note("deserialize_bytes");
        if self.lend { v.visit_borrowed_bytes(self.data) } else { v.visit_byte_buf(self.data.to_vec()) }
    }
    fn deserialize_byte_buf<V: Visitor<'de>>(self, v: V) -> Result<V::Value, OcErr> {
        self.note("deserialize_byte_buf");
        v.visit_byte_buf(self.data.to_vec())
    }
    fn deserialize_str<V: Visitor<'de>>(self, v: V) -> Result<V::Value, OcErr> {
        self.note("deserialize_str");
        // like bincode, the format itself refuses bytes that are not UTF-8 where a string is due
        let s = std::str::from_utf8(self.data).map_err(|_| OcErr(ErrClass::InvalidValue))?;
        if self.lend { v.visit_borrowed_str(s) } else { v.visit_string(s.to_string()) }
    }
    fn deserialize_string<V: Visitor<'de>>(self, v: V) -> Result<V::Value, OcErr> {
        self.note("deserialize_string");
        let s = std::str::from_utf8(self.data).map_err(|_| OcErr(ErrClass::InvalidValue))?;
        v.visit_string(s.to_string())
    }
    fn deserialize_seq<V: Visitor<'de>>(self, v: V) -> Result<V::Value, OcErr> {
        self.note("deserialize_seq");
        v.visit_seq(SeqAcc { data: self.data, pos: 0, bad: false, hint: Some(self.data.len()) })
    }
    fn deserialize_unit_struct<V: Visitor<'de>>(self, _n: &'static str, _v: V) -> Result<V::Value, OcErr> {
        self.note("deserialize_unit_struct");
        Err(OcErr(ErrClass::Custom))
    }
    fn deserialize_newtype_struct<V: Visitor<'de>>(self, _n: &'static str, _v: V) -> Result<V::Value, OcErr> {
        self.note("deserialize_newtype_struct");
        Err(OcErr(ErrClass::Custom))
    }
    fn deserialize_tuple<V: Visitor<'de>>(self, _l: usize, _v: V) -> Result<V::Value, OcErr> {
        self.note("deserialize_tuple");
        Err(OcErr(ErrClass::Custom))
    }
    fn deserialize_tuple_struct<V: Visitor<'de>>(self, _n: &'static str, _l: usize, _v: V) -> Result<V::Value, OcErr> {
        self.note("deserialize_tuple_struct");
        Err(OcErr(ErrClass::Custom))
    }
    fn deserialize_struct<V: Visitor<'de>>(self, _n: &'static str, _f: &'static [&'static str], _v: V) -> Result<V::Value, OcErr> {
        self.note("deserialize_struct");
        Err(OcErr(ErrClass::Custom))
    }
    fn deserialize_enum<V: Visitor<'de>>(self, _n: &'static str, _f: &'static [&'static str], _v: V) -> Result<V::Value, OcErr> {
        self.note("deserialize_enum");
        Err(OcErr(ErrClass::Custom))
    }
    hint_refuse! {
        deserialize_any, deserialize_bool, deserialize_i8, deserialize_i16, deserialize_i32, deserialize_i64,
        deserialize_i128, deserialize_u8, deserialize_u16, deserialize_u32, deserialize_u64, deserialize_u128,
        deserialize_f32, deserialize_f64, deserialize_char, deserialize_option, deserialize_unit, deserialize_map,
        deserialize_identifier, deserialize_ignored_any
    }
}

/// `ok <hex> borrowed=<b> inside=<0|1> hint=<method>` | `err <class> hint=<method>`:
/// `inside` = the value's bytes lie inside the input buffer (pointer identity for a borrow).
fn hint_impl<'a, H: Hip<'a>>(borrowing: bool, mode: &str, data: &'a [u8]) -> Obs {
    let log = std::cell::Cell::new("");
    let d = HintDe { data, lend: mode == "honour", log: &log };
    let (r, maxalloc) = measure(|| if borrowing { H::de_borrow(d).expect("entry exists") } else { H::de(d) });
    let line = match r {
        Ok(h) => {
            let mon = h.monitor();
            let c = h.content();
            let p = h.ptr() as usize;
            let lo = data.as_ptr() as usize;
            let inside = !c.is_empty() && p >= lo && p + c.len() <= lo + data.len();
            let mut s = format!("ok {} borrowed={} inside={}{}{mon}", hex(&c), h.borrowed() as u8, inside as u8, utf8_monitor(H::KIND, &c));
            if matches!(H::KIND, K::Path) && std::str::from_utf8(&c).is_err() {
                s.push_str(" !utf8");
            }
            // a value that claims to borrow must be the caller's exact memory, and vice versa
            if !c.is_empty() && h.borrowed() != inside {
                s.push_str(" !provenance");
            }
            s
        }
        Err(e) => format!("err {}", e.0.name()),
    };
    // `hint=` is what the table speaks about (the exact method for a borrowing entry point, the
    // family for an owned one), `called=` the method actually logged
    let called = log.get();
    let entry = Entry { kind: H::KIND, borrowing };
    Obs { line: format!("{line} hint={} called={called}", hint_class(entry, called)), maxalloc }
}

/// The hint as the table sees it: exact for borrowing entry points, the family for owned ones.
fn hint_class(entry: Entry, called: &str) -> String {
    if entry.borrowing {
        return called.to_string();
    }
    match (entry.kind, called) {
        (K::Byt, "deserialize_bytes" | "deserialize_byte_buf") => "bytes-family".into(),
        (K::Str | K::Path, "deserialize_str" | "deserialize_string") => "str-family".into(),
        (K::Os, "deserialize_enum") => "std-os-string".into(),
        _ => called.to_string(),
    }
}

/// The hint table: the borrowing entry points must ask for the borrowable form; the owned ones
/// for a form of their family.
fn expected_hint(entry: Entry) -> &'static str {
    match (entry.kind, entry.borrowing) {
        (K::Byt, true) => "deserialize_bytes",
        (K::Str | K::Path, true) => "deserialize_str",
        (K::Byt, false) => "bytes-family",
        (K::Str | K::Path, false) => "str-family",
        (K::Os, _) => "std-os-string",
    }
}

/// Std twin through the same deserializer + the provenance rule: `borrow_deserialize` through a
/// hint-honouring format returns the input's own memory (`borrowed=1 inside=1`), everything
/// else an owned copy.
fn hint_std(entry: Entry, mode: &str, data: &[u8]) -> String {
    let log = std::cell::Cell::new("");
    let twin = StdVal::de(entry.kind, HintDe { data, lend: mode == "honour", log: &log });
    let want = expected_hint(entry);
    match twin {
        Ok(v) => {
            let lent = entry.borrowing && mode == "honour" && !v.content().is_empty();
            let b = entry.borrowing && mode == "honour";
            format!("ok {} borrowed={} inside={} hint={want}", hex(&v.content()), b as u8, lent as u8)
        }
        Err(e) => format!("err {} hint={want}", e.0.name()),
    }
}

// ---------------------------------------------------------------------------------------------
// Running one case on the implementation / the oracle
// ---------------------------------------------------------------------------------------------

fn run_impl_raw(case: &Case) -> Obs {
    match case {
        Case::BorshDe { kind, be, data } => with_backend!(*be, borsh_de_impl(*kind, data)),
        Case::BorshSer { kind, be, data } => with_backend!(*be, borsh_ser_impl(*kind, data)),
        Case::Visit { entry, be, tok, data, hint } => {
            let d = OneCall { tok: *tok, data, hint: *hint };
            dispatch!(entry.kind, *be, visit_impl(entry.borrowing, d))
        }
        Case::Ser { kind, be, data } => dispatch!(*kind, *be, ser_impl(data)),
        Case::Bstr { src, kind, be, data } => with_backend!(*be, bstr_impl(src, *kind, data)),
        Case::JsonRt { kind, be, data } => dispatch!(*kind, *be, json_rt_impl(data)),
        Case::JsonDe { kind, be, data } => dispatch!(*kind, *be, json_de_impl(data)),
        Case::JsonBorrow { kind, be, data } => {
            let value = serde_json::from_slice::<Value>(data).ok();
            dispatch!(*kind, *be, json_borrow_impl(data, value.as_ref()))
        }
        Case::Tokens { kind, be, data } => dispatch!(*kind, *be, tokens_impl(data)),
        Case::Ext { op, kind, borrowing, be, arg, hint, old, old_borrowed, data } => match op {
            ExtOp::BorshIoDe => with_backend!(*be, borsh_io_de_impl(*kind, arg, data)),
            ExtOp::BorshIoSer => with_backend!(*be, borsh_io_ser_impl(*kind, arg, data)),
            ExtOp::InPlace => {
                let d = OneCall { tok: Tk::parse(arg).expect("token kind"), data, hint: *hint };
                dispatch!(*kind, *be, in_place_impl(d, old, *old_borrowed))
            }
            ExtOp::JsonInPlace => dispatch!(*kind, *be, json_in_place_impl(data, old, *old_borrowed)),
            ExtOp::Shape => dispatch!(*kind, *be, shape_impl(*borrowing, arg, data)),
            ExtOp::Hint => dispatch!(*kind, *be, hint_impl(*borrowing, arg, data)),
        },
    }
}

fn run_impl(case: &Case) -> Obs {
    match catch_unwind(AssertUnwindSafe(|| run_impl_raw(case))) {
        Ok(o) => o,
        Err(_) => Obs { line: "panic".into(), maxalloc: 0 },
    }
}

fn strip_field(line: &str, field: &str) -> String {
    line.split(' ').filter(|w| !w.starts_with(field)).collect::<Vec<_>>().join(" ")
}

fn field(line: &str, name: &str) -> Option<usize> {
    line.split(' ').find_map(|w| w.strip_prefix(name)).and_then(|v| v.parse().ok())
}

/// What a fresh `deserialize`/`borrow_deserialize` must answer to one visitor call: the std twin's
/// answer, extended for `HipByt` by its documented acceptance of byte strings and strings, plus
/// `borrowed=` (1 iff a borrowing entry point is handed `'de` data).
fn visit_expect(entry: Entry, tok: Tk, data: &[u8], hint: Option<usize>) -> String {
    let d = OneCall { tok, data, hint };
    let mut std = visit_std(entry.kind, d);
    if entry.kind == K::Byt && std.starts_with("err") && !matches!(tok, Tk::Seq | Tk::SeqBad | Tk::Other) {
        // documented extension over Vec<u8>: byte strings and strings are accepted
        std = format!("ok {}", hex(data));
    }
    if std.starts_with("ok") {
        let b = entry.borrowing && matches!(tok, Tk::BorrowedStr | Tk::BorrowedBytes);
        std.push_str(&format!(" borrowed={}", b as u8));
    }
    std
}

/// The std-side expectation for the implementation's line (with `borrowed=` where the format
/// decides it).
fn run_oracle(case: &Case) -> String {
    match case {
        Case::BorshDe { kind, data, .. } => borsh_de_std(*kind, data),
        Case::BorshSer { kind, data, .. } => borsh_ser_std(*kind, data),
        Case::Visit { entry, tok, data, hint, .. } => visit_expect(*entry, *tok, data, *hint),
        // HipByt deliberately uses the byte-string call (like serde_bytes), not Vec<u8>'s sequence
        Case::Ser { kind: K::Byt, data, .. } => format!("bytes {}", hex(data)),
        Case::Ser { kind, data, .. } => ser_std(*kind, data),
        Case::Bstr { src, kind, data, .. } => {
            let mut s = bstr_std(src, *kind, data);
            if s.starts_with("ok") {
                s.push_str(&format!(" borrowed={}", matches!(*src, "bstr_ref" | "cow_borrowed") as u8));
            }
            s
        }
        Case::JsonRt { kind, data, .. } => json_rt_std(*kind, data),
        Case::JsonDe { kind, data, .. } => json_de_std(*kind, data),
        Case::JsonBorrow { kind, data, .. } => {
            let value = serde_json::from_slice::<Value>(data).ok();
            json_borrow_std(*kind, data, value.as_ref())
        }
        Case::Tokens { kind, data, .. } => {
            if matches!(kind, K::Str | K::Path) && std::str::from_utf8(data).is_err() {
                "skip".into()
            } else {
                "ok".into()
            }
        }
        Case::Ext { op, kind, borrowing, arg, hint, old, data, .. } => match op {
            ExtOp::BorshIoDe => borsh_io_de_std(*kind, arg, data),
            ExtOp::BorshIoSer => borsh_io_ser_std(*kind, arg, data),
            ExtOp::InPlace => {
                // in place must leave what a fresh `deserialize` returns; the std twin, filled
                // with the same old value, must agree whenever it accepts
                let tok = Tk::parse(arg).expect("token kind");
                let fresh = strip_field(&visit_expect(Entry { kind: *kind, borrowing: false }, tok, data, *hint), "borrowed=");
                let twin = in_place_std(*kind, OneCall { tok, data, hint: *hint }, old);
                if twin.starts_with("ok") && twin != fresh {
                    return format!("oracle-split fresh=[{fresh}] twin-in-place=[{twin}]");
                }
                fresh
            }
            ExtOp::JsonInPlace => {
                let fresh = json_de_std(*kind, data);
                let twin = json_in_place_std(*kind, data, old);
                if twin.starts_with("ok") && twin != fresh {
                    return format!("oracle-split fresh=[{fresh}] twin-in-place=[{twin}]");
                }
                fresh
            }
            ExtOp::Hint => hint_std(Entry { kind: *kind, borrowing: *borrowing }, arg, data),
            ExtOp::Shape => {
                // HipByt asks for a byte string: its twin is the probe with the same hint (the
                // value deserializers answer `deserialize_seq` and `deserialize_bytes` differently,
                // e.g. a map is a sequence of pairs for `Vec<u8>`); whenever `Vec<u8>` and the
                // probe both accept they must agree
                let mut std = shape_std(*kind, arg, data);
                if *kind == K::Byt {
                    let p: Result<Probe, OcErr> = with_shape!(arg.as_str(), data, |d| probe(K::Byt, d));
                    let pl = match p {
                        Ok(p) => format!("ok {}", hex(&p.content)),
                        Err(e) => format!("err {}", e.0.name()),
                    };
                    if std.starts_with("ok") && pl.starts_with("ok") && std != pl {
                        return format!("oracle-split vec=[{std}] probe=[{pl}]");
                    }
                    std = pl;
                }
                if std.starts_with("ok") {
                    let b = *borrowing && matches!(arg.as_str(), "borrowed_str" | "borrowed_bytes");
                    std.push_str(&format!(" borrowed={}", b as u8));
                }
                std
            }
        },
    }
}

/// The line to send to the Lean driver (`None`: this case has no model counterpart — the
/// third-party reader is trusted, or std's `OsString` implementation is a model parameter).
fn lean_query(case: &Case) -> Option<String> {
    match case {
        Case::BorshDe { kind, data, .. } => Some(format!("borsh_de {} {}", kind.name(), hex(data))),
        Case::BorshSer { data, .. } => Some(format!("borsh_ser {}", hex(data))),
        Case::Visit { entry, tok, data, hint, .. } if entry.kind != K::Os => {
            let h = hint.map(|h| format!(" {h}")).unwrap_or_default();
            Some(format!("visit {} {} {}{h}", entry.name(), tok.name(), hex(data)))
        }
        Case::Ser { kind, data, .. } => Some(format!("ser {} {}", kind.name(), hex(data))),
        Case::Bstr { src, kind, data, .. } => Some(format!("bstr {src} {} {}", kind.name(), hex(data))),
        // in place == fresh deserialize (theorem `in_place_default`): the model's `visit` answers
        Case::Ext { op: ExtOp::InPlace, kind, arg, hint, data, .. } if *kind != K::Os => {
            let h = hint.map(|h| format!(" {h}")).unwrap_or_default();
            Some(format!("visit {}_owned {arg} {}{h}", kind.name(), hex(data)))
        }
        // the generated table's hint for the entry point
        Case::Ext { op: ExtOp::Hint, kind, borrowing, .. } => {
            Some(format!("hint {}", Entry { kind: *kind, borrowing: *borrowing }.name()))
        }
        // the value deserializers that make exactly one of the modelled visitor calls
        Case::Ext { op: ExtOp::Shape, kind, borrowing, arg, data, .. } if *kind != K::Os => {
            let e = Entry { kind: *kind, borrowing: *borrowing }.name();
            let (tok, extra) = match arg.as_str() {
                "str" | "borrowed_str" | "string" | "bytes" | "borrowed_bytes" | "char" => (arg.as_str(), String::new()),
                "cow_str" => ("string", String::new()),
                "seq_u8" => ("seq", format!(" {}", data.len())),
                "bool" | "i8" | "i16" | "i32" | "i64" | "i128" | "u8" | "u16" | "u32" | "u64" | "u128" | "f32" | "f64" | "unit"
                | "map" | "map_empty" => ("other", String::new()),
                _ => return None,
            };
            let payload = if matches!(tok, "other") { "-".to_string() } else { hex(data) };
            Some(format!("visit {e} {tok} {payload}{extra}"))
        }
        _ => None,
    }
}

// ---------------------------------------------------------------------------------------------
// Child process for risky cases
// ---------------------------------------------------------------------------------------------

struct ChildProc {
    child: std::process::Child,
    stdin: std::process::ChildStdin,
    stdout: std::io::BufReader<std::process::ChildStdout>,
}

impl ChildProc {
    fn spawn() -> std::io::Result<ChildProc> {
        use std::process::{Command, Stdio};
        let exe = std::env::current_exe()?;
        let mut child = Command::new(exe)
            .arg("--child")
            .env("RUST_BACKTRACE", "0")
            .stdin(Stdio::piped())
            .stdout(Stdio::piped())
            .stderr(Stdio::piped())
            .spawn()?;
        let stdin = child.stdin.take().unwrap();
        let stdout = std::io::BufReader::new(child.stdout.take().unwrap());
        Ok(ChildProc { child, stdin, stdout })
    }

    /// `Err(reason)` when the child died on this case.
    fn ask(&mut self, line: &str) -> Result<Obs, String> {
        use std::io::{BufRead, Read, Write};
        let sent = self.stdin.write_all(line.as_bytes()).and_then(|_| self.stdin.write_all(b"\n")).and_then(|_| self.stdin.flush());
        let mut out = String::new();
        let n = if sent.is_ok() { self.stdout.read_line(&mut out).unwrap_or(0) } else { 0 };
        if n == 0 {
            let _ = self.child.wait();
            let mut err = String::new();
            if let Some(mut e) = self.child.stderr.take() {
                let _ = e.read_to_string(&mut err);
            }
            let err = err
                .lines()
                .find(|l| l.contains("memory allocation"))
                .or_else(|| err.lines().last())
                .unwrap_or("")
                .to_string();
            return Err(err);
        }
        let out = out.trim_end();
        let (l, m) = out.rsplit_once('\t').ok_or_else(|| format!("bad child line {out:?}"))?;
        Ok(Obs { line: l.to_string(), maxalloc: m.parse().map_err(|_| format!("bad child line {out:?}"))? })
    }
}

impl Drop for ChildProc {
    fn drop(&mut self) {
        let _ = self.child.kill();
        let _ = self.child.wait();
    }
}

fn child_main() {
    use std::io::{BufRead, Write};
    REFUSE_HUGE.store(true, Ordering::Relaxed);
    std::panic::set_hook(Box::new(|_| {}));
    let stdin = std::io::stdin();
    let stdout = std::io::stdout();
    for line in stdin.lock().lines() {
        let Ok(line) = line else { break };
        let obs = match Case::parse(&line) {
            Some(c) if c.well_formed() => run_impl(&c),
            _ => Obs { line: "?".into(), maxalloc: 0 },
        };
        let mut o = stdout.lock();
        let _ = writeln!(o, "{}\t{}", obs.line, obs.maxalloc);
        let _ = o.flush();
    }
}

// ---------------------------------------------------------------------------------------------
// Checking one case
// ---------------------------------------------------------------------------------------------

#[derive(Clone, Debug)]
struct Dis {
    kind: &'static str, // impl-vs-oracle | impl-vs-model | monitor
    input: Vec<String>,
    expected: String,
    observed: String,
}

/// Coarse class of an observation, for the statistics.
fn outcome_class(case: &Case, line: &str) -> String {
    let first = line.split(' ').next().unwrap_or("");
    let borrowed = |l: &str| if l.contains("borrowed=1") { "ok-borrowed" } else { "ok-owned" };
    match case {
        Case::BorshSer { .. } => if first == "err" { "err" } else { "ok" }.to_string(),
        Case::JsonRt { .. } => if line.starts_with("ser=err") { "ser-err" } else { "ok" }.to_string(),
        Case::JsonBorrow { .. } => {
            let l = line.split(" value:").next().unwrap_or(line);
            if l.starts_with("slice:ok") { borrowed(l).to_string() } else { "err".into() }
        }
        Case::Visit { .. } | Case::Bstr { .. } | Case::Ext { op: ExtOp::Shape | ExtOp::Hint, .. } => {
            if first == "ok" {
                borrowed(line).to_string()
            } else {
                line.split(' ').take(2).collect::<Vec<_>>().join("-")
            }
        }
        Case::BorshDe { .. } | Case::Ext { .. } => {
            line.split(' ').take(if first == "ok" { 1 } else { 2 }).collect::<Vec<_>>().join("-")
        }
        _ => first.to_string(),
    }
}

struct Ctx {
    lean: Option<LeanDriver>,
    child: Option<ChildProc>,
    evaluations: u64,
    lean_queries: u64,
    child_cases: u64,
    distribution: BTreeMap<String, u64>,
    distinct: std::collections::BTreeSet<String>,
    samples: Vec<String>,
    sampled: std::collections::BTreeSet<String>,
    /// per (kind, case key): (shrinks done, reports made)
    classes: BTreeMap<String, (usize, usize)>,
    suppressed: u64,
    internal_errors: Vec<String>,
}

fn len_class(n: usize) -> &'static str {
    match n {
        0 => "0",
        1..=23 => "inline",
        24..=48 => "short-heap",
        49..=4096 => "le4096",
        _ => "gt4096",
    }
}

impl Ctx {
    fn impl_obs(&mut self, case: &Case) -> Obs {
        if !case.risky() {
            return run_impl(case);
        }
        self.child_cases += 1;
        if self.child.is_none() {
            match ChildProc::spawn() {
                Ok(c) => self.child = Some(c),
                Err(e) => {
                    self.internal_errors.push(format!("cannot spawn child: {e}"));
                    return run_impl(case);
                }
            }
        }
        match self.child.as_mut().unwrap().ask(&case.line()) {
            Ok(o) => o,
            Err(reason) => {
                self.child = None;
                Obs { line: format!("abort ({reason})"), maxalloc: usize::MAX }
            }
        }
    }

    fn ask_lean(&mut self, q: &str) -> Option<String> {
        let lean = self.lean.as_mut()?;
        self.lean_queries += 1;
        match lean.ask(q) {
            Ok(l) => Some(l),
            Err(e) => {
                self.internal_errors.push(format!("lean driver: {e}"));
                self.lean = None;
                None
            }
        }
    }

    /// Runs one case everywhere and returns the disagreements (unshrunk).
    fn check_once(&mut self, case: &Case, with_model: bool) -> Vec<Dis> {
        let mut out = vec![];
        let obs = self.impl_obs(case);
        let oracle = run_oracle(case);
        let n = case.data().len();
        let mut dis = |kind: &'static str, expected: String, observed: String| {
            out.push(Dis { kind, input: vec![case.line()], expected, observed })
        };

        // monitors embedded in the line (`!utf8`, `!ptr`, `!alloc`, …), panics and aborts
        if obs.line.contains(" !") || obs.line.starts_with("panic") || obs.line.starts_with("abort") {
            dis("monitor", "no monitor violation, no panic, no abort".into(), obs.line.clone());
        }
        // the allocation bound of the property
        let bounded = matches!(
            case,
            Case::BorshDe { .. }
                | Case::Visit { .. }
                | Case::Bstr { .. }
                | Case::Ext { op: ExtOp::InPlace | ExtOp::Shape | ExtOp::BorshIoDe | ExtOp::JsonInPlace | ExtOp::Hint, .. }
        );
        let n = match case {
            // the whole stream (two copies of the value) / the old value count as supplied input
            Case::Ext { op: ExtOp::BorshIoDe, data, .. } => 2 * data.len() + 12,
            Case::Ext { old, data, .. } => old.len() + data.len(),
            _ => n,
        };
        if bounded && obs.maxalloc != usize::MAX && obs.maxalloc > 4096 + 2 * n + SLACK {
            dis(
                "monitor",
                format!("largest allocation request <= 4096 + 2*{n} + {SLACK}"),
                format!("largest allocation request {} ({})", obs.maxalloc, obs.line),
            );
        }
        // std oracle
        let impl_cmp = if matches!(case, Case::Ext { op: ExtOp::Hint, .. }) {
            strip_field(&obs.line, "called=")
        } else {
            obs.line.clone()
        };
        if impl_cmp != oracle {
            dis("impl-vs-oracle", oracle.clone(), impl_cmp);
        }
        // Lean model
        if with_model {
            if let Some(q) = lean_query(case) {
                let answer = self.ask_lean(&q);
                let is_hint = matches!(case, Case::Ext { op: ExtOp::Hint, .. });
                if let (true, Some(model)) = (is_hint, answer.clone()) {
                    // the hint the generated table records must be the one actually called
                    let called = obs.line.split(' ').find_map(|w| w.strip_prefix("called=")).unwrap_or("").to_string();
                    if model != "none" && model != called {
                        out.push(Dis {
                            kind: "impl-vs-model",
                            input: vec![case.line()],
                            expected: format!("table: {model}"),
                            observed: format!("called: {called}"),
                        });
                    }
                } else if let (false, Some(model)) = (is_hint, answer) {
                    let mut model_line = strip_field(&strip_field(&model, "maxreq="), "reserve=");
                    if matches!(case, Case::Ext { op: ExtOp::InPlace, .. }) {
                        model_line = strip_field(&model_line, "borrowed=");
                    }
                    if model_line != obs.line {
                        out.push(Dis { kind: "impl-vs-model", input: vec![case.line()], expected: model.clone(), observed: obs.line.clone() });
                    } else if obs.maxalloc != usize::MAX {
                        // allocation correspondence: the model's request trace bounds the real one
                        let limit = match case {
                            Case::BorshDe { .. } => field(&model, "maxreq=").map(|m| m.max(SLACK)),
                            Case::Visit { tok, .. } => Some(match field(&model, "reserve=") {
                                Some(r) => r.max(2 * n + 6).max(SLACK),
                                None if matches!(tok, Tk::Seq | Tk::SeqBad) => (2 * n + 6).max(SLACK),
                                None => n + SLACK,
                            }),
                            Case::Bstr { .. } => Some(n + SLACK),
                            _ => None,
                        };
                        if let Some(limit) = limit {
                            if obs.maxalloc > limit {
                                out.push(Dis {
                                    kind: "impl-vs-model",
                                    input: vec![case.line()],
                                    expected: format!("{model} => largest request <= {limit}"),
                                    observed: format!("largest request {}", obs.maxalloc),
                                });
                            }
                        }
                        if let (Case::Visit { .. }, Some(r)) = (case, field(&model, "reserve=")) {
                            if r > SLACK && obs.maxalloc < r {
                                out.push(Dis {
                                    kind: "impl-vs-model",
                                    input: vec![case.line()],
                                    expected: format!("{model} => a request of {r}"),
                                    observed: format!("largest request {}", obs.maxalloc),
                                });
                            }
                        }
                    }
                }
            }
        }
        // bookkeeping
        self.evaluations += 1;
        let outcome = outcome_class(case, &obs.line);
        if n > 0 {
            self.distinct.insert(format!("{}|{}|{}", case.key(), outcome, len_class(n)));
        }
        let dist_key = format!("{}:{}", case.op(), outcome);
        if n <= 64 && self.samples.len() < 40 && self.sampled.insert(dist_key.clone()) {
            self.samples.push(format!("{} => {}", case.line(), obs.line));
        }
        *self.distribution.entry(dist_key).or_insert(0) += 1;
        out
    }

    /// Checks a case; a disagreement is shrunk (shorter payload, same kind of disagreement).
    /// Per (kind, operation) class at most `SHRINKS_PER_CLASS` disagreements are shrunk and at
    /// most `REPORTS_PER_CLASS` distinct ones reported, so that a badly broken implementation
    /// cannot blow the run up.
    fn check(&mut self, case: &Case, with_model: bool, report: &mut Vec<Dis>) {
        const SHRINKS_PER_CLASS: usize = 6;
        const REPORTS_PER_CLASS: usize = 12;
        let found = self.check_once(case, with_model);
        if found.is_empty() {
            return;
        }
        let kind = found[0].kind;
        let class = format!("{kind}|{}", case.key());
        let seen = self.classes.entry(class).or_insert((0, 0));
        let mut best = case.clone();
        let mut best_dis = found;
        if seen.0 < SHRINKS_PER_CLASS {
            seen.0 += 1;
            let mut budget = 120;
            let mut chunk = (best.data().len() / 2).max(1);
            while chunk >= 1 && budget > 0 {
                let mut pos = 0;
                let mut progressed = false;
                while pos < best.data().len() && budget > 0 {
                    let mut d = best.data().clone();
                    let end = (pos + chunk).min(d.len());
                    d.drain(pos..end);
                    let cand = best.with_data(d);
                    budget -= 1;
                    // provenance needs a non-empty payload: do not shrink a hint case to nothing
                    let keep = !(matches!(cand, Case::Ext { op: ExtOp::Hint, .. }) && cand.data().is_empty());
                    if keep && cand.well_formed() {
                        let r = self.check_once(&cand, with_model);
                        if r.iter().any(|x| x.kind == kind) {
                            best = cand;
                            best_dis = r;
                            progressed = true;
                            continue;
                        }
                    }
                    pos += chunk;
                }
                if !progressed {
                    if chunk == 1 {
                        break;
                    }
                    chunk /= 2;
                }
            }
        }
        let class = format!("{kind}|{}", case.key());
        for d in best_dis {
            let seen = self.classes.get_mut(&class).expect("class");
            if seen.1 >= REPORTS_PER_CLASS {
                self.suppressed += 1;
                continue;
            }
            if report.iter().any(|r| r.kind == d.kind && r.input == d.input) {
                continue;
            }
            seen.1 += 1;
            report.push(d);
        }
    }
}

// ---------------------------------------------------------------------------------------------
// Case generation
// ---------------------------------------------------------------------------------------------

const LENS: [usize; 12] = [0, 1, 22, 23, 24, 25, 46, 47, 48, 4095, 4096, 4097];

fn fill(unit: &str, len: usize) -> Vec<u8> {
    let mut s = String::new();
    while s.len() + unit.len() <= len {
        s.push_str(unit);
    }
    while s.len() < len {
        s.push('a');
    }
    s.into_bytes()
}

fn byt_values(rng: &mut Rng) -> Vec<Vec<u8>> {
    let mut v = vec![];
    for &l in &LENS {
        v.push((0..l).map(|i| (i * 37 + 11) as u8).collect());
        v.push((0..l).map(|i| b'a' + (i % 26) as u8).collect());
        if l <= 48 {
            v.push(vec![0xff; l]);
        }
    }
    for _ in 0..6 {
        let l = rng.below(60);
        v.push((0..l).map(|_| rng.next_u64() as u8).collect());
    }
    v.sort();
    v.dedup();
    v
}

const ESCAPES: [&str; 8] = ["\"", "\\", "\n", "\t", "\u{1}", "\u{7f}", "a\"b\\c\nd", "\u{2028}/\u{0}"];

fn str_values(rng: &mut Rng) -> Vec<Vec<u8>> {
    let mut v: Vec<Vec<u8>> = vec![];
    for &l in &LENS {
        v.push((0..l).map(|i| b'a' + (i % 26) as u8).collect());
        v.push(fill("é", l));
        v.push(fill("日", l));
        v.push(fill("😀", l));
    }
    for e in ESCAPES {
        for &l in &[0usize, 22, 23, 24, 25, 47, 48] {
            let pad = l.saturating_sub(e.len());
            let k = pad / 2;
            let mut s = "a".repeat(pad - k);
            s.push_str(e);
            s.push_str(&"b".repeat(k));
            v.push(s.into_bytes());
        }
    }
    // a long one whose escapes make the JSON reader buffer across its scratch growth
    v.push(format!("{}\\\"{}\n", "x".repeat(2100), "é".repeat(1000)).into_bytes());
    for _ in 0..6 {
        let l = rng.below(40);
        let s: String = (0..l).map(|_| char::from_u32(0x20 + (rng.next_u64() % 0x2000) as u32).unwrap_or('a')).collect();
        v.push(s.into_bytes());
    }
    v.sort();
    v.dedup();
    v
}

fn os_values(rng: &mut Rng) -> Vec<Vec<u8>> {
    let mut v: Vec<Vec<u8>> = str_values(rng).into_iter().step_by(3).collect();
    v.push(vec![0xff, 0xfe]);
    for &l in &[23usize, 24, 25, 4096] {
        v.push((0..l).map(|i| (i * 37 + 0x80) as u8 | 0x80).collect());
    }
    v.sort();
    v.dedup();
    v
}

fn path_values(rng: &mut Rng) -> Vec<Vec<u8>> {
    let mut v: Vec<Vec<u8>> = str_values(rng).into_iter().skip(1).step_by(3).collect();
    v.push(b"/usr/bin".to_vec());
    v.push(b"/tmp/\xff\xfe/x".to_vec());
    v.push((0..30).map(|i| 0x80 | (i as u8)).collect());
    v.sort();
    v.dedup();
    v
}

fn values(kind: K, rng: &mut Rng) -> Vec<Vec<u8>> {
    match kind {
        K::Byt => byt_values(rng),
        K::Str => str_values(rng),
        K::Os => os_values(rng),
        K::Path => path_values(rng),
    }
}

const BAD_UTF8: [&[u8]; 9] = [
    b"\xff",
    b"\xc0\x80",
    b"\xc3",
    b"\xe2\x82",
    b"\xed\xa0\x80",
    b"\xf4\x90\x80\x80",
    b"\xf0\x9f\x98",
    b"\x80",
    b"\xc3\x28",
];

fn bad_utf8_values() -> Vec<Vec<u8>> {
    let mut v = vec![];
    for bad in BAD_UTF8 {
        v.push(bad.to_vec());
        for &l in &[23usize, 24, 48] {
            let mut a = vec![b'a'; l - bad.len()];
            a.extend_from_slice(bad);
            v.push(a);
            let mut b = bad.to_vec();
            b.extend(std::iter::repeat(b'z').take(l - bad.len()));
            v.push(b);
        }
    }
    let mut long = vec![b'q'; 4097];
    long[4000] = 0xff;
    v.push(long);
    v
}

fn le32(n: u32, payload: &[u8]) -> Vec<u8> {
    let mut v = n.to_le_bytes().to_vec();
    v.extend_from_slice(payload);
    v
}

/// Which truncation points of an encoding of length `n` to try: all of them up to a budget,
/// otherwise both ends and a regular sample.
fn cut_points(n: usize, all: bool) -> Vec<usize> {
    if all || n <= 160 {
        (0..n).collect()
    } else {
        let mut v: Vec<usize> = (0..64).chain(n - 64..n).chain((64..n - 64).step_by(97)).collect();
        v.sort();
        v.dedup();
        v
    }
}

fn is_utf8(v: &[u8]) -> bool {
    std::str::from_utf8(v).is_ok()
}

fn entries_of(kind: K) -> Vec<Entry> {
    match kind {
        K::Os => vec![Entry { kind, borrowing: false }],
        _ => vec![Entry { kind, borrowing: false }, Entry { kind, borrowing: true }],
    }
}

fn visit_cases(entry: Entry, be: Be, v: &[u8], emit: &mut dyn FnMut(Case, bool)) {
    let utf8 = is_utf8(v);
    for tok in TOKEN_KINDS {
        if tok.str_typed() && !utf8 {
            continue;
        }
        if tok == Tk::Char && std::str::from_utf8(v).map_or(true, |s| s.chars().count() != 1) {
            continue;
        }
        let hints: Vec<Option<usize>> = if matches!(tok, Tk::Seq | Tk::SeqBad) {
            vec![None, Some(0), Some(v.len()), Some(v.len() + 1000), Some(1 << 20), Some(usize::MAX / 2)]
        } else {
            vec![None]
        };
        for hint in hints {
            emit(Case::Visit { entry, be, tok, data: v.to_vec(), hint }, true);
        }
    }
}

static T0: std::sync::OnceLock<std::time::Instant> = std::sync::OnceLock::new();

fn run_all(ctx: &mut Ctx, tier: &str, seed: u64, report: &mut Vec<Dis>) {
    let thorough = tier == "thorough";
    let _ = T0.set(std::time::Instant::now());
    let mut rng = Rng::new(seed);

    // the generated table must pass every row predicate of the model
    if let Some(rows) = ctx.ask_lean("rows") {
        if !rows.starts_with("rows 0 ") {
            let bad: Vec<&str> = rows.split(' ').filter(|w| w.ends_with("=BAD")).collect();
            report.push(Dis {
                kind: "impl-vs-model",
                input: vec!["rows".into()],
                expected: "rows 0 (every generated row passes its predicate)".into(),
                observed: format!("{} bad row(s): {}", bad.len(), bad.join(" ")),
            });
        }
    }

    let emit = |ctx: &mut Ctx, report: &mut Vec<Dis>, c: Case, with_model: bool| {
        if c.well_formed() {
            ctx.check(&c, with_model, report);
        }
    };

    for kind in [K::Byt, K::Str, K::Os, K::Path] {
        let vals = values(kind, &mut rng);
        let mut seen_big_len = std::collections::BTreeSet::new();
        for v in &vals {
            let big = v.len() > 160;
            let first_of_len = seen_big_len.insert(v.len());
            for be in BACKENDS {
                emit(ctx, report, Case::Ser { kind, be, data: v.clone() }, true);
                emit(ctx, report, Case::JsonRt { kind, be, data: v.clone() }, false);
                if !big || be == Be::Arc || thorough {
                    emit(ctx, report, Case::Tokens { kind, be, data: v.clone() }, false);
                }
                if matches!(kind, K::Byt | K::Str) {
                    emit(ctx, report, Case::BorshSer { kind, be, data: v.clone() }, true);
                    let enc = le32(v.len() as u32, v);
                    let sampled: std::collections::BTreeSet<usize> =
                        cut_points(enc.len(), thorough && be == Be::Arc).into_iter().collect();
                    // every truncation (and the whole encoding) on the implementation and std;
                    // the Lean model answers the sampled ones
                    for cut in 0..=enc.len() {
                        let with_model = cut == enc.len() || sampled.contains(&cut);
                        emit(ctx, report, Case::BorshDe { kind, be, data: enc[..cut].to_vec() }, with_model);
                    }
                    let mut more = enc.clone();
                    more.extend_from_slice(&[0xaa, 0xbb, 0xcc]);
                    emit(ctx, report, Case::BorshDe { kind, be, data: more }, true);
                    // what the other type wrote
                    let other = if kind == K::Byt { K::Str } else { K::Byt };
                    emit(ctx, report, Case::BorshDe { kind: other, be, data: enc.clone() }, true);
                    for src in BSTR_SRCS {
                        emit(ctx, report, Case::Bstr { src, kind, be, data: v.clone() }, true);
                    }
                }
                for entry in entries_of(kind) {
                    let mut f = |c: Case, m: bool| emit(ctx, report, c, m);
                    visit_cases(entry, be, v, &mut f);
                }
                // JSON text of the std counterpart: truncations, borrowing
                if let Ok(js) = serde_json::to_string(&StdVal::make(kind, v)) {
                    let js = js.into_bytes();
                    let all = !big || thorough || (be == Be::Arc && (kind != K::Byt || (first_of_len && v.len() == 4097)));
                    for cut in cut_points(js.len(), all) {
                        emit(ctx, report, Case::JsonDe { kind, be, data: js[..cut].to_vec() }, false);
                    }
                    emit(ctx, report, Case::JsonDe { kind, be, data: js.clone() }, false);
                    if kind != K::Os {
                        emit(ctx, report, Case::JsonBorrow { kind, be, data: js.clone() }, false);
                        let mut padded = b" \n".to_vec();
                        padded.extend_from_slice(&js);
                        padded.extend_from_slice(b"\t ");
                        emit(ctx, report, Case::JsonBorrow { kind, be, data: padded }, false);
                    }
                    if kind == K::Byt && is_utf8(v) {
                        // a JSON string read into HipByt (borrowable)
                        let sj = serde_json::to_string(std::str::from_utf8(v).unwrap()).unwrap().into_bytes();
                        emit(ctx, report, Case::JsonBorrow { kind, be, data: sj.clone() }, false);
                        emit(ctx, report, Case::JsonDe { kind, be, data: sj }, false);
                    }
                }
            }
        }
    }

    if std::env::var_os("SERDRIVE_TIMING").is_some() {
        eprintln!("timing: values done, {} evaluations, {:?}", ctx.evaluations, T0.get().map(|t| t.elapsed()));
    }
    // ---- malformed streams ----
    // length prefixes larger than the payload, up to u32::MAX, over short payloads
    let prefixes = |n: usize| -> Vec<u32> {
        let mut p = vec![
            n as u32 + 1,
            n as u32 + 2,
            255,
            256,
            4095,
            4096,
            4097,
            65535,
            65536,
            65537,
            1 << 20,
            1 << 24,
            (1u32 << 31) - 1,
            1 << 31,
            u32::MAX - 1,
            u32::MAX,
        ];
        p.retain(|&x| x as usize > n);
        p
    };
    for plen in [0usize, 1, 2, 3, 7, 100, 5000] {
        let payload: Vec<u8> = (0..plen).map(|i| b'a' + (i % 26) as u8).collect();
        for p in prefixes(plen) {
            for kind in [K::Byt, K::Str] {
                for be in BACKENDS {
                    emit(ctx, report, Case::BorshDe { kind, be, data: le32(p, &payload) }, true);
                }
            }
        }
    }
    // the D12 witness itself
    for be in BACKENDS {
        emit(ctx, report, Case::BorshDe { kind: K::Byt, be, data: vec![0xff, 0xff, 0xff, 0xff, 1, 2, 3] }, true);
    }
    // non-UTF-8 bytes for the string types: borsh, visitor calls, bstr, JSON
    for bad in bad_utf8_values() {
        for be in BACKENDS {
            let enc = le32(bad.len() as u32, &bad);
            emit(ctx, report, Case::BorshDe { kind: K::Str, be, data: enc.clone() }, true);
            emit(ctx, report, Case::BorshDe { kind: K::Byt, be, data: enc }, true);
            for kind in [K::Byt, K::Str, K::Path, K::Os] {
                for entry in entries_of(kind) {
                    let mut f = |c: Case, m: bool| emit(ctx, report, c, m);
                    visit_cases(entry, be, &bad, &mut f);
                }
            }
            for src in BSTR_SRCS {
                emit(ctx, report, Case::Bstr { src, kind: K::Str, be, data: bad.clone() }, true);
            }
            // raw invalid bytes inside a JSON string, and as an array of numbers
            let mut js = b"\"".to_vec();
            js.extend_from_slice(&bad);
            js.push(b'"');
            let arr = serde_json::to_vec(&bad).unwrap();
            for kind in [K::Byt, K::Str, K::Path, K::Os] {
                emit(ctx, report, Case::JsonDe { kind, be, data: js.clone() }, false);
                emit(ctx, report, Case::JsonDe { kind, be, data: arr.clone() }, false);
                if kind != K::Os {
                    emit(ctx, report, Case::JsonBorrow { kind, be, data: js.clone() }, false);
                    emit(ctx, report, Case::JsonBorrow { kind, be, data: arr.clone() }, false);
                }
            }
        }
    }
    // wrong JSON shapes
    let wrong: [&[u8]; 16] = [
        b"null",
        b"true",
        b"12",
        b"-1.5e3",
        b"{}",
        b"{\"a\":1}",
        b"[256]",
        b"[-1]",
        b"[1,\"a\"]",
        b"[[1]]",
        b"[1,2",
        b"\"\\ud800\"",
        b"\"\\u00e9\\n\"",
        b"\"abc",
        b"{\"Unix\":[104,105]}",
        b"{\"Windows\":[104,105]}",
    ];
    for text in wrong {
        for be in BACKENDS {
            for kind in [K::Byt, K::Str, K::Path, K::Os] {
                emit(ctx, report, Case::JsonDe { kind, be, data: text.to_vec() }, false);
                if kind != K::Os {
                    emit(ctx, report, Case::JsonBorrow { kind, be, data: text.to_vec() }, false);
                }
            }
        }
    }
    if std::env::var_os("SERDRIVE_TIMING").is_some() {
        eprintln!("timing: before 'borsh through advers': {} evaluations, {:?}", ctx.evaluations, T0.get().map(|t| t.elapsed()));
    }
    // ---- round 2: borsh through adversarial readers / writers (tuple (T, u32, T)) ----
    for kind in [K::Byt, K::Str] {
        for l in [0usize, 1, 5, 22, 23, 24, 4095, 4096, 4097] {
            let mut vals: Vec<Vec<u8>> = vec![(0..l).map(|i| b'a' + (i % 26) as u8).collect()];
            vals.push(if kind == K::Str { fill("é", l) } else { (0..l).map(|i| (i * 37 + 11) as u8).collect() });
            vals.dedup();
            for v in vals {
                for be in BACKENDS {
                    for adv in READ_ADVS {
                        emit(ctx, report, Case::ext(ExtOp::BorshIoDe, kind, be, adv, v.clone()), false);
                    }
                    for adv in WRITE_ADVS {
                        emit(ctx, report, Case::ext(ExtOp::BorshIoSer, kind, be, adv, v.clone()), false);
                    }
                }
            }
        }
    }
    if std::env::var_os("SERDRIVE_TIMING").is_some() {
        eprintln!("timing: before 'deserialize_in_place': {} evaluations, {:?}", ctx.evaluations, T0.get().map(|t| t.elapsed()));
    }
    // ---- round 2: deserialize_in_place over a pre-filled slot ----
    for kind in [K::Byt, K::Str, K::Path, K::Os] {
        let news: Vec<Vec<u8>> = [0usize, 1, 3, 23, 24, 40, 4097]
            .iter()
            .map(|&l| if l == 3 && kind != K::Byt { "é!".as_bytes().to_vec() } else { (0..l).map(|i| b'a' + (i % 26) as u8).collect() })
            .collect();
        for new in &news {
            let mut olds: Vec<Vec<u8>> = vec![vec![]];
            let mut longer = new.clone();
            longer.extend_from_slice(b"OLD-TAIL-17-bytes");
            olds.push(longer);
            olds.push(vec![b'o'; new.len() + 60]);
            olds.push(vec![b'o'; new.len()]);
            olds.push(new[..new.len() / 2].iter().map(|_| b's').collect());
            olds.push(b"old".to_vec());
            olds.sort();
            olds.dedup();
            for old in &olds {
                for old_borrowed in [false, true] {
                    for be in BACKENDS {
                        for tok in TOKEN_KINDS {
                            if tok.str_typed() && !is_utf8(new) {
                                continue;
                            }
                            let hints: Vec<Option<usize>> =
                                if matches!(tok, Tk::Seq | Tk::SeqBad) { vec![None, Some(new.len())] } else { vec![None] };
                            for hint in hints {
                                emit(
                                    ctx,
                                    report,
                                    Case::Ext {
                                        op: ExtOp::InPlace,
                                        kind,
                                        borrowing: false,
                                        be,
                                        arg: tok.name().to_string(),
                                        hint,
                                        old: old.clone(),
                                        old_borrowed,
                                        data: new.clone(),
                                    },
                                    new.len() <= 64,
                                );
                            }
                        }
                        // the same through serde_json (what HipByt/Vec<u8> and the string types write)
                        if new.len() <= 64 {
                            let mut texts: Vec<Vec<u8>> = vec![b"[]".to_vec(), b"\"\"".to_vec(), b"[1,2".to_vec()];
                            if let Ok(js) = serde_json::to_vec(&StdVal::make(kind, new)) {
                                texts.push(js);
                            }
                            for text in texts {
                                emit(
                                    ctx,
                                    report,
                                    Case::Ext {
                                        op: ExtOp::JsonInPlace,
                                        kind,
                                        borrowing: false,
                                        be,
                                        arg: String::new(),
                                        hint: None,
                                        old: old.clone(),
                                        old_borrowed,
                                        data: text,
                                    },
                                    false,
                                );
                            }
                        }
                    }
                }
            }
        }
    }
    if std::env::var_os("SERDRIVE_TIMING").is_some() {
        eprintln!("timing: before 'every data-model sha': {} evaluations, {:?}", ctx.evaluations, T0.get().map(|t| t.elapsed()));
    }
    // ---- round 2: every data-model shape through serde's value deserializers ----
    let mut shape_vals: Vec<Vec<u8>> = [0usize, 1, 23, 24, 48].iter().map(|&l| (0..l).map(|i| b'a' + (i % 26) as u8).collect()).collect();
    shape_vals.push("é".as_bytes().to_vec());
    shape_vals.push(fill("日", 30));
    shape_vals.extend(bad_utf8_values().into_iter().filter(|v| v.len() <= 24));
    for kind in [K::Byt, K::Str, K::Path, K::Os] {
        for entry in entries_of(kind) {
            for be in BACKENDS {
                for shape in SHAPES {
                    for v in &shape_vals {
                        emit(
                            ctx,
                            report,
                            Case::Ext {
                                op: ExtOp::Shape,
                                kind,
                                borrowing: entry.borrowing,
                                be,
                                arg: shape.to_string(),
                                hint: None,
                                old: vec![],
                                old_borrowed: false,
                                data: v.clone(),
                            },
                            true,
                        );
                    }
                }
            }
        }
    }
    // ---- round 3: hint-honouring and always-owned deserializers, provenance and hint table ----
    {
        let mut hv: Vec<Vec<u8>> = [1usize, 5, 23, 24, 48, 4097].iter().map(|&l| (0..l).map(|i| b'a' + (i % 26) as u8).collect()).collect();
        hv.push(vec![]);
        hv.push(fill("é", 30));
        hv.push(b"\xff\xfe".to_vec());
        hv.push((0..40).map(|i| 0x80 | i as u8).collect());
        for kind in [K::Byt, K::Str, K::Path, K::Os] {
            for entry in entries_of(kind) {
                for be in BACKENDS {
                    for mode in HINT_MODES {
                        for v in &hv {
                            emit(
                                ctx,
                                report,
                                Case::Ext {
                                    op: ExtOp::Hint,
                                    kind,
                                    borrowing: entry.borrowing,
                                    be,
                                    arg: mode.to_string(),
                                    hint: None,
                                    old: vec![],
                                    old_borrowed: false,
                                    data: v.clone(),
                                },
                                true,
                            );
                        }
                    }
                }
            }
        }
    }
    if std::env::var_os("SERDRIVE_TIMING").is_some() {
        eprintln!("timing: before 'seeded random inputs': {} evaluations, {:?}", ctx.evaluations, T0.get().map(|t| t.elapsed()));
    }
    // ---- seeded random inputs ----
    let rounds = if thorough { 20000 } else { 1500 };
    for _ in 0..rounds {
        let be = *rng.pick(&BACKENDS);
        let kind = *rng.pick(&[K::Byt, K::Str]);
        let n = rng.below(40);
        let mut data: Vec<u8> = (0..n).map(|_| if rng.chance(1, 4) { rng.next_u64() as u8 } else { b'a' + rng.below(26) as u8 }).collect();
        // mostly plausible prefixes
        if data.len() >= 4 && rng.chance(3, 4) {
            let l = rng.below(44) as u32;
            data[..4].copy_from_slice(&l.to_le_bytes());
        }
        emit(ctx, report, Case::BorshDe { kind, be, data: data.clone() }, true);
        let kind4 = *rng.pick(&[K::Byt, K::Str, K::Path, K::Os]);
        // a mutated JSON text
        let base = serde_json::to_vec(&String::from_utf8_lossy(&data).into_owned()).unwrap();
        let mut text = base.clone();
        if !text.is_empty() {
            let i = rng.below(text.len());
            text[i] = rng.next_u64() as u8;
        }
        emit(ctx, report, Case::JsonDe { kind: kind4, be, data: text.clone() }, false);
        if kind4 != K::Os {
            emit(ctx, report, Case::JsonBorrow { kind: kind4, be, data: text }, false);
        }
        for entry in entries_of(kind4) {
            let tok = *rng.pick(&TOKEN_KINDS);
            let hint = if rng.chance(1, 2) { Some(rng.below(10000)) } else { None };
            emit(ctx, report, Case::Visit { entry, be, tok, data: data.clone(), hint }, true);
        }
    }
}

// ---------------------------------------------------------------------------------------------
// main
// ---------------------------------------------------------------------------------------------

fn replay_lines(path: &str) -> Result<Vec<String>, String> {
    let text = std::fs::read_to_string(path).map_err(|e| format!("read {path}: {e}"))?;
    let v: Value = serde_json::from_str(&text).map_err(|e| format!("parse {path}: {e}"))?;
    let mut out = vec![];
    let mut take = |x: &Value| {
        if let Some(a) = x.get("input").and_then(Value::as_array) {
            out.extend(a.iter().filter_map(|l| l.as_str().map(str::to_string)));
        }
    };
    take(&v);
    if let Some(ds) = v.get("disagreements").and_then(Value::as_array) {
        for d in ds {
            take(d);
        }
    }
    if let Some(a) = v.as_array() {
        for d in a {
            take(d);
        }
    }
    Ok(out)
}

fn main() {
    if std::env::args().any(|a| a == "--child") {
        child_main();
        return;
    }
    let cli = parse_cli();
    std::panic::set_hook(Box::new(|_| {}));
    let start = std::time::Instant::now();
    let lean = match &cli.lean {
        Some(p) => match LeanDriver::spawn(p, &[]) {
            Ok(l) => Some(l),
            Err(e) => {
                eprintln!("cannot start lean driver {p}: {e}");
                std::process::exit(2);
            }
        },
        None => None,
    };
    let has_lean = lean.is_some();
    let mut ctx = Ctx {
        lean,
        child: None,
        evaluations: 0,
        lean_queries: 0,
        child_cases: 0,
        distribution: BTreeMap::new(),
        distinct: Default::default(),
        samples: vec![],
        sampled: Default::default(),
        classes: BTreeMap::new(),
        suppressed: 0,
        internal_errors: vec![],
    };
    let mut report: Vec<Dis> = vec![];
    if let Some(path) = &cli.replay {
        match replay_lines(path) {
            Ok(lines) => {
                for l in lines {
                    if l == "rows" {
                        if let Some(r) = ctx.ask_lean("rows") {
                            if !r.starts_with("rows 0 ") {
                                report.push(Dis { kind: "impl-vs-model", input: vec![l], expected: "rows 0".into(), observed: r });
                            }
                        }
                        continue;
                    }
                    match Case::parse(&l) {
                        Some(c) if c.well_formed() => ctx.check(&c, true, &mut report),
                        _ => ctx.internal_errors.push(format!("unparsable replay line {l:?}")),
                    }
                }
            }
            Err(e) => ctx.internal_errors.push(e),
        }
    } else {
        run_all(&mut ctx, &cli.tier, cli.seed, &mut report);
    }
    if has_lean && ctx.lean.is_none() {
        ctx.internal_errors.push("lean driver died".into());
    }

    // de-duplicate reports that only differ by backend / payload
    let mut seen = std::collections::BTreeSet::new();
    report.retain(|d| seen.insert((d.kind, d.input.clone())));

    let profile = if cfg!(debug_assertions) { "debug" } else { "release" };
    let stats = serde_json::json!({
        "evaluations": ctx.evaluations,
        "distinct_nontrivial": ctx.distinct.len(),
        "rule": "distinct (operation, type/entry, backend, token kind/hint, outcome class, payload-length class in {inline, short-heap, <=4096, >4096}) with a non-empty payload",
        "exhaustive": false,
        "tier": cli.tier,
        "seed": cli.seed,
        "lean_queries": ctx.lean_queries,
        "child_cases": ctx.child_cases,
        "suppressed_duplicate_disagreements": ctx.suppressed,
        "wall_s": start.elapsed().as_secs_f64(),
        "distribution": ctx.distribution,
        "samples": ctx.samples,
        "internal_errors": ctx.internal_errors,
        "disagreements": report.iter().map(|d| serde_json::json!({
            "kind": d.kind, "input": d.input, "expected": d.expected, "observed": d.observed, "profile": profile
        })).collect::<Vec<_>>(),
    });
    let text = serde_json::to_string_pretty(&stats).unwrap();
    match &cli.out {
        Some(p) => {
            if let Err(e) = std::fs::write(p, &text) {
                eprintln!("write {p}: {e}");
                std::process::exit(2);
            }
        }
        None => println!("{text}"),
    }
    eprintln!(
        "serdrive: {} evaluations, {} lean queries, {} child cases, {} disagreement(s), {:.1}s",
        ctx.evaluations,
        ctx.lean_queries,
        ctx.child_cases,
        report.len(),
        start.elapsed().as_secs_f64()
    );
    for d in report.iter().take(10) {
        let short = |s: &str| if s.len() > 200 { format!("{}…", &s[..200]) } else { s.to_string() };
        eprintln!("  [{}] {}\n      expected {}\n      observed {}", d.kind, short(&d.input.join(" ; ")), short(&d.expected), short(&d.observed));
    }
    if !ctx.internal_errors.is_empty() {
        for e in &ctx.internal_errors {
            eprintln!("internal error: {e}");
        }
        std::process::exit(2);
    }
    std::process::exit(if report.is_empty() { 0 } else { 1 });
}
