//! C13 differential: real `InlineVec` / `ThinVec`  ⇄  Lean L1 model (`vec_driver`)  ⇄  std `Vec`.
//!
//! `vecdrive --tier quick|thorough --seed <u64> --lean <vec_driver exe> --out <stats.json>
//!           [--replay <file.json>]`
//!
//! Every step runs the same operation on the real vector (inside `catch_unwind`), on a std
//! `Vec<T>` oracle and on the compiled Lean model (one protocol line).  After every step —
//! panicking or not — the vector is read back (`as_slice`, `len`, `capacity`) and compared.
//!
//! * impl-vs-model : the canonical line `<ret> | len=<n> cap=<n> [v…]` must be identical
//!   (so `ThinVec::capacity()` is compared exactly with the modelled growth policy).
//! * impl-vs-oracle: returned value and contents must equal `Vec`'s; the implementation must
//!   panic exactly where `Vec` panics, plus — InlineVec only — where the fixed capacity would be
//!   exceeded (then: `try_` variants hand the value back with `full`/`oob`, the others panic with
//!   class `capacity`, and the contents are the old ones followed by a prefix of the appended
//!   items).
//! * monitor       : `append` leaves the other vector empty (or untouched on panic),
//!   `len <= capacity`.
//!
//! Memory-safety net: the bin installs a red-zone allocator (32+ bytes before, 128 bytes after
//! every block, filled with a canary). After every step the blocks allocated by the vector under
//! test are checked, so a write of one element past the allocation is reported as a `monitor`
//! disagreement with the exact input instead of corrupting the heap. A first, single-threaded
//! "pre-flight" phase runs a few targeted boundary sequences per configuration (iterator that
//! under-reports its size hint on an exactly-full vector, at minimum capacity and right after
//! `reserve_exact`) and stops at the first disagreement.
//!
//! Crash localisation: with `VERIF_TRACE=<path>` in the environment the run is single-threaded
//! (same jobs, same order) and, before every evaluated step, `<path>` is overwritten with one
//! line `<configuration> ; <op> ; <op> ; …` — after a crash the last line is the failing input.
//!
//! Optional: `--no-preflight` skips the pre-flight phase; `--budget-secs N` stops the enumeration after N seconds (stats then say
//! `"exhaustive": false`).
//!
//! Exit code 0 = no disagreement, 1 = disagreement(s), 2 = internal error.

use std::alloc::{GlobalAlloc, Layout, System};
use std::any::Any;
use std::cell::Cell;
use std::sync::atomic::{AtomicUsize, Ordering};
use std::borrow::Cow;
use std::collections::{BTreeMap, HashSet};
use std::ops::Bound;
use std::panic::{catch_unwind, AssertUnwindSafe};
use std::sync::{Arc, Mutex};

use hipstr::vecs::inline::InsertErrorKind;
use hipstr::vecs::thin::{Reserved, ThinVec};
use hipstr::vecs::InlineVec;
use hipverif_harness::util::{parse_cli, LeanDriver, Rng};

// ---------------------------------------------------------------------------------------------
// Red-zone allocator
// ---------------------------------------------------------------------------------------------

/// Every block is surrounded by canary bytes; blocks allocated while the current thread is
/// "watching" (i.e. by the vector under test) are remembered in a small per-thread table so
/// that their red zones can be checked after every step. The allocator never allocates.
mod redzone {
    use super::*;

    const PRE_MIN: usize = 32;
    const POST: usize = 128;
    const CANARY: u8 = 0xA5;
    const SLOTS: usize = 16;

    /// Red-zone violations found when a block was freed, process-wide.
    pub static HITS_AT_FREE: AtomicUsize = AtomicUsize::new(0);

    struct Table {
        on: Cell<bool>,
        /// red-zone violations found when this thread freed a block
        hits: Cell<usize>,
        /// (user pointer, size, pre) — pointer 0 = free slot
        slots: [Cell<(usize, usize, usize)>; SLOTS],
    }
    thread_local! {
        static TABLE: Table = const {
            Table { on: Cell::new(false), hits: Cell::new(0), slots: [const { Cell::new((0, 0, 0)) }; SLOTS] }
        };
    }

    fn pre_for(align: usize) -> (usize, usize) {
        let a = align.max(16);
        (a, (PRE_MIN + a - 1) / a * a)
    }

    unsafe fn intact(user: usize, size: usize, pre: usize) -> bool {
        let before = std::slice::from_raw_parts((user - pre) as *const u8, pre);
        let after = std::slice::from_raw_parts((user + size) as *const u8, POST);
        before.iter().all(|b| *b == CANARY) && after.iter().all(|b| *b == CANARY)
    }

    pub struct Guarded;

    unsafe impl GlobalAlloc for Guarded {
        unsafe fn alloc(&self, layout: Layout) -> *mut u8 {
            let (a, pre) = pre_for(layout.align());
            let total = pre + layout.size() + POST;
            let Ok(l) = Layout::from_size_align(total, a) else { return std::ptr::null_mut() };
            let raw = System.alloc(l);
            if raw.is_null() {
                return raw;
            }
            std::ptr::write_bytes(raw, CANARY, pre);
            std::ptr::write_bytes(raw.add(pre + layout.size()), CANARY, POST);
            let user = raw.add(pre);
            let _ = TABLE.try_with(|t| {
                if t.on.get() {
                    if let Some(slot) = t.slots.iter().find(|c| c.get().0 == 0) {
                        slot.set((user as usize, layout.size(), pre));
                    }
                }
            });
            user
        }

        unsafe fn dealloc(&self, ptr: *mut u8, layout: Layout) {
            let (a, pre) = pre_for(layout.align());
            let _ = TABLE.try_with(|t| {
                if let Some(slot) = t.slots.iter().find(|c| c.get().0 == ptr as usize) {
                    slot.set((0, 0, 0));
                }
            });
            if !intact(ptr as usize, layout.size(), pre) {
                HITS_AT_FREE.fetch_add(1, Ordering::Relaxed);
                let _ = TABLE.try_with(|t| t.hits.set(t.hits.get() + 1));
            }
            let total = pre + layout.size() + POST;
            System.dealloc(ptr.sub(pre), Layout::from_size_align_unchecked(total, a));
        }
        // `realloc` / `alloc_zeroed`: the default implementations go through `alloc`/`dealloc`.
    }

    /// Remember the blocks allocated by this thread from now on (`true`) or stop (`false`).
    pub fn watch(on: bool) {
        let _ = TABLE.try_with(|t| t.on.set(on));
    }

    /// Number of damaged blocks this thread has freed so far.
    pub fn hits() -> usize {
        TABLE.try_with(|t| t.hits.get()).unwrap_or(0)
    }

    /// Checks the red zones of every remembered live block of this thread.
    pub fn check_watched() -> Option<String> {
        TABLE
            .try_with(|t| {
                for c in &t.slots {
                    let (user, size, pre) = c.get();
                    if user != 0 && !unsafe { intact(user, size, pre) } {
                        return Some(format!("a live block of {size} bytes has a damaged red zone"));
                    }
                }
                None
            })
            .ok()
            .flatten()
    }
}

#[global_allocator]
static GLOBAL: redzone::Guarded = redzone::Guarded;

// ---------------------------------------------------------------------------------------------
// Element and prefix types
// ---------------------------------------------------------------------------------------------

trait Elem: Clone + PartialEq + std::fmt::Debug + Send + 'static {
    const NAME: &'static str;
    /// 1 for the zero-sized type (every value prints as 0), 200 otherwise.
    const MODULUS: u64;
    /// Whether the `T: Copy` entry points exist for this element type.
    const COPY: bool;
    fn from_nat(n: u64) -> Self;
    fn to_nat(&self) -> u64;
    // The `T: Copy`-only entry points (`false` / `None`: not available for this type).
    fn iv_ext_copy<const CAP: usize>(v: &mut InlineVec<Self, CAP>, s: &[Self]) -> bool;
    fn iv_ext_within_copy<const CAP: usize>(
        v: &mut InlineVec<Self, CAP>,
        r: (Bound<usize>, Bound<usize>),
    ) -> bool;
    fn iv_from_slice_copy<const CAP: usize>(s: &[Self]) -> Option<InlineVec<Self, CAP>>;
    fn tv_ext_copy<P: Prefix>(v: &mut ThinVec<Self, P>, s: &[Self]) -> bool;
    fn tv_from_slice_copy<P: Prefix>(s: &[Self]) -> Option<ThinVec<Self, P>>;
}

macro_rules! copy_ops {
    () => {
        const COPY: bool = true;
        fn iv_ext_copy<const CAP: usize>(v: &mut InlineVec<Self, CAP>, s: &[Self]) -> bool {
            v.extend_from_slice_copy(s);
            true
        }
        fn iv_ext_within_copy<const CAP: usize>(
            v: &mut InlineVec<Self, CAP>,
            r: (Bound<usize>, Bound<usize>),
        ) -> bool {
            v.extend_from_within_copy(r);
            true
        }
        fn iv_from_slice_copy<const CAP: usize>(s: &[Self]) -> Option<InlineVec<Self, CAP>> {
            Some(InlineVec::from_slice_copy(s))
        }
        fn tv_ext_copy<P: Prefix>(v: &mut ThinVec<Self, P>, s: &[Self]) -> bool {
            v.extend_from_slice_copy(s);
            true
        }
        fn tv_from_slice_copy<P: Prefix>(s: &[Self]) -> Option<ThinVec<Self, P>> {
            Some(ThinVec::from_slice_copy(s))
        }
    };
}
macro_rules! no_copy_ops {
    () => {
        const COPY: bool = false;
        fn iv_ext_copy<const CAP: usize>(_: &mut InlineVec<Self, CAP>, _: &[Self]) -> bool {
            false
        }
        fn iv_ext_within_copy<const CAP: usize>(
            _: &mut InlineVec<Self, CAP>,
            _: (Bound<usize>, Bound<usize>),
        ) -> bool {
            false
        }
        fn iv_from_slice_copy<const CAP: usize>(_: &[Self]) -> Option<InlineVec<Self, CAP>> {
            None
        }
        fn tv_ext_copy<P: Prefix>(_: &mut ThinVec<Self, P>, _: &[Self]) -> bool {
            false
        }
        fn tv_from_slice_copy<P: Prefix>(_: &[Self]) -> Option<ThinVec<Self, P>> {
            None
        }
    };
}

impl Elem for u8 {
    const NAME: &'static str = "u8";
    copy_ops!();
    const MODULUS: u64 = 200;
    fn from_nat(n: u64) -> Self {
        n as u8
    }
    fn to_nat(&self) -> u64 {
        *self as u64
    }
}
impl Elem for u64 {
    const NAME: &'static str = "u64";
    copy_ops!();
    const MODULUS: u64 = 200;
    fn from_nat(n: u64) -> Self {
        n
    }
    fn to_nat(&self) -> u64 {
        *self
    }
}
impl Elem for () {
    const NAME: &'static str = "unit";
    copy_ops!();
    const MODULUS: u64 = 1;
    fn from_nat(_: u64) -> Self {}
    fn to_nat(&self) -> u64 {
        0
    }
}
/// 64 bytes, 64-aligned.
#[repr(align(64))]
#[derive(Copy, Clone, PartialEq, Debug)]
struct A64 {
    v: u64,
    chk: [u64; 7],
}
impl Elem for A64 {
    const NAME: &'static str = "a64";
    copy_ops!();
    const MODULUS: u64 = 200;
    fn from_nat(n: u64) -> Self {
        A64 { v: n, chk: [!n; 7] }
    }
    fn to_nat(&self) -> u64 {
        if self.chk.iter().all(|c| *c == !self.v) {
            self.v
        } else {
            u64::MAX // torn copy
        }
    }
}
/// 16 bytes, 8-aligned.
#[derive(Copy, Clone, PartialEq, Debug)]
struct P16(u64, u64);
impl Elem for P16 {
    const NAME: &'static str = "p16";
    copy_ops!();
    const MODULUS: u64 = 200;
    fn from_nat(n: u64) -> Self {
        P16(n, !n)
    }
    fn to_nat(&self) -> u64 {
        if self.1 == !self.0 {
            self.0
        } else {
            u64::MAX
        }
    }
}

/// Heap-owning element (no `Copy` entry points; a double drop or a leak of an element shows up
/// as an allocator complaint).
#[derive(Clone, PartialEq, Debug)]
struct Bx(Box<u32>);
impl Elem for Bx {
    const NAME: &'static str = "box";
    no_copy_ops!();
    const MODULUS: u64 = 200;
    fn from_nat(n: u64) -> Self {
        Bx(Box::new(n as u32))
    }
    fn to_nat(&self) -> u64 {
        *self.0 as u64
    }
}

trait Prefix: Default + Send + 'static {
    const NAME: &'static str;
}
impl Prefix for Reserved {
    const NAME: &'static str = "reserved";
}
impl Prefix for () {
    const NAME: &'static str = "unit";
}
/// 32 bytes, 32-aligned prefix.
#[repr(align(32))]
#[derive(Default)]
struct P32(#[allow(dead_code)] u8);
impl Prefix for P32 {
    const NAME: &'static str = "p32";
}

// ---------------------------------------------------------------------------------------------
// Operations
// ---------------------------------------------------------------------------------------------

#[derive(Clone, Copy, Debug, PartialEq, Eq)]
enum B {
    I(usize),
    X(usize),
    U,
}
impl B {
    fn show(&self) -> String {
        match self {
            B::I(n) => format!("i{n}"),
            B::X(n) => format!("x{n}"),
            B::U => "u".into(),
        }
    }
    fn parse(s: &str) -> Option<B> {
        if s == "u" {
            return Some(B::U);
        }
        let n: usize = s.get(1..)?.parse().ok()?;
        match s.as_bytes()[0] {
            b'i' => Some(B::I(n)),
            b'x' => Some(B::X(n)),
            _ => None,
        }
    }
    fn bound(&self) -> Bound<usize> {
        match self {
            B::I(n) => Bound::Included(*n),
            B::X(n) => Bound::Excluded(*n),
            B::U => Bound::Unbounded,
        }
    }
}

#[derive(Clone, Copy, Debug, PartialEq, Eq)]
enum Src {
    Array,
    Boxed,
    Vec,
    Other,
    Slice,
    SliceCopy,
    CowB,
    CowO,
    Iter,
}
const SRCS: [(Src, &str); 9] = [
    (Src::Array, "array"),
    (Src::Boxed, "box"),
    (Src::Vec, "vec"),
    (Src::Other, "other"),
    (Src::Slice, "slice"),
    (Src::SliceCopy, "slice_copy"),
    (Src::CowB, "cow_b"),
    (Src::CowO, "cow_o"),
    (Src::Iter, "iter"),
];
impl Src {
    fn show(&self) -> &'static str {
        SRCS.iter().find(|(s, _)| s == self).unwrap().1
    }
    fn parse(s: &str) -> Option<Src> {
        SRCS.iter().find(|(_, n)| *n == s).map(|(s, _)| *s)
    }
}

/// Which `MutVector` the `append` source is.
#[derive(Clone, Copy, Debug, PartialEq, Eq)]
enum Kind {
    Vec,
    Ivec,
    Tvec,
}
impl Kind {
    fn show(&self) -> &'static str {
        match self {
            Kind::Vec => "vec",
            Kind::Ivec => "ivec",
            Kind::Tvec => "tvec",
        }
    }
    fn parse(s: &str) -> Option<Kind> {
        match s {
            "vec" => Some(Kind::Vec),
            "ivec" => Some(Kind::Ivec),
            "tvec" => Some(Kind::Tvec),
            _ => None,
        }
    }
}

#[derive(Clone, Debug, PartialEq, Eq)]
enum Op {
    Push(u64),
    TryPush(u64),
    Pop,
    PopIf(bool),
    Insert(usize, u64),
    TryInsert(usize, u64),
    Remove(usize),
    SwapRemove(usize),
    Truncate(usize),
    Clear,
    Resize(usize, u64),
    ResizeWith(usize, Vec<u64>),
    ExtSlice(Vec<u64>),
    ExtCopy(Vec<u64>),
    ExtArray(Vec<u64>),
    ExtWithin(B, B),
    ExtWithinCopy(B, B),
    TryExtWithin(B, B),
    ExtIter(usize, Vec<u64>),
    Append(Kind, Vec<u64>),
    SplitOff(usize),
    Drain(B, B, String, bool),
    TryDrain(B, B, String, bool),
    IntoIter(String),
    Clone,
    Reserve(usize),
    ReserveExact(usize),
    ShrinkTo(usize),
    ShrinkFit,
    WithCap(usize),
    From(Src, usize, Vec<u64>),
}

fn show_vals(prefix: String, vs: &[u64]) -> String {
    let mut s = prefix;
    for v in vs {
        s.push(' ');
        s.push_str(&v.to_string());
    }
    s
}
fn show_script(s: &str) -> &str {
    if s.is_empty() {
        "-"
    } else {
        s
    }
}

impl Op {
    fn name(&self) -> &'static str {
        match self {
            Op::Push(_) => "push",
            Op::TryPush(_) => "try_push",
            Op::Pop => "pop",
            Op::PopIf(_) => "pop_if",
            Op::Insert(..) => "insert",
            Op::TryInsert(..) => "try_insert",
            Op::Remove(_) => "remove",
            Op::SwapRemove(_) => "swap_remove",
            Op::Truncate(_) => "truncate",
            Op::Clear => "clear",
            Op::Resize(..) => "resize",
            Op::ResizeWith(..) => "resize_with",
            Op::ExtSlice(_) => "ext_slice",
            Op::ExtCopy(_) => "ext_copy",
            Op::ExtArray(_) => "ext_array",
            Op::ExtWithin(..) => "ext_within",
            Op::ExtWithinCopy(..) => "ext_within_copy",
            Op::TryExtWithin(..) => "try_ext_within",
            Op::ExtIter(..) => "ext_iter",
            Op::Append(..) => "append",
            Op::SplitOff(_) => "split_off",
            Op::Drain(..) => "drain",
            Op::TryDrain(..) => "try_drain",
            Op::IntoIter(_) => "into_iter",
            Op::Clone => "clone",
            Op::Reserve(_) => "reserve",
            Op::ReserveExact(_) => "reserve_exact",
            Op::ShrinkTo(_) => "shrink_to",
            Op::ShrinkFit => "shrink_fit",
            Op::WithCap(_) => "with_cap",
            Op::From(..) => "from",
        }
    }

    /// The protocol line.
    fn line(&self) -> String {
        let n = self.name();
        match self {
            Op::Push(v) | Op::TryPush(v) => format!("{n} {v}"),
            Op::Pop | Op::Clear | Op::Clone | Op::ShrinkFit => n.to_string(),
            Op::PopIf(b) => format!("{n} {}", *b as u8),
            Op::Insert(i, v) | Op::TryInsert(i, v) | Op::Resize(i, v) => format!("{n} {i} {v}"),
            Op::Remove(i)
            | Op::SwapRemove(i)
            | Op::Truncate(i)
            | Op::SplitOff(i)
            | Op::Reserve(i)
            | Op::ReserveExact(i)
            | Op::ShrinkTo(i)
            | Op::WithCap(i) => format!("{n} {i}"),
            Op::ResizeWith(k, vs) => show_vals(format!("{n} {k}"), vs),
            Op::ExtSlice(vs) | Op::ExtCopy(vs) | Op::ExtArray(vs) => show_vals(n.to_string(), vs),
            Op::ExtWithin(a, b) | Op::ExtWithinCopy(a, b) | Op::TryExtWithin(a, b) => {
                format!("{n} {} {}", a.show(), b.show())
            }
            Op::ExtIter(h, vs) => show_vals(format!("{n} {h}"), vs),
            Op::Append(k, vs) => show_vals(format!("{n} {}", k.show()), vs),
            Op::Drain(a, b, sc, leak) | Op::TryDrain(a, b, sc, leak) => format!(
                "{n} {} {} {} {}",
                a.show(),
                b.show(),
                show_script(sc),
                if *leak { "leak" } else { "drop" }
            ),
            Op::IntoIter(sc) => format!("{n} {}", show_script(sc)),
            Op::From(s, h, vs) => show_vals(format!("{n} {} {h}", s.show()), vs),
        }
    }

    fn parse(line: &str) -> Option<Op> {
        let ws: Vec<&str> = line.split_whitespace().collect();
        let num = |s: &str| s.parse::<usize>().ok();
        let val = |s: &str| s.parse::<u64>().ok();
        let vals = |ws: &[&str]| ws.iter().map(|s| s.parse::<u64>().ok()).collect::<Option<Vec<u64>>>();
        let script = |s: &str| {
            if s == "-" {
                Some(String::new())
            } else if s.chars().all(|c| c == 'n' || c == 'b') {
                Some(s.to_string())
            } else {
                None
            }
        };
        let leak = |s: &str| match s {
            "leak" => Some(true),
            "drop" => Some(false),
            _ => None,
        };
        Some(match ws.as_slice() {
            ["push", v] => Op::Push(val(v)?),
            ["try_push", v] => Op::TryPush(val(v)?),
            ["pop"] => Op::Pop,
            ["pop_if", b] => Op::PopIf(val(b)? != 0),
            ["insert", i, v] => Op::Insert(num(i)?, val(v)?),
            ["try_insert", i, v] => Op::TryInsert(num(i)?, val(v)?),
            ["remove", i] => Op::Remove(num(i)?),
            ["swap_remove", i] => Op::SwapRemove(num(i)?),
            ["truncate", i] => Op::Truncate(num(i)?),
            ["clear"] => Op::Clear,
            ["resize", i, v] => Op::Resize(num(i)?, val(v)?),
            ["resize_with", k, rest @ ..] => Op::ResizeWith(num(k)?, vals(rest)?),
            ["ext_slice", rest @ ..] => Op::ExtSlice(vals(rest)?),
            ["ext_copy", rest @ ..] => Op::ExtCopy(vals(rest)?),
            ["ext_array", rest @ ..] => Op::ExtArray(vals(rest)?),
            ["ext_within", a, b] => Op::ExtWithin(B::parse(a)?, B::parse(b)?),
            ["ext_within_copy", a, b] => Op::ExtWithinCopy(B::parse(a)?, B::parse(b)?),
            ["try_ext_within", a, b] => Op::TryExtWithin(B::parse(a)?, B::parse(b)?),
            ["ext_iter", h, rest @ ..] => Op::ExtIter(num(h)?, vals(rest)?),
            ["append", k, rest @ ..] => Op::Append(Kind::parse(k)?, vals(rest)?),
            ["split_off", i] => Op::SplitOff(num(i)?),
            ["drain", a, b, sc, f] => Op::Drain(B::parse(a)?, B::parse(b)?, script(sc)?, leak(f)?),
            ["try_drain", a, b, sc, f] => {
                Op::TryDrain(B::parse(a)?, B::parse(b)?, script(sc)?, leak(f)?)
            }
            ["into_iter", sc] => Op::IntoIter(script(sc)?),
            ["clone"] => Op::Clone,
            ["reserve", i] => Op::Reserve(num(i)?),
            ["reserve_exact", i] => Op::ReserveExact(num(i)?),
            ["shrink_to", i] => Op::ShrinkTo(num(i)?),
            ["shrink_fit"] => Op::ShrinkFit,
            ["with_cap", i] => Op::WithCap(num(i)?),
            ["from", s, h, rest @ ..] => Op::From(Src::parse(s)?, num(h)?, vals(rest)?),
            _ => return None,
        })
    }

    /// Candidates for shrinking: the same operation with a shorter payload.
    fn shorter(&self) -> Vec<Op> {
        fn cut(vs: &[u64]) -> Vec<Vec<u64>> {
            let mut out = vec![];
            if !vs.is_empty() {
                out.push(vs[..vs.len() / 2].to_vec());
                out.push(vs[..vs.len() - 1].to_vec());
                out.push(vs[1..].to_vec());
            }
            out
        }
        match self {
            Op::ExtSlice(v) => cut(v).into_iter().map(Op::ExtSlice).collect(),
            Op::ExtCopy(v) => cut(v).into_iter().map(Op::ExtCopy).collect(),
            Op::ExtIter(h, v) => cut(v).into_iter().map(|v| Op::ExtIter((*h).min(v.len()), v)).collect(),
            Op::Append(k, v) => cut(v).into_iter().map(|v| Op::Append(*k, v)).collect(),
            Op::From(s, h, v) if *s != Src::Array => {
                cut(v).into_iter().map(|v| Op::From(*s, (*h).min(v.len()), v)).collect()
            }
            Op::Drain(a, b, sc, l) if !sc.is_empty() => {
                vec![Op::Drain(*a, *b, sc[..sc.len() - 1].to_string(), *l)]
            }
            Op::IntoIter(sc) if !sc.is_empty() => vec![Op::IntoIter(sc[..sc.len() - 1].to_string())],
            _ => vec![],
        }
    }
}

// ---------------------------------------------------------------------------------------------
// Canonical printing, panic classification
// ---------------------------------------------------------------------------------------------

fn show_opt<T: Elem>(o: Option<T>) -> String {
    match o {
        None => "none".into(),
        Some(v) => format!("some:{}", v.to_nat()),
    }
}
fn show_items(vs: &[u64]) -> String {
    if vs.is_empty() {
        "items:-".into()
    } else {
        format!("items:{}", vs.iter().map(|v| v.to_string()).collect::<Vec<_>>().join(","))
    }
}
fn nats<T: Elem>(s: &[T]) -> Vec<u64> {
    s.iter().map(Elem::to_nat).collect()
}
fn elems<T: Elem>(s: &[u64]) -> Vec<T> {
    s.iter().map(|v| T::from_nat(*v)).collect()
}
fn show_state(len: usize, cap: usize, vs: &[u64]) -> String {
    format!(
        "len={len} cap={cap} [{}]",
        vs.iter().map(|v| v.to_string()).collect::<Vec<_>>().join(" ")
    )
}

/// Panic class from the payload (never compared as a message).
fn classify(p: Box<dyn Any + Send>) -> String {
    let msg: String = if let Some(s) = p.downcast_ref::<&'static str>() {
        s.to_string()
    } else if let Some(s) = p.downcast_ref::<String>() {
        s.clone()
    } else {
        "?".into()
    };
    let class = if msg.starts_with("start index") || msg.starts_with("end index") {
        "range"
    } else if msg.contains("index out of bounds") {
        "index"
    } else if msg.contains("inline vector is full") || msg.contains("exceeds capacity") {
        "capacity"
    } else if msg.contains("capacity overflow") || msg.contains("invalid layout") {
        "overflow"
    } else {
        return format!("panic:other:{}", msg.replace(' ', "_"));
    };
    format!("panic:{class}")
}

fn show_range_error(e: hipstr::common::RangeError) -> String {
    use hipstr::common::RangeError as R;
    match e {
        R::StartOverflows => "err:range:so".into(),
        R::EndOverflows => "err:range:eo".into(),
        R::StartGreaterThanEnd { start, end } => format!("err:range:sgte:{start}:{end}"),
        R::EndOutOfBounds { end, len } => format!("err:range:eoob:{end}:{len}"),
    }
}

/// An iterator with a chosen lower size hint.
struct Hinted<T> {
    it: std::vec::IntoIter<T>,
    hint: usize,
}
impl<T> Iterator for Hinted<T> {
    type Item = T;
    fn next(&mut self) -> Option<T> {
        self.it.next()
    }
    fn size_hint(&self) -> (usize, Option<usize>) {
        (self.hint, None)
    }
}

fn run_script<T: Elem, I: DoubleEndedIterator<Item = T>>(it: &mut I, script: &str) -> Vec<u64> {
    let mut out = vec![];
    for c in script.chars() {
        let x = if c == 'n' { it.next() } else { it.next_back() };
        if let Some(x) = x {
            out.push(x.to_nat());
        }
    }
    out
}

// ---------------------------------------------------------------------------------------------
// Subjects: the real vectors and the std oracle behind one interface
// ---------------------------------------------------------------------------------------------

const UNSUPPORTED: &str = "unsupported";

trait Subject {
    /// Back to `new()`.
    fn reset(&mut self);
    /// Runs one operation (inside `catch_unwind`); the canonical returned value.
    fn apply(&mut self, op: &Op) -> String;
    /// (len, capacity, contents).
    fn observe(&self) -> (usize, usize, Vec<u64>);
    /// A monitor complaint raised by the last `apply`, if any.
    fn take_monitor(&mut self) -> Option<String>;
    /// Oracle only: overwrite the contents (re-synchronisation after a legitimate divergence).
    fn force(&mut self, _vals: &[u64]) {}
}

/// Array lengths usable with `extend_from_array` / `From<[T; N]>` for one vector type.
trait ArrayOps<T: Elem>: Sized {
    const SIZES: &'static [usize];
    fn ext_array(&mut self, items: &[T]);
    fn from_array(items: &[T]) -> Self;
}

macro_rules! iv_arrays {
    ($cap:literal; $($n:literal),*) => {
        impl<T: Elem> ArrayOps<T> for InlineVec<T, $cap> {
            const SIZES: &'static [usize] = &[$($n),*];
            fn ext_array(&mut self, items: &[T]) {
                match items.len() {
                    $( $n => { let a: [T; $n] = core::array::from_fn(|i| items[i].clone()); self.extend_from_array(a) } )*
                    n => panic!("harness: no array length {n}"),
                }
            }
            fn from_array(items: &[T]) -> Self {
                match items.len() {
                    $( $n => { let a: [T; $n] = core::array::from_fn(|i| items[i].clone()); Self::from(a) } )*
                    n => panic!("harness: no array length {n}"),
                }
            }
        }
    };
}
iv_arrays!(1; 0, 1);
iv_arrays!(2; 0, 1, 2);
iv_arrays!(7; 0, 1, 2, 3, 6, 7);
iv_arrays!(23; 0, 1, 2, 3, 11, 22, 23);
iv_arrays!(127; 0, 1, 2, 3, 64, 126, 127);

const TV_ARRAY_SIZES: &[usize] = &[0, 1, 2, 3, 4, 5, 8, 9, 33];
fn tv_from_array<T: Elem, P: Prefix>(items: &[T]) -> ThinVec<T, P> {
    macro_rules! arms {
        ($($n:literal),*) => {
            match items.len() {
                $( $n => { let a: [T; $n] = core::array::from_fn(|i| items[i].clone()); ThinVec::from(a) } )*
                n => panic!("harness: no array length {n}"),
            }
        };
    }
    arms!(0, 1, 2, 3, 4, 5, 8, 9, 33)
}

// ----- InlineVec ---------------------------------------------------------------------------

struct IvSub<T: Elem, const CAP: usize>
where
    InlineVec<T, CAP>: ArrayOps<T>,
{
    v: InlineVec<T, CAP>,
    monitor: Option<String>,
}

impl<T: Elem, const CAP: usize> IvSub<T, CAP>
where
    InlineVec<T, CAP>: ArrayOps<T>,
{
    fn new() -> Self {
        IvSub { v: InlineVec::new(), monitor: None }
    }
}

impl<T: Elem, const CAP: usize> Subject for IvSub<T, CAP>
where
    InlineVec<T, CAP>: ArrayOps<T>,
{
    fn reset(&mut self) {
        self.v = InlineVec::new();
        self.monitor = None;
    }
    fn observe(&self) -> (usize, usize, Vec<u64>) {
        (self.v.len(), self.v.capacity(), nats(self.v.as_slice()))
    }
    fn take_monitor(&mut self) -> Option<String> {
        self.monitor.take()
    }
    fn apply(&mut self, op: &Op) -> String {
        let v = &mut self.v;
        let monitor = &mut self.monitor;
        let r = catch_unwind(AssertUnwindSafe(|| -> String {
            let ok = || "ok".to_string();
            match op {
                Op::Push(x) => {
                    v.push(T::from_nat(*x));
                    ok()
                }
                Op::TryPush(x) => match v.try_push(T::from_nat(*x)) {
                    Ok(()) => ok(),
                    Err(b) => format!("err:full:val:{}", b.to_nat()),
                },
                Op::Pop => show_opt(v.pop()),
                Op::PopIf(b) => show_opt(v.pop_if(|_| *b)),
                Op::Insert(i, x) => {
                    v.insert(*i, T::from_nat(*x));
                    ok()
                }
                Op::TryInsert(i, x) => match v.try_insert(*i, T::from_nat(*x)) {
                    Ok(()) => ok(),
                    Err(e) => format!(
                        "err:{}:val:{}",
                        match e.kind {
                            InsertErrorKind::Full => "full",
                            InsertErrorKind::OutOfBounds => "oob",
                        },
                        e.value.to_nat()
                    ),
                },
                Op::Remove(i) => format!("val:{}", v.remove(*i).to_nat()),
                Op::SwapRemove(i) => format!("val:{}", v.swap_remove(*i).to_nat()),
                Op::Truncate(n) => {
                    v.truncate(*n);
                    ok()
                }
                Op::Clear => {
                    v.clear();
                    ok()
                }
                Op::Resize(n, x) => {
                    v.resize(*n, T::from_nat(*x));
                    ok()
                }
                Op::ResizeWith(n, vals) => {
                    let mut k = 0usize;
                    v.resize_with(*n, || {
                        let x = vals.get(k).copied().unwrap_or(0);
                        k += 1;
                        T::from_nat(x)
                    });
                    ok()
                }
                Op::ExtSlice(items) => {
                    v.extend_from_slice(&elems::<T>(items));
                    ok()
                }
                Op::ExtCopy(items) => {
                    if !T::iv_ext_copy(v, &elems::<T>(items)) {
                        return UNSUPPORTED.to_string();
                    }
                    ok()
                }
                Op::ExtArray(items) => {
                    v.ext_array(&elems::<T>(items));
                    ok()
                }
                Op::ExtWithin(a, b) => {
                    v.extend_from_within((a.bound(), b.bound()));
                    ok()
                }
                Op::ExtWithinCopy(a, b) => {
                    if !T::iv_ext_within_copy(v, (a.bound(), b.bound())) {
                        return UNSUPPORTED.to_string();
                    }
                    ok()
                }
                Op::ExtIter(h, items) => {
                    v.extend(Hinted { it: elems::<T>(items).into_iter(), hint: *h });
                    ok()
                }
                Op::Append(kind, items) => {
                    let src = elems::<T>(items);
                    let left: Vec<u64> = match kind {
                        Kind::Vec => {
                            let mut o: Vec<T> = src.clone();
                            let r = catch_unwind(AssertUnwindSafe(|| v.append(&mut o)));
                            after_append(monitor, r, nats(&o), items)
                        }
                        Kind::Ivec => {
                            let mut o: InlineVec<T, 127> = InlineVec::from(&src[..]);
                            let r = catch_unwind(AssertUnwindSafe(|| v.append(&mut o)));
                            after_append(monitor, r, nats(o.as_slice()), items)
                        }
                        Kind::Tvec => {
                            let mut o: ThinVec<T, Reserved> = ThinVec::from(&src[..]);
                            let r = catch_unwind(AssertUnwindSafe(|| v.append(&mut o)));
                            after_append(monitor, r, nats(o.as_slice()), items)
                        }
                    };
                    show_items(&left)
                }
                Op::SplitOff(n) => {
                    let o = v.split_off(*n);
                    show_items(&nats(o.as_slice()))
                }
                Op::Drain(a, b, script, leak) => {
                    let mut d = v.drain((a.bound(), b.bound()));
                    let out = run_script::<T, _>(&mut d, script);
                    if *leak {
                        std::mem::forget(d);
                    } else {
                        drop(d);
                    }
                    show_items(&out)
                }
                Op::IntoIter(script) => {
                    let old = std::mem::replace(v, InlineVec::new());
                    let mut it = old.into_iter();
                    let out = run_script::<T, _>(&mut it, script);
                    drop(it);
                    show_items(&out)
                }
                Op::Clone => {
                    let c = v.clone();
                    *v = c;
                    ok()
                }
                Op::From(src, hint, items) => {
                    let e = elems::<T>(items);
                    let n: InlineVec<T, CAP> = match src {
                        Src::Array => <InlineVec<T, CAP> as ArrayOps<T>>::from_array(&e),
                        Src::Boxed => InlineVec::from(e.into_boxed_slice()),
                        Src::Vec => InlineVec::from(e),
                        Src::Other => InlineVec::from(ThinVec::<T, Reserved>::from(&e[..])),
                        Src::Slice => InlineVec::from(&e[..]),
                        Src::SliceCopy => match T::iv_from_slice_copy(&e) {
                            Some(n) => n,
                            None => return UNSUPPORTED.to_string(),
                        },
                        Src::CowB => InlineVec::from(Cow::Borrowed(&e[..])),
                        Src::CowO => InlineVec::from(Cow::<[T]>::Owned(e)),
                        Src::Iter => Hinted { it: e.into_iter(), hint: *hint }.collect(),
                    };
                    *v = n;
                    ok()
                }
                Op::TryExtWithin(..)
                | Op::TryDrain(..)
                | Op::Reserve(_)
                | Op::ReserveExact(_)
                | Op::ShrinkTo(_)
                | Op::ShrinkFit
                | Op::WithCap(_) => UNSUPPORTED.to_string(),
            }
        }));
        match r {
            Ok(s) => s,
            Err(p) => classify(p),
        }
    }
}

/// `append` bookkeeping: re-raises the panic after checking the other vector is untouched;
/// on success returns what is left in it.
fn after_append(
    monitor: &mut Option<String>,
    r: Result<(), Box<dyn Any + Send>>,
    left: Vec<u64>,
    original: &[u64],
) -> Vec<u64> {
    match r {
        Ok(()) => left,
        Err(p) => {
            if left != original {
                *monitor = Some(format!(
                    "append panicked but the other vector changed: {:?} -> {:?}",
                    original, left
                ));
            }
            std::panic::resume_unwind(p)
        }
    }
}

// ----- ThinVec -----------------------------------------------------------------------------

struct TvSub<T: Elem, P: Prefix> {
    v: ThinVec<T, P>,
    monitor: Option<String>,
}

impl<T: Elem, P: Prefix> TvSub<T, P> {
    fn new() -> Self {
        TvSub { v: ThinVec::new(), monitor: None }
    }
}

impl<T: Elem, P: Prefix> Subject for TvSub<T, P> {
    fn reset(&mut self) {
        self.v = ThinVec::new();
        self.monitor = None;
    }
    fn observe(&self) -> (usize, usize, Vec<u64>) {
        (self.v.len(), self.v.capacity(), nats(self.v.as_slice()))
    }
    fn take_monitor(&mut self) -> Option<String> {
        self.monitor.take()
    }
    fn apply(&mut self, op: &Op) -> String {
        let v = &mut self.v;
        let monitor = &mut self.monitor;
        let r = catch_unwind(AssertUnwindSafe(|| -> String {
            let ok = || "ok".to_string();
            match op {
                Op::Push(x) => {
                    v.push(T::from_nat(*x));
                    ok()
                }
                Op::Pop => show_opt(v.pop()),
                Op::Insert(i, x) => {
                    v.insert(*i, T::from_nat(*x));
                    ok()
                }
                Op::Remove(i) => format!("val:{}", v.remove(*i).to_nat()),
                Op::SwapRemove(i) => format!("val:{}", v.swap_remove(*i).to_nat()),
                Op::Truncate(n) => {
                    v.truncate(*n);
                    ok()
                }
                Op::Clear => {
                    v.clear();
                    ok()
                }
                Op::Resize(n, x) => {
                    v.resize(*n, T::from_nat(*x));
                    ok()
                }
                Op::ExtSlice(items) => {
                    v.extend_from_slice(&elems::<T>(items));
                    ok()
                }
                Op::ExtCopy(items) => {
                    if !T::tv_ext_copy(v, &elems::<T>(items)) {
                        return UNSUPPORTED.to_string();
                    }
                    ok()
                }
                Op::ExtWithin(a, b) => {
                    v.extend_from_within((a.bound(), b.bound()));
                    ok()
                }
                Op::TryExtWithin(a, b) => match v.try_extend_from_within((a.bound(), b.bound())) {
                    Ok(()) => ok(),
                    Err(e) => show_range_error(e),
                },
                Op::ExtIter(h, items) => {
                    v.extend(Hinted { it: elems::<T>(items).into_iter(), hint: *h });
                    ok()
                }
                Op::Append(kind, items) => {
                    let src = elems::<T>(items);
                    let left: Vec<u64> = match kind {
                        Kind::Vec => {
                            let mut o: Vec<T> = src.clone();
                            let r = catch_unwind(AssertUnwindSafe(|| v.append(&mut o)));
                            after_append(monitor, r, nats(&o), items)
                        }
                        Kind::Ivec => {
                            let mut o: InlineVec<T, 127> = InlineVec::from(&src[..]);
                            let r = catch_unwind(AssertUnwindSafe(|| v.append(&mut o)));
                            after_append(monitor, r, nats(o.as_slice()), items)
                        }
                        Kind::Tvec => {
                            let mut o: ThinVec<T, P> = ThinVec::from(&src[..]);
                            let r = catch_unwind(AssertUnwindSafe(|| v.append(&mut o)));
                            after_append(monitor, r, nats(o.as_slice()), items)
                        }
                    };
                    show_items(&left)
                }
                Op::SplitOff(n) => {
                    let o = v.split_off(*n);
                    show_items(&nats(o.as_slice()))
                }
                Op::Drain(a, b, script, leak) => {
                    let mut d = v.drain((a.bound(), b.bound()));
                    let out = run_script::<T, _>(&mut d, script);
                    if *leak {
                        std::mem::forget(d);
                    } else {
                        drop(d);
                    }
                    show_items(&out)
                }
                Op::TryDrain(a, b, script, leak) => match v.try_drain((a.bound(), b.bound())) {
                    Err(e) => show_range_error(e),
                    Ok(mut d) => {
                        let out = run_script::<T, _>(&mut d, script);
                        if *leak {
                            std::mem::forget(d);
                        } else {
                            drop(d);
                        }
                        show_items(&out)
                    }
                },
                Op::Reserve(n) => {
                    v.reserve(*n);
                    ok()
                }
                Op::ReserveExact(n) => {
                    v.reserve_exact(*n);
                    ok()
                }
                Op::ShrinkTo(n) => {
                    v.shrink_to(*n);
                    ok()
                }
                Op::ShrinkFit => {
                    v.shrink_to_fit();
                    ok()
                }
                Op::WithCap(n) => {
                    let n = ThinVec::with_capacity(*n);
                    *v = n;
                    ok()
                }
                Op::From(src, hint, items) => {
                    let e = elems::<T>(items);
                    let n: ThinVec<T, P> = match src {
                        Src::Array => tv_from_array(&e),
                        Src::Boxed => ThinVec::from(e.into_boxed_slice()),
                        Src::Vec => ThinVec::from(e),
                        Src::Other => ThinVec::from(InlineVec::<T, 127>::from(&e[..])),
                        Src::Slice => ThinVec::from(&e[..]),
                        Src::SliceCopy => match T::tv_from_slice_copy(&e) {
                            Some(n) => n,
                            None => return UNSUPPORTED.to_string(),
                        },
                        Src::CowB => ThinVec::from(Cow::Borrowed(&e[..])),
                        Src::CowO => ThinVec::from(Cow::<[T]>::Owned(e)),
                        Src::Iter => Hinted { it: e.into_iter(), hint: *hint }.collect(),
                    };
                    *v = n;
                    ok()
                }
                Op::TryPush(_)
                | Op::PopIf(_)
                | Op::TryInsert(..)
                | Op::ResizeWith(..)
                | Op::ExtArray(_)
                | Op::ExtWithinCopy(..)
                | Op::IntoIter(_)
                | Op::Clone => UNSUPPORTED.to_string(),
            }
        }));
        match r {
            Ok(s) => s,
            Err(p) => classify(p),
        }
    }
}

// ----- std Vec oracle ------------------------------------------------------------------------

struct Oracle<T: Elem> {
    v: Vec<T>,
}

/// What `core::slice::range` decides, in std's order of checks, as a `RangeError`-like tag.
fn oracle_range(a: B, b: B, len: usize) -> Result<(usize, usize), String> {
    let start = match a {
        B::I(s) => s,
        B::X(s) => s.checked_add(1).ok_or("err:range:so".to_string())?,
        B::U => 0,
    };
    let end = match b {
        B::I(e) => e.checked_add(1).ok_or("err:range:eo".to_string())?,
        B::X(e) => e,
        B::U => len,
    };
    if start > end {
        Err(format!("err:range:sgte:{start}:{end}"))
    } else if end > len {
        Err(format!("err:range:eoob:{end}:{len}"))
    } else {
        Ok((start, end))
    }
}

impl<T: Elem> Oracle<T> {
    fn new() -> Self {
        Oracle { v: Vec::new() }
    }
    /// Runs `f` on the vector; any panic of std is reported with the class the operation's
    /// documented panic belongs to.
    fn guarded(&mut self, class: &str, f: impl FnOnce(&mut Vec<T>) -> String) -> String {
        let v = &mut self.v;
        match catch_unwind(AssertUnwindSafe(|| f(v))) {
            Ok(s) => s,
            Err(_) => format!("panic:{class}"),
        }
    }
}

impl<T: Elem> Subject for Oracle<T> {
    fn reset(&mut self) {
        self.v = Vec::new();
    }
    fn observe(&self) -> (usize, usize, Vec<u64>) {
        (self.v.len(), self.v.capacity(), nats(&self.v))
    }
    fn take_monitor(&mut self) -> Option<String> {
        None
    }
    fn force(&mut self, vals: &[u64]) {
        self.v = elems::<T>(vals);
    }
    fn apply(&mut self, op: &Op) -> String {
        let ok = || "ok".to_string();
        match op {
            Op::Push(x) | Op::TryPush(x) => self.guarded("overflow", |v| {
                v.push(T::from_nat(*x));
                ok()
            }),
            Op::Pop => show_opt(self.v.pop()),
            Op::PopIf(b) => show_opt(self.v.pop_if(|_| *b)),
            Op::Insert(i, x) => self.guarded("index", |v| {
                v.insert(*i, T::from_nat(*x));
                ok()
            }),
            // Vec has no try_insert: "index > len" is Vec::insert's documented panic condition
            Op::TryInsert(i, x) => {
                if *i > self.v.len() {
                    format!("err:oob:val:{x}", x = T::from_nat(*x).to_nat())
                } else {
                    self.v.insert(*i, T::from_nat(*x));
                    ok()
                }
            }
            Op::Remove(i) => self.guarded("index", |v| format!("val:{}", v.remove(*i).to_nat())),
            Op::SwapRemove(i) => {
                self.guarded("index", |v| format!("val:{}", v.swap_remove(*i).to_nat()))
            }
            Op::Truncate(n) => {
                self.v.truncate(*n);
                ok()
            }
            Op::Clear => {
                self.v.clear();
                ok()
            }
            Op::Resize(n, x) => self.guarded("overflow", |v| {
                v.resize(*n, T::from_nat(*x));
                ok()
            }),
            Op::ResizeWith(n, vals) => self.guarded("overflow", |v| {
                let mut k = 0usize;
                v.resize_with(*n, || {
                    let x = vals.get(k).copied().unwrap_or(0);
                    k += 1;
                    T::from_nat(x)
                });
                ok()
            }),
            Op::ExtSlice(items) | Op::ExtCopy(items) | Op::ExtArray(items) => {
                self.guarded("overflow", |v| {
                    v.extend_from_slice(&elems::<T>(items));
                    ok()
                })
            }
            Op::ExtWithin(a, b) | Op::ExtWithinCopy(a, b) => self.guarded("range", |v| {
                v.extend_from_within((a.bound(), b.bound()));
                ok()
            }),
            Op::TryExtWithin(a, b) => match oracle_range(*a, *b, self.v.len()) {
                Err(e) => e,
                Ok((s, e)) => {
                    self.v.extend_from_within(s..e);
                    ok()
                }
            },
            Op::ExtIter(h, items) => self.guarded("overflow", |v| {
                v.extend(Hinted { it: elems::<T>(items).into_iter(), hint: *h });
                ok()
            }),
            Op::Append(_, items) => self.guarded("overflow", |v| {
                let mut o = elems::<T>(items);
                v.append(&mut o);
                show_items(&nats(&o))
            }),
            Op::SplitOff(n) => self.guarded("index", |v| show_items(&nats(&v.split_off(*n)))),
            Op::Drain(a, b, script, leak) => self.guarded("range", |v| {
                let mut d = v.drain((a.bound(), b.bound()));
                let out = run_script::<T, _>(&mut d, script);
                if *leak {
                    std::mem::forget(d);
                } else {
                    drop(d);
                }
                show_items(&out)
            }),
            Op::TryDrain(a, b, script, leak) => match oracle_range(*a, *b, self.v.len()) {
                Err(e) => e,
                Ok((s, e)) => {
                    let mut d = self.v.drain(s..e);
                    let out = run_script::<T, _>(&mut d, script);
                    if *leak {
                        std::mem::forget(d);
                    } else {
                        drop(d);
                    }
                    show_items(&out)
                }
            },
            Op::IntoIter(script) => {
                let old = std::mem::take(&mut self.v);
                let mut it = old.into_iter();
                let out = run_script::<T, _>(&mut it, script);
                drop(it);
                show_items(&out)
            }
            Op::Clone => {
                let c = self.v.clone();
                self.v = c;
                ok()
            }
            Op::Reserve(n) => self.guarded("overflow", |v| {
                v.reserve(*n);
                ok()
            }),
            Op::ReserveExact(n) => self.guarded("overflow", |v| {
                v.reserve_exact(*n);
                ok()
            }),
            Op::ShrinkTo(n) => {
                self.v.shrink_to(*n);
                ok()
            }
            Op::ShrinkFit => {
                self.v.shrink_to_fit();
                ok()
            }
            Op::WithCap(n) => self.guarded("overflow", |v| {
                let n = Vec::with_capacity(*n);
                *v = n;
                ok()
            }),
            Op::From(src, hint, items) => {
                let e = elems::<T>(items);
                self.v = match src {
                    Src::Array | Src::Vec | Src::Other | Src::CowO => e,
                    Src::Boxed => Vec::from(e.into_boxed_slice()),
                    Src::Slice | Src::SliceCopy => Vec::from(&e[..]),
                    Src::CowB => Vec::from(Cow::Borrowed(&e[..])),
                    Src::Iter => Hinted { it: e.into_iter(), hint: *hint }.collect(),
                };
                ok()
            }
        }
    }
}

// ---------------------------------------------------------------------------------------------
// Configurations
// ---------------------------------------------------------------------------------------------

const TYPES: [&str; 6] = ["u8", "u64", "unit", "a64", "p16", "box"];
const CAPS: [usize; 5] = [1, 2, 7, 23, 127];
const PREFIXES: [&str; 3] = ["reserved", "unit", "p32"];

#[derive(Clone, Debug, PartialEq, Eq)]
struct Config {
    /// `Some(CAP)` for an InlineVec, `None` for a ThinVec.
    iv: Option<usize>,
    ty: &'static str,
    prefix: &'static str,
}

struct Rig {
    imp: Box<dyn Subject>,
    oracle: Box<dyn Subject>,
    lean_config: String,
    modulus: u64,
    /// the element type has the `T: Copy` entry points
    copy: bool,
    array_sizes: &'static [usize],
    /// ThinVec: `MINIMAL_CAPACITY` as observed on `new()`.
    min_cap: usize,
}

impl Config {
    fn line(&self) -> String {
        match self.iv {
            Some(cap) => format!("ivec {cap} {}", self.ty),
            None => format!("tvec {} {}", self.ty, self.prefix),
        }
    }
    fn parse(s: &str) -> Option<Config> {
        let ws: Vec<&str> = s.split_whitespace().collect();
        let ty = |t: &str| TYPES.iter().copied().find(|x| *x == t);
        match ws.as_slice() {
            ["ivec", cap, t] => {
                let cap: usize = cap.parse().ok()?;
                if !CAPS.contains(&cap) {
                    return None;
                }
                Some(Config { iv: Some(cap), ty: ty(t)?, prefix: "reserved" })
            }
            ["tvec", t, p] => Some(Config {
                iv: None,
                ty: ty(t)?,
                prefix: PREFIXES.iter().copied().find(|x| x == p)?,
            }),
            _ => None,
        }
    }

    fn rig(&self) -> Rig {
        fn iv<T: Elem>(cap: usize) -> Rig {
            fn one<T: Elem, const CAP: usize>() -> Rig
            where
                InlineVec<T, CAP>: ArrayOps<T>,
            {
                Rig {
                    imp: Box::new(IvSub::<T, CAP>::new()),
                    oracle: Box::new(Oracle::<T>::new()),
                    lean_config: format!("ivec {CAP}"),
                    modulus: T::MODULUS,
                    copy: T::COPY,
                    array_sizes: <InlineVec<T, CAP> as ArrayOps<T>>::SIZES,
                    min_cap: CAP,
                }
            }
            match cap {
                1 => one::<T, 1>(),
                2 => one::<T, 2>(),
                7 => one::<T, 7>(),
                23 => one::<T, 23>(),
                127 => one::<T, 127>(),
                _ => unreachable!(),
            }
        }
        fn tv<T: Elem>(prefix: &str) -> Rig {
            fn one<T: Elem, P: Prefix>() -> Rig {
                let sub = TvSub::<T, P>::new();
                let min_cap = sub.v.capacity();
                Rig {
                    imp: Box::new(sub),
                    oracle: Box::new(Oracle::<T>::new()),
                    lean_config: format!(
                        "tvec {} {} {} {}",
                        std::mem::size_of::<T>(),
                        std::mem::align_of::<T>(),
                        std::mem::size_of::<P>(),
                        std::mem::align_of::<P>()
                    ),
                    modulus: T::MODULUS,
                    copy: T::COPY,
                    array_sizes: TV_ARRAY_SIZES,
                    min_cap,
                }
            }
            match prefix {
                "reserved" => one::<T, Reserved>(),
                "unit" => one::<T, ()>(),
                "p32" => one::<T, P32>(),
                _ => unreachable!(),
            }
        }
        match (self.iv, self.ty) {
            (Some(c), "u8") => iv::<u8>(c),
            (Some(c), "u64") => iv::<u64>(c),
            (Some(c), "unit") => iv::<()>(c),
            (Some(c), "a64") => iv::<A64>(c),
            (Some(c), "p16") => iv::<P16>(c),
            (Some(c), "box") => iv::<Bx>(c),
            (None, "u8") => tv::<u8>(self.prefix),
            (None, "u64") => tv::<u64>(self.prefix),
            (None, "unit") => tv::<()>(self.prefix),
            (None, "a64") => tv::<A64>(self.prefix),
            (None, "p16") => tv::<P16>(self.prefix),
            (None, "box") => tv::<Bx>(self.prefix),
            _ => unreachable!(),
        }
    }
}

// ---------------------------------------------------------------------------------------------
// What the implementation must do, derived from the std oracle (+ the InlineVec capacity rule)
// ---------------------------------------------------------------------------------------------

/// InlineVec only, oracle did not panic: if the fixed capacity is insufficient for `op`,
/// the required outcome and contents.
fn iv_capacity_rule(pre: &[u64], cap: usize, op: &Op, oracle_after: &[u64]) -> Option<(String, Vec<u64>)> {
    let len = pre.len();
    let keep = || pre.to_vec();
    let panic = || "panic:capacity".to_string();
    match op {
        Op::Push(_) if len + 1 > cap => Some((panic(), keep())),
        Op::TryPush(v) if len + 1 > cap => Some((format!("err:full:val:{v}"), keep())),
        Op::Insert(..) if len == cap => Some((panic(), keep())),
        Op::TryInsert(_, v) if len == cap => Some((format!("err:full:val:{v}"), keep())),
        Op::Resize(n, _) | Op::ResizeWith(n, _) if *n > cap => Some((panic(), keep())),
        Op::ExtSlice(it) | Op::ExtCopy(it) | Op::ExtArray(it) | Op::Append(_, it)
            if len + it.len() > cap =>
        {
            Some((panic(), keep()))
        }
        Op::ExtWithin(..) | Op::ExtWithinCopy(..) if oracle_after.len() > cap => Some((panic(), keep())),
        // pushes until full: the old elements followed by a prefix of the items
        Op::ExtIter(_, it) if len + it.len() > cap => {
            let mut after = keep();
            after.extend_from_slice(&it[..cap - len]);
            Some((panic(), after))
        }
        Op::From(Src::Iter, hint, it) if *hint > cap || it.len() > cap => Some((panic(), keep())),
        Op::From(src, _, it) if *src != Src::Iter && it.len() > cap => Some((panic(), keep())),
        _ => None,
    }
}

#[derive(Clone, Debug)]
struct Disagreement {
    kind: &'static str, // impl-vs-oracle | impl-vs-model | monitor
    input: Vec<String>,
    expected: String,
    observed: String,
}

/// Everything needed to run sequences for one configuration.
struct Session {
    cfg: Config,
    rig: Rig,
    lean: LeanDriver,
    ops_run: u64,
    /// (only in trace mode) the operations applied since the last reset
    history: Vec<String>,
}

/// `VERIF_TRACE=<path>`: the file that always holds the input being executed.
static TRACE: std::sync::OnceLock<std::fs::File> = std::sync::OnceLock::new();

fn tracing() -> bool {
    TRACE.get().is_some()
}

fn trace_write(line: &str) {
    use std::os::unix::fs::FileExt;
    static LAST_LEN: AtomicUsize = AtomicUsize::new(0);
    if let Some(f) = TRACE.get() {
        let mut buf = line.as_bytes().to_vec();
        buf.push(b'\n');
        let _ = f.write_all_at(&buf, 0);
        // truncate only when the previous line was longer (one syscall less most of the time)
        if LAST_LEN.swap(buf.len(), Ordering::Relaxed) > buf.len() {
            let _ = f.set_len(buf.len() as u64);
        }
    }
}

struct StepOutcome {
    impl_ret: String,
    cap_changed: bool,
    /// (kind, expected, observed)
    issues: Vec<(&'static str, String, String)>,
}

impl Session {
    fn new(cfg: Config, lean_path: &str) -> Result<Session, String> {
        let rig = cfg.rig();
        let lean = LeanDriver::spawn(lean_path, &[]).map_err(|e| format!("spawn {lean_path}: {e}"))?;
        Ok(Session { cfg, rig, lean, ops_run: 0, history: vec![] })
    }

    /// Resets the three sides. Returns issues (initial capacity mismatch).
    fn reset(&mut self) -> Result<Vec<(&'static str, String, String)>, String> {
        self.reset_local();
        let line = self.lean.ask(&self.rig.lean_config.clone()).map_err(|e| e.to_string())?;
        let (len, cap, vals) = self.rig.imp.observe();
        let mine = format!("ok | {}", show_state(len, cap, &vals));
        if line != mine {
            Ok(vec![("impl-vs-model", line, mine)])
        } else {
            Ok(vec![])
        }
    }

    /// Resets the implementation and the oracle (not the Lean driver).
    fn reset_local(&mut self) {
        redzone::watch(true);
        self.rig.imp.reset();
        redzone::watch(false);
        self.rig.oracle.reset();
        self.history.clear();
    }

    /// Runs `op` on the real vector; its allocations are remembered for the red-zone check.
    fn imp_apply(&mut self, op: &Op) -> String {
        redzone::watch(true);
        let r = self.rig.imp.apply(op);
        redzone::watch(false);
        r
    }

    /// Applies `op` to the implementation and the oracle only (keeps the oracle in step with
    /// the capacity rule). Used to rebuild a state.
    fn apply_silent(&mut self, op: &Op) {
        if tracing() {
            self.history.push(op.line());
        }
        let (_, _, pre) = self.rig.oracle.observe();
        let r = self.imp_apply(op);
        let _ = self.rig.imp.take_monitor();
        if r == UNSUPPORTED {
            return;
        }
        let o = self.rig.oracle.apply(op);
        self.sync_oracle(op, &pre, &o);
    }

    /// After the oracle ran `op`: applies the InlineVec capacity rule; returns what the
    /// implementation is required to show (ret, contents).
    fn sync_oracle(&mut self, op: &Op, pre: &[u64], oracle_ret: &str) -> (String, Vec<u64>) {
        let (_, _, after) = self.rig.oracle.observe();
        if let Some(cap) = self.cfg.iv {
            if !oracle_ret.starts_with("panic") && !oracle_ret.starts_with("err") {
                if let Some((ret, vals)) = iv_capacity_rule(pre, cap, op, &after) {
                    self.rig.oracle.force(&vals);
                    return (ret, vals);
                }
            }
        }
        (oracle_ret.to_string(), after)
    }

    /// One compared step. `slot`: `Some(k)` sends `@k <op>` (state saved by the driver).
    fn step(&mut self, op: &Op, slot: Option<usize>) -> Result<StepOutcome, String> {
        self.ops_run += 1;
        let mut issues = vec![];
        if tracing() {
            self.history.push(op.line());
            trace_write(&format!("{} ; {}", self.cfg.line(), self.history.join(" ; ")));
        }
        let (_, cap_before, _) = self.rig.imp.observe();
        let (_, _, pre) = self.rig.oracle.observe();
        let hits_before = redzone::hits();
        let impl_ret = self.imp_apply(op);
        // before anything else touches the heap: did the operation write outside its blocks?
        let damaged = redzone::check_watched();
        let hits = redzone::hits();
        let (len, cap, vals) = self.rig.imp.observe();
        let impl_line = format!("{impl_ret} | {}", show_state(len, cap, &vals));
        if let Some(d) = damaged {
            issues.push(("monitor", "no write outside the vector's allocation".into(), format!("{d}; {impl_line}")));
        }
        if hits != hits_before {
            issues.push((
                "monitor",
                "no write outside an allocation".into(),
                format!("a block freed during this step had a damaged red zone; {impl_line}"),
            ));
        }
        if let Some(m) = self.rig.imp.take_monitor() {
            issues.push(("monitor", "other vector untouched after a panicking append".into(), m));
        }
        if len > cap {
            issues.push(("monitor", "len <= capacity".into(), impl_line.clone()));
        }
        // model
        let line = match slot {
            Some(k) => format!("@{k} {}", op.line()),
            None => op.line(),
        };
        let model_line = self.lean.ask(&line).map_err(|e| e.to_string())?;
        if model_line != impl_line {
            issues.push(("impl-vs-model", model_line, impl_line.clone()));
        }
        // oracle
        if impl_ret != UNSUPPORTED {
            let oracle_ret = self.rig.oracle.apply(op);
            let (want_ret, want_vals) = self.sync_oracle(op, &pre, &oracle_ret);
            if want_ret != impl_ret || want_vals != vals {
                issues.push((
                    "impl-vs-oracle",
                    format!("{want_ret} | {want_vals:?}"),
                    format!("{impl_ret} | {vals:?}"),
                ));
                // keep going from the implementation's state
                self.rig.oracle.force(&vals);
            }
        }
        Ok(StepOutcome { impl_ret, cap_changed: cap != cap_before, issues })
    }

    /// Runs a whole sequence from `new()`; the first issue of each step, tagged with its index.
    fn run_plain(&mut self, ops: &[Op]) -> Result<Vec<(usize, &'static str, String, String)>, String> {
        let mut out = vec![];
        for (k, e, o) in self.reset()? {
            out.push((0, k, e, o));
        }
        for (i, op) in ops.iter().enumerate() {
            let r = self.step(op, None)?;
            for (k, e, o) in r.issues {
                out.push((i, k, e, o));
            }
        }
        Ok(out)
    }

    fn input_lines(&self, ops: &[Op]) -> Vec<String> {
        let mut v = vec![self.cfg.line()];
        v.extend(ops.iter().map(Op::line));
        v
    }

    /// Shrinks a failing sequence (delete operations, shorten payloads) keeping a disagreement
    /// of the same kind.
    fn shrink(&mut self, ops: &[Op], kind: &'static str) -> Result<Disagreement, String> {
        let mut cur: Vec<Op> = ops.to_vec();
        let mut fails = |s: &mut Session, cand: &[Op]| -> Result<Option<(String, String)>, String> {
            let issues = s.run_plain(cand)?;
            Ok(issues.into_iter().find(|(_, k, _, _)| *k == kind).map(|(_, _, e, o)| (e, o)))
        };
        let mut last = match fails(self, &cur)? {
            Some(x) => x,
            None => ("(not reproducible from a fresh state)".to_string(), String::new()),
        };
        let mut budget = 400;
        let mut progress = true;
        while progress && budget > 0 {
            progress = false;
            let mut i = cur.len();
            while i > 0 && budget > 0 {
                i -= 1;
                let mut cand = cur.clone();
                cand.remove(i);
                budget -= 1;
                if let Some(x) = fails(self, &cand)? {
                    cur = cand;
                    last = x;
                    progress = true;
                }
            }
            for i in 0..cur.len() {
                for shorter in cur[i].shorter() {
                    if budget == 0 {
                        break;
                    }
                    let mut cand = cur.clone();
                    cand[i] = shorter;
                    budget -= 1;
                    if let Some(x) = fails(self, &cand)? {
                        cur = cand;
                        last = x;
                        progress = true;
                        break;
                    }
                }
            }
        }
        Ok(Disagreement { kind, input: self.input_lines(&cur), expected: last.0, observed: last.1 })
    }
}

// ---------------------------------------------------------------------------------------------
// Generators
// ---------------------------------------------------------------------------------------------

/// What the generators know about the current state.
#[derive(Clone, Copy)]
struct View {
    iv: bool,
    len: usize,
    cap: usize,
    min_cap: usize,
    modulus: u64,
    copy: bool,
}

impl View {
    /// Number of items that still fit (clamped: a ZST ThinVec has capacity `usize::MAX`).
    fn fit(&self) -> usize {
        (self.cap - self.len).min(130)
    }
}

fn payload(n: usize, base: u64, m: u64) -> Vec<u64> {
    (0..n as u64).map(|i| (base + i) % m).collect()
}

/// Largest usable array length `<= want`, and smallest `> want` (if any).
fn array_len_near(sizes: &[usize], want: usize) -> (usize, Option<usize>) {
    let below = sizes.iter().copied().filter(|s| *s <= want).max().unwrap_or(0);
    let above = sizes.iter().copied().filter(|s| *s > want).min();
    (below, above)
}

fn dedup(mut ops: Vec<Op>) -> Vec<Op> {
    let mut seen: Vec<Op> = vec![];
    ops.retain(|o| {
        if seen.contains(o) {
            false
        } else {
            seen.push(o.clone());
            true
        }
    });
    ops
}

/// The boundary alphabet at a state: indices 0, len-1, len, len+1; counts that just fit /
/// just exceed the capacity.
fn alphabet(v: View, sizes: &[usize], depth: usize) -> Vec<Op> {
    let m = v.modulus;
    let l = v.len;
    let fit = v.fit();
    let val = |k: u64| (depth as u64 * 41 + k * 7 + 1) % m;
    let lm1 = l.saturating_sub(1);
    let mut ops = vec![];
    ops.push(Op::Push(val(0)));
    ops.push(Op::Pop);
    for i in [0, lm1, l, l + 1] {
        ops.push(Op::Insert(i, val(1)));
    }
    for i in [0, lm1, l] {
        ops.push(Op::Remove(i));
        ops.push(Op::SwapRemove(i));
    }
    for n in [0, lm1, l + 1] {
        ops.push(Op::Truncate(n));
    }
    for n in [lm1, v.cap.min(l + fit), l + fit + 1] {
        ops.push(Op::Resize(n, val(2)));
    }
    ops.push(Op::ExtSlice(payload(fit, val(3), m)));
    ops.push(Op::ExtSlice(payload(fit + 1, val(3), m)));
    ops.push(Op::ExtCopy(payload(fit + 1, val(4), m)));
    ops.push(Op::ExtWithin(B::U, B::U));
    ops.push(Op::ExtWithin(B::I(lm1), B::U));
    ops.push(Op::ExtWithin(B::I(0), B::I(l)));
    ops.push(Op::ExtWithin(B::I(1), B::X(0)));
    ops.push(Op::ExtIter(0, payload(fit + 1, val(5), m)));
    ops.push(Op::ExtIter(fit, payload(fit, val(5), m)));
    ops.push(Op::Append(Kind::Vec, payload(fit + 1, val(6), m)));
    for n in [0, l, l + 1] {
        ops.push(Op::SplitOff(n));
    }
    ops.push(Op::Drain(B::U, B::U, "nb".into(), false));
    ops.push(Op::Drain(B::I(1), B::X(lm1.max(1)), "b".into(), false));
    ops.push(Op::Drain(B::I(0), B::X(l + 1), "".into(), false));
    ops.push(Op::Drain(B::X(0), B::U, "n".into(), true));
    if v.iv {
        ops.push(Op::TryPush(val(7)));
        ops.push(Op::PopIf(true));
        ops.push(Op::TryInsert(l, val(8)));
        ops.push(Op::TryInsert(l + 1, val(8)));
        ops.push(Op::ResizeWith(l + fit, payload(fit, val(9), m)));
        ops.push(Op::ResizeWith(l + fit + 1, payload(fit + 1, val(9), m)));
        let (below, above) = array_len_near(sizes, fit);
        ops.push(Op::ExtArray(payload(below, val(10), m)));
        if let Some(a) = above {
            ops.push(Op::ExtArray(payload(a, val(10), m)));
        }
        ops.push(Op::ExtWithinCopy(B::U, B::X(l.min(fit + 1))));
        ops.push(Op::Append(Kind::Tvec, payload(fit, val(11), m)));
        ops.push(Op::IntoIter("nb".into()));
        ops.push(Op::Clone);
        ops.push(Op::From(Src::Boxed, 0, payload(v.cap + 1, val(12), m)));
        ops.push(Op::From(Src::Vec, 0, payload(v.cap, val(12), m)));
        ops.push(Op::From(Src::Iter, 0, payload(v.cap + 1, val(13), m)));
        ops.push(Op::From(Src::Other, 0, payload(1, val(13), m)));
    } else {
        ops.push(Op::TryExtWithin(B::U, B::U));
        ops.push(Op::TryExtWithin(B::I(0), B::I(l)));
        ops.push(Op::ExtIter(2, payload(1, val(5), m)));
        // an iterator that under-reports: the hint is exactly the remaining capacity, one or
        // two more items follow (the `reserve(1)` of item number `hint` is what makes room)
        ops.push(Op::ExtIter(fit, payload(fit + 1, val(14), m)));
        ops.push(Op::ExtIter(fit, payload(fit + 2, val(14), m)));
        let h = v.min_cap.min(130);
        ops.push(Op::From(Src::Iter, h, payload(h + 1, val(15), m)));
        ops.push(Op::Append(Kind::Ivec, payload(fit.min(127), val(11), m)));
        ops.push(Op::TryDrain(B::I(l + 1), B::U, "".into(), false));
        ops.push(Op::TryDrain(B::U, B::X(lm1), "bn".into(), false));
        ops.push(Op::Reserve(fit));
        ops.push(Op::Reserve(fit + 1));
        ops.push(Op::Reserve(usize::MAX));
        ops.push(Op::ReserveExact(fit + 1));
        ops.push(Op::ReserveExact((v.cap.min(1000)) + 1));
        ops.push(Op::ShrinkTo(0));
        ops.push(Op::ShrinkTo(l + 1));
        ops.push(Op::ShrinkFit);
        ops.push(Op::WithCap(v.min_cap.min(1000) + 1));
        ops.push(Op::From(Src::Slice, 0, payload(v.min_cap.min(130) + 1, val(12), m)));
        ops.push(Op::From(Src::Iter, 0, payload(5, val(13), m)));
        ops.push(Op::From(Src::Array, 0, payload(9, val(13), m)));
    }
    dedup(ops)
}

/// A random operation biased towards the boundaries of the current state.
fn random_op(rng: &mut Rng, v: View, sizes: &[usize]) -> Op {
    let m = v.modulus;
    let l = v.len;
    let fit = v.fit();
    let val = |rng: &mut Rng| rng.next_u64() % m;
    let idx = |rng: &mut Rng| -> usize {
        match rng.below(6) {
            0 => 0,
            1 => l.saturating_sub(1),
            2 => l,
            3 => l + 1,
            _ => rng.below(l + 2),
        }
    };
    // a count near what fits
    let count = |rng: &mut Rng| -> usize {
        match rng.below(8) {
            0 => fit,
            1 => fit + 1,
            2 => fit.saturating_sub(1),
            3 => 0,
            _ => rng.below(fit.min(12) + 3),
        }
        .min(140)
    };
    let bound = |rng: &mut Rng| -> B {
        match rng.below(12) {
            0..=3 => B::U,
            4..=7 => B::I(rng.below(l + 2)),
            8..=10 => B::X(rng.below(l + 3)),
            _ => {
                if rng.chance(1, 2) {
                    B::I(usize::MAX)
                } else {
                    B::X(usize::MAX)
                }
            }
        }
    };
    let script = |rng: &mut Rng| -> String {
        (0..rng.below(5)).map(|_| if rng.chance(1, 2) { 'n' } else { 'b' }).collect()
    };
    let items = |rng: &mut Rng, n: usize| -> Vec<u64> { (0..n).map(|_| rng.next_u64() % m).collect() };
    let kinds = [Kind::Vec, Kind::Ivec, Kind::Tvec];
    loop {
        let pick = rng.below(if v.iv { 27 } else { 30 });
        let op = match pick {
            0 | 1 => Op::Push(val(rng)),
            2 => Op::Pop,
            3 => Op::Insert(idx(rng), val(rng)),
            4 => Op::Remove(idx(rng)),
            5 => Op::SwapRemove(idx(rng)),
            6 => Op::Truncate(idx(rng)),
            7 => {
                if rng.chance(1, 3) {
                    Op::Clear
                } else {
                    Op::Truncate(rng.below(l + 2))
                }
            }
            8 => {
                let n = if rng.chance(1, 2) { l + count(rng) } else { rng.below(l + 2) };
                Op::Resize(n, val(rng))
            }
            9 => {
                let n = count(rng);
                Op::ExtSlice(items(rng, n))
            }
            10 => {
                let n = count(rng);
                Op::ExtCopy(items(rng, n))
            }
            11 => Op::ExtWithin(bound(rng), bound(rng)),
            12 => {
                let n = count(rng);
                let hint = match rng.below(4) {
                    0 => 0,
                    1 => n,
                    2 => rng.below(n + 1),
                    _ => n + rng.below(3),
                };
                Op::ExtIter(hint, items(rng, n))
            }
            13 => {
                let n = count(rng);
                let k = *rng.pick(&kinds);
                let n = if k == Kind::Ivec { n.min(127) } else { n };
                Op::Append(k, items(rng, n))
            }
            14 => Op::SplitOff(idx(rng)),
            15 | 16 => Op::Drain(bound(rng), bound(rng), script(rng), rng.chance(1, 4)),
            17 => {
                let srcs = [
                    Src::Array,
                    Src::Boxed,
                    Src::Vec,
                    Src::Other,
                    Src::Slice,
                    Src::SliceCopy,
                    Src::CowB,
                    Src::CowO,
                    Src::Iter,
                ];
                let src = *rng.pick(&srcs);
                let mut n = if v.iv {
                    match rng.below(4) {
                        0 => v.cap,
                        1 => v.cap + 1,
                        _ => rng.below(v.cap + 2),
                    }
                } else {
                    match rng.below(4) {
                        0 => v.min_cap.min(130),
                        1 => v.min_cap.min(130) + 1,
                        _ => rng.below(40),
                    }
                };
                if src == Src::Array {
                    n = *rng.pick(sizes);
                }
                if src == Src::Other {
                    n = n.min(127);
                }
                let hint = if src == Src::Iter {
                    match rng.below(3) {
                        0 => 0,
                        1 => n,
                        _ => rng.below(n + 3),
                    }
                } else {
                    0
                };
                Op::From(src, hint, items(rng, n))
            }
            // InlineVec only
            18 if v.iv => Op::TryPush(val(rng)),
            19 if v.iv => Op::PopIf(rng.chance(2, 3)),
            20 if v.iv => Op::TryInsert(idx(rng), val(rng)),
            21 if v.iv => {
                let n = if rng.chance(1, 2) { l + count(rng) } else { rng.below(l + 2) };
                let k = n.saturating_sub(l);
                Op::ResizeWith(n, items(rng, k))
            }
            22 if v.iv => {
                let n = *rng.pick(sizes);
                Op::ExtArray(items(rng, n))
            }
            23 if v.iv => Op::ExtWithinCopy(bound(rng), bound(rng)),
            24 if v.iv => Op::IntoIter(script(rng)),
            25 | 26 if v.iv => Op::Clone,
            // ThinVec only
            18 => Op::TryExtWithin(bound(rng), bound(rng)),
            19 | 20 => Op::TryDrain(bound(rng), bound(rng), script(rng), rng.chance(1, 4)),
            21 | 22 => Op::Reserve(if rng.chance(1, 40) { usize::MAX } else { count(rng) }),
            23 | 24 => Op::ReserveExact(if rng.chance(1, 40) { usize::MAX } else { count(rng) }),
            25 | 26 => Op::ShrinkTo(rng.below(v.cap.min(200) + 2)),
            27 | 28 => Op::ShrinkFit,
            29 => Op::WithCap(if rng.chance(1, 30) { usize::MAX } else { rng.below(70) }),
            _ => continue,
        };
        if !v.copy
            && matches!(op, Op::ExtCopy(_) | Op::ExtWithinCopy(..) | Op::From(Src::SliceCopy, ..))
        {
            continue;
        }
        return op;
    }
}

// ---------------------------------------------------------------------------------------------
// Jobs, statistics
// ---------------------------------------------------------------------------------------------

#[derive(Clone, Debug)]
enum Mode {
    /// `start`: 0 = from empty, 1 = from `cap - 1` elements, 2 = from `cap` elements.
    Exhaustive { depth: usize, start: usize },
    Random { sequences: usize, length: usize, seed: u64 },
    /// the targeted boundary sequences `PREFLIGHT`
    Preflight,
}

#[derive(Clone, Debug)]
struct Job {
    cfg: Config,
    mode: Mode,
}

#[derive(Default)]
struct Stats {
    evaluations: u64,
    sequences: u64,
    distribution: BTreeMap<String, u64>,
    nontrivial: HashSet<u64>,
    samples: Vec<String>,
    disagreements: Vec<Disagreement>,
    seen_inputs: HashSet<(&'static str, Vec<String>)>,
    errors: Vec<String>,
}

fn outcome_class(ret: &str) -> String {
    let mut parts = ret.split(':');
    let a = parts.next().unwrap_or("");
    match a {
        "panic" | "err" => format!("{a}:{}", parts.next().unwrap_or("")),
        _ => a.to_string(),
    }
}

fn hash_lines(cfg: &str, path: &[Op], op: &Op) -> u64 {
    use std::hash::{Hash, Hasher};
    let mut h = std::collections::hash_map::DefaultHasher::new();
    cfg.hash(&mut h);
    for o in path {
        o.line().hash(&mut h);
    }
    op.line().hash(&mut h);
    h.finish()
}

const MAX_DISAGREEMENTS_PER_JOB: usize = 6;

/// Optional wall-clock budget (`--budget-secs N`): when it is exceeded the enumeration stops
/// early and the run is reported as not exhaustive.
static DEADLINE: std::sync::OnceLock<std::time::Instant> = std::sync::OnceLock::new();
static TRUNCATED: std::sync::atomic::AtomicBool = std::sync::atomic::AtomicBool::new(false);

fn out_of_time() -> bool {
    match DEADLINE.get() {
        Some(d) if std::time::Instant::now() > *d => {
            TRUNCATED.store(true, std::sync::atomic::Ordering::Relaxed);
            true
        }
        _ => false,
    }
}

struct Worker<'a> {
    session: Session,
    stats: &'a Mutex<Stats>,
    local: Stats,
    found: usize,
}

impl Worker<'_> {
    fn view(&self) -> View {
        let (len, cap, _) = self.session.rig.imp.observe();
        View {
            iv: self.session.cfg.iv.is_some(),
            len,
            cap,
            min_cap: self.session.rig.min_cap,
            modulus: self.session.rig.modulus,
            copy: self.session.rig.copy,
        }
    }

    fn record(&mut self, path: &[Op], op: &Op, out: &StepOutcome) {
        let kind = if self.session.cfg.iv.is_some() { "iv" } else { "tv" };
        let class = outcome_class(&out.impl_ret);
        *self.local.distribution.entry(format!("{kind}:{}:{class}", op.name())).or_insert(0) += 1;
        if out.cap_changed {
            *self.local.distribution.entry(format!("{kind}:{}:capacity-changed", op.name())).or_insert(0) += 1;
        }
        self.local.evaluations += 1;
        if class != "ok" || out.cap_changed {
            self.local.nontrivial.insert(hash_lines(&self.session.cfg.line(), path, op));
        }
    }

    fn report(&mut self, ops: &[Op], issues: &[(&'static str, String, String)]) -> Result<(), String> {
        for (kind, expected, observed) in issues {
            if self.found >= MAX_DISAGREEMENTS_PER_JOB {
                return Ok(());
            }
            // crash-localisation runs do not spend time on shrinking
            let d = if tracing() {
                Disagreement {
                    kind,
                    input: self.session.input_lines(ops),
                    expected: expected.clone(),
                    observed: observed.clone(),
                }
            } else {
                self.session.shrink(ops, kind)?
            };
            if self.local.seen_inputs.insert((d.kind, d.input.clone())) {
                self.found += 1;
                self.local.disagreements.push(d);
            }
        }
        Ok(())
    }

    /// Rebuilds implementation + oracle at the end of `path` (the Lean side keeps its slots).
    fn rebuild(&mut self, path: &[Op]) {
        self.session.reset_local();
        for op in path {
            self.session.apply_silent(op);
        }
    }

    fn dfs(&mut self, path: &mut Vec<Op>, depth_left: usize) -> Result<(), String> {
        self.rebuild(path);
        let ops = alphabet(self.view(), self.session.rig.array_sizes, path.len());
        for op in ops {
            if self.found >= MAX_DISAGREEMENTS_PER_JOB || out_of_time() {
                return Ok(());
            }
            self.rebuild(path);
            let out = self.session.step(&op, Some(path.len()))?;
            self.record(path, &op, &out);
            path.push(op);
            if !out.issues.is_empty() {
                let p = path.clone();
                self.report(&p, &out.issues)?;
                // shrinking reset the driver: restore the slots of the current path
                self.restore_slots(&p[..p.len() - 1])?;
                path.pop();
                continue;
            }
            if depth_left > 1 {
                self.dfs(path, depth_left - 1)?;
            } else {
                self.local.sequences += 1;
            }
            path.pop();
        }
        Ok(())
    }

    fn restore_slots(&mut self, path: &[Op]) -> Result<(), String> {
        self.session.reset()?;
        for (i, op) in path.iter().enumerate() {
            self.session.lean.ask(&format!("@{i} {}", op.line())).map_err(|e| e.to_string())?;
        }
        Ok(())
    }

    fn run(&mut self, job: &Job) -> Result<(), String> {
        match &job.mode {
            Mode::Exhaustive { depth, start } => {
                // start states: empty, one below the capacity boundary, at the boundary
                let init = self.session.reset()?;
                if !init.is_empty() {
                    self.report(&[], &init)?;
                }
                let v = self.view();
                let m = v.modulus;
                let cap = v.cap.min(130);
                let mut starts: Vec<Option<Op>> = vec![None];
                for n in [cap.saturating_sub(1), cap] {
                    // (for capacity 1 the "cap - 1" fill is the empty start again: leave a hole)
                    if n == 0 {
                        starts.push(Some(Op::Clear));
                    } else {
                        starts.push(Some(Op::ExtSlice(payload(n, 100, m))));
                    }
                }
                // a start fill that coincides with an earlier one (capacity 1) is skipped
                for s in starts.into_iter().skip(*start).take(1) {
                    let mut path = vec![];
                    self.session.reset()?;
                    if let Some(op) = s {
                        let out = self.session.step(&op, Some(0))?;
                        self.record(&path, &op, &out);
                        path.push(op);
                        if !out.issues.is_empty() {
                            let p = path.clone();
                            self.report(&p, &out.issues)?;
                            continue;
                        }
                    }
                    self.dfs(&mut path, *depth)?;
                }
            }
            Mode::Preflight => {
                for script in PREFLIGHT {
                    let init = self.session.reset()?;
                    if !init.is_empty() {
                        self.report(&[], &init)?;
                        break;
                    }
                    let mut path: Vec<Op> = vec![];
                    for step in script.iter() {
                        let Some(op) = pf_op(*step, self.view()) else { continue };
                        let out = self.session.step(&op, None)?;
                        self.record(&path, &op, &out);
                        path.push(op);
                        if !out.issues.is_empty() {
                            let p = path.clone();
                            self.report(&p, &out.issues)?;
                            break;
                        }
                    }
                    self.local.sequences += 1;
                }
            }
            Mode::Random { sequences, length, seed } => {
                let mut rng = Rng::new(*seed);
                for s in 0..*sequences {
                    if self.found >= MAX_DISAGREEMENTS_PER_JOB || out_of_time() {
                        break;
                    }
                    let init = self.session.reset()?;
                    if !init.is_empty() {
                        self.report(&[], &init)?;
                        break;
                    }
                    let mut path: Vec<Op> = vec![];
                    for _ in 0..*length {
                        let op = random_op(&mut rng, self.view(), self.session.rig.array_sizes);
                        let out = self.session.step(&op, None)?;
                        self.record(&path, &op, &out);
                        path.push(op);
                        if !out.issues.is_empty() {
                            let p = path.clone();
                            self.report(&p, &out.issues)?;
                            break;
                        }
                    }
                    self.local.sequences += 1;
                    if s == 0 && self.local.samples.len() < 2 {
                        let mut lines = self.session.input_lines(&path);
                        lines.truncate(12);
                        self.local.samples.push(lines.join("; "));
                    }
                }
            }
        }
        Ok(())
    }

    fn merge(self) {
        let mut g = self.stats.lock().unwrap();
        g.evaluations += self.local.evaluations;
        g.sequences += self.local.sequences;
        for (k, v) in self.local.distribution {
            *g.distribution.entry(k).or_insert(0) += v;
        }
        g.nontrivial.extend(self.local.nontrivial);
        if g.samples.len() < 8 {
            g.samples.extend(self.local.samples);
        }
        for d in self.local.disagreements {
            if g.seen_inputs.insert((d.kind, d.input.clone())) {
                g.disagreements.push(d);
            }
        }
    }
}

// ---------------------------------------------------------------------------------------------
// main
// ---------------------------------------------------------------------------------------------

fn all_configs() -> Vec<Config> {
    let mut v = vec![];
    for ty in TYPES {
        for cap in CAPS {
            // the heap-owning element type: two capacities, two prefixes, random part only
            if ty == "box" && cap != 2 && cap != 23 {
                continue;
            }
            v.push(Config { iv: Some(cap), ty, prefix: "reserved" });
        }
        for prefix in PREFIXES {
            if ty == "box" && prefix == "unit" {
                continue;
            }
            v.push(Config { iv: None, ty, prefix });
        }
    }
    v
}

/// Pre-flight: targeted boundary sequences, instantiated on the live state.
#[derive(Clone, Copy, Debug)]
enum Pf {
    /// `extend_from_slice` of exactly what still fits
    FillToCap,
    Push,
    /// `reserve_exact(remaining + 3)` (ThinVec)
    ReserveExactBeyond,
    ShrinkFit,
    /// `extend(iter)` whose size hint is exactly the remaining capacity, `n` more items follow
    ExtIterExact(usize),
    /// `from_iter` whose size hint is the capacity it will get, one more item follows
    FromIterExact,
}

const PREFLIGHT: &[&[Pf]] = &[
    &[Pf::ExtIterExact(1)],
    &[Pf::ExtIterExact(2)],
    &[Pf::FillToCap, Pf::ExtIterExact(1)],
    &[Pf::Push, Pf::ReserveExactBeyond, Pf::ExtIterExact(1)],
    &[Pf::Push, Pf::ReserveExactBeyond, Pf::ExtIterExact(2), Pf::Push],
    &[Pf::Push, Pf::ShrinkFit, Pf::ExtIterExact(1), Pf::Push],
    &[Pf::FromIterExact, Pf::Push],
    &[Pf::FillToCap, Pf::Push, Pf::ShrinkFit, Pf::Push],
];

fn pf_op(step: Pf, v: View) -> Option<Op> {
    let m = v.modulus;
    let fit = v.fit();
    match step {
        Pf::FillToCap if fit > 0 => Some(Op::ExtSlice(payload(fit, 50, m))),
        Pf::FillToCap => None,
        Pf::Push => Some(Op::Push(7 % m)),
        Pf::ReserveExactBeyond if !v.iv => Some(Op::ReserveExact(fit + 3)),
        Pf::ShrinkFit if !v.iv => Some(Op::ShrinkFit),
        Pf::ReserveExactBeyond | Pf::ShrinkFit => None,
        Pf::ExtIterExact(extra) => Some(Op::ExtIter(fit, payload(fit + extra, 90, m))),
        Pf::FromIterExact if v.iv => Some(Op::From(Src::Iter, v.cap - 1, payload(v.cap, 20, m))),
        Pf::FromIterExact => {
            let h = v.min_cap.min(130);
            Some(Op::From(Src::Iter, h, payload(h + 1, 20, m)))
        }
    }
}

fn jobs_for(tier: &str, seed: u64) -> Vec<Job> {
    let thorough = tier == "thorough";
    let (sequences, length) = if thorough { (1500, 80) } else { (120, 50) };
    let mut jobs = vec![];
    let mut rng = Rng::new(seed);
    for cfg in all_configs() {
        // The element type does not influence InlineVec's control flow and the prefix only shifts
        // ThinVec's header: the deepest enumeration is run on a representative subset, the rest
        // one level shallower; every configuration gets the random sequences.
        let depth = match (thorough, cfg.iv, cfg.ty, cfg.prefix) {
            (true, Some(1 | 2 | 7), "u8", _) => 4,
            (true, Some(1), "u64", _) | (true, Some(2), "unit" | "p16", _) | (true, Some(7), "a64", _) => 4,
            (true, None, _, "reserved") | (true, None, "u8", "unit") | (true, None, "u64", "p32") => 4,
            (true, _, _, _) => 3,
            (false, Some(1 | 2 | 7 | 23), "u8", _) => 3,
            (false, Some(2), _, _) => 3,
            (false, Some(_), _, _) => 2,
            (false, None, _, "reserved") => 3,
            (false, None, "u8", "unit") | (false, None, "u64" | "a64", "p32") => 3,
            (false, None, _, _) => 2,
        };
        for start in 0..3 {
            if cfg.ty != "box" {
                jobs.push(Job { cfg: cfg.clone(), mode: Mode::Exhaustive { depth, start } });
            }
        }
        jobs.push(Job { cfg, mode: Mode::Random { sequences, length, seed: rng.next_u64() } });
    }
    // the (cheap) random jobs first, then the enumerations, deepest first
    jobs.sort_by_key(|j| match j.mode {
        Mode::Preflight => (0, 0),
        Mode::Random { .. } => (1, 0),
        Mode::Exhaustive { depth, .. } => (2, usize::MAX - depth),
    });
    jobs
}

fn json_str(s: &str) -> String {
    serde_json::to_string(s).unwrap()
}

fn write_stats(path: &str, tier: &str, seed: u64, stats: &Stats, elapsed: f64) -> std::io::Result<()> {
    let profile = if cfg!(debug_assertions) { "debug" } else { "release" };
    let mut s = String::new();
    s.push_str("{\n");
    s.push_str(&format!("  \"suite\": \"vecdrive\", \"property\": \"C13\", \"tier\": {}, \"seed\": {seed},\n", json_str(tier)));
    s.push_str(&format!("  \"evaluations\": {},\n", stats.evaluations));
    s.push_str(&format!("  \"sequences\": {},\n", stats.sequences));
    s.push_str(&format!("  \"distinct_nontrivial\": {},\n", stats.nontrivial.len()));
    s.push_str(&format!("  \"elapsed_seconds\": {elapsed:.1},\n"));
    s.push_str(&format!("  \"profile\": {},\n", json_str(profile)));
    s.push_str(&format!(
        "  \"rule\": {},\n",
        json_str(
            "per step: canonical line `<ret> | len cap [values]` of the real InlineVec/ThinVec must equal the Lean L1 \
             model's line (capacity compared exactly); returned value and contents must equal std Vec's, panics exactly \
             where Vec panics plus (InlineVec) where len would exceed CAP: try_ variants return err:full/err:oob with the \
             value, others panic:capacity, contents = old ++ prefix of the appended items; append leaves the source empty \
             or untouched; len <= capacity. Bounded-exhaustive part: every sequence over the state-dependent boundary \
             alphabet up to the tier's depth from 3 start fills (empty, cap-1, cap) for every element type x capacity / \
             prefix; random part: seeded sequences."
        )
    ));
    s.push_str(&format!(
        "  \"exhaustive\": {},\n",
        !TRUNCATED.load(std::sync::atomic::Ordering::Relaxed) && tier != "replay"
    ));
    s.push_str("  \"distribution\": {\n");
    let n = stats.distribution.len();
    for (i, (k, v)) in stats.distribution.iter().enumerate() {
        s.push_str(&format!("    {}: {v}{}\n", json_str(k), if i + 1 < n { "," } else { "" }));
    }
    s.push_str("  },\n");
    s.push_str("  \"samples\": [");
    s.push_str(&stats.samples.iter().map(|x| json_str(x)).collect::<Vec<_>>().join(", "));
    s.push_str("],\n");
    s.push_str("  \"errors\": [");
    s.push_str(&stats.errors.iter().map(|x| json_str(x)).collect::<Vec<_>>().join(", "));
    s.push_str("],\n");
    s.push_str("  \"disagreements\": [\n");
    let n = stats.disagreements.len();
    for (i, d) in stats.disagreements.iter().enumerate() {
        s.push_str(&format!(
            "    {{\"kind\": {}, \"input\": [{}], \"expected\": {}, \"observed\": {}, \"profile\": {}}}{}\n",
            json_str(d.kind),
            d.input.iter().map(|x| json_str(x)).collect::<Vec<_>>().join(", "),
            json_str(&d.expected),
            json_str(&d.observed),
            json_str(profile),
            if i + 1 < n { "," } else { "" }
        ));
    }
    s.push_str("  ]\n}\n");
    std::fs::write(path, s)
}

/// `--replay file.json`: `{"input": ["ivec 7 u8", "push 1", …]}` (a disagreement record works).
fn replay(path: &str, lean: &str) -> Result<Stats, String> {
    let text = std::fs::read_to_string(path).map_err(|e| format!("{path}: {e}"))?;
    let json: serde_json::Value = serde_json::from_str(&text).map_err(|e| format!("{path}: {e}"))?;
    let input = json
        .get("input")
        .and_then(|v| v.as_array())
        .ok_or_else(|| format!("{path}: no \"input\" array"))?;
    let lines: Vec<String> = input.iter().filter_map(|v| v.as_str().map(str::to_string)).collect();
    let cfg = lines
        .first()
        .and_then(|l| Config::parse(l))
        .ok_or_else(|| "first input line must be `ivec <cap> <ty>` or `tvec <ty> <prefix>`".to_string())?;
    let ops: Vec<Op> = lines[1..]
        .iter()
        .map(|l| Op::parse(l).ok_or_else(|| format!("cannot parse operation `{l}`")))
        .collect::<Result<_, _>>()?;
    let mut session = Session::new(cfg, lean)?;
    let mut stats = Stats::default();
    for (k, e, o) in session.reset()? {
        stats.disagreements.push(Disagreement { kind: k, input: vec![lines[0].clone()], expected: e, observed: o });
    }
    for (i, op) in ops.iter().enumerate() {
        let out = session.step(op, None)?;
        stats.evaluations += 1;
        let (len, cap, vals) = session.rig.imp.observe();
        println!("{:<40} -> {} | {}", op.line(), out.impl_ret, show_state(len, cap, &vals));
        *stats.distribution.entry(format!("{}:{}", op.name(), outcome_class(&out.impl_ret))).or_insert(0) += 1;
        for (k, e, o) in out.issues {
            println!("    DISAGREEMENT {k}: expected `{e}` observed `{o}`");
            stats.disagreements.push(Disagreement {
                kind: k,
                input: lines[..i + 2].to_vec(),
                expected: e,
                observed: o,
            });
        }
    }
    stats.sequences = 1;
    Ok(stats)
}

fn main() {
    let cli = parse_cli();
    let started = std::time::Instant::now();
    // panics are expected and classified from their payload: keep stderr quiet
    std::panic::set_hook(Box::new(|_| {}));
    let lean = match &cli.lean {
        Some(l) => l.clone(),
        None => {
            eprintln!("vecdrive: --lean <path to vec_driver> is required");
            std::process::exit(2);
        }
    };
    let out_path = cli.out.clone().unwrap_or_else(|| "stats.json".into());
    if let Some(i) = cli.extra.iter().position(|a| a == "--budget-secs") {
        match cli.extra.get(i + 1).and_then(|v| v.parse::<u64>().ok()) {
            Some(secs) => {
                let _ = DEADLINE.set(started + std::time::Duration::from_secs(secs));
            }
            None => {
                eprintln!("vecdrive: --budget-secs needs a number");
                std::process::exit(2);
            }
        }
    }

    if let Some(file) = &cli.replay {
        match replay(file, &lean) {
            Ok(stats) => {
                let _ = write_stats(&out_path, "replay", cli.seed, &stats, started.elapsed().as_secs_f64());
                std::process::exit(if stats.disagreements.is_empty() { 0 } else { 1 });
            }
            Err(e) => {
                eprintln!("vecdrive: {e}");
                std::process::exit(2);
            }
        }
    }

    // crash localisation mode
    if let Ok(path) = std::env::var("VERIF_TRACE") {
        if !path.is_empty() {
            match std::fs::OpenOptions::new().write(true).create(true).truncate(true).open(&path) {
                Ok(f) => {
                    let _ = TRACE.set(f);
                }
                Err(e) => {
                    eprintln!("vecdrive: VERIF_TRACE={path}: {e}");
                    std::process::exit(2);
                }
            }
        }
    }

    let stats = Arc::new(Mutex::new(Stats::default()));

    // phase 1: pre-flight, single-threaded, stops at the first configuration with a disagreement
    if !cli.extra.iter().any(|a| a == "--no-preflight") {
        for cfg in all_configs() {
            if !run_job(&Job { cfg, mode: Mode::Preflight }, &lean, &stats) {
                break;
            }
            if !stats.lock().unwrap().disagreements.is_empty() {
                TRUNCATED.store(true, std::sync::atomic::Ordering::Relaxed);
                finish(&cli.tier, cli.seed, &out_path, &stats.lock().unwrap(), started);
            }
        }
    }

    // phase 2: random sequences, then the bounded-exhaustive enumerations
    let jobs = Arc::new(Mutex::new(jobs_for(&cli.tier, cli.seed)));
    let threads = if tracing() {
        1
    } else {
        std::thread::available_parallelism().map(|n| n.get()).unwrap_or(4).min(16)
    };
    let mut handles = vec![];
    for _ in 0..threads {
        let jobs = jobs.clone();
        let stats = stats.clone();
        let lean = lean.clone();
        handles.push(std::thread::spawn(move || loop {
            let job = {
                let mut q = jobs.lock().unwrap();
                if q.is_empty() {
                    break;
                }
                q.remove(0)
            };
            if !run_job(&job, &lean, &stats) {
                break;
            }
        }));
    }
    for h in handles {
        if h.join().is_err() {
            stats.lock().unwrap().errors.push("worker thread panicked".into());
        }
    }
    let stats = stats.lock().unwrap();
    finish(&cli.tier, cli.seed, &out_path, &stats, started)
}

/// Runs one job and merges its statistics; `false` = the Lean driver could not be started.
fn run_job(job: &Job, lean: &str, stats: &Mutex<Stats>) -> bool {
    let session = match Session::new(job.cfg.clone(), lean) {
        Ok(s) => s,
        Err(e) => {
            stats.lock().unwrap().errors.push(e);
            return false;
        }
    };
    let mut w = Worker { session, stats, local: Stats::default(), found: 0 };
    if let Err(e) = w.run(job) {
        stats.lock().unwrap().errors.push(format!("{}: {e}", job.cfg.line()));
    }
    w.merge();
    true
}

/// Writes stats.json, prints the summary, exits with the contract's code.
fn finish(tier: &str, seed: u64, out_path: &str, stats: &Stats, started: std::time::Instant) -> ! {
    let elapsed = started.elapsed().as_secs_f64();
    if let Err(e) = write_stats(out_path, tier, seed, stats, elapsed) {
        eprintln!("vecdrive: cannot write {out_path}: {e}");
        std::process::exit(2);
    }
    let by_kind = |k: &str| stats.disagreements.iter().filter(|d| d.kind == k).count();
    println!(
        "vecdrive: tier={} seed={} evaluations={} sequences={} distinct_nontrivial={} \
         impl-vs-oracle={} impl-vs-model={} monitor={} errors={} ({elapsed:.1}s)",
        tier,
        seed,
        stats.evaluations,
        stats.sequences,
        stats.nontrivial.len(),
        by_kind("impl-vs-oracle"),
        by_kind("impl-vs-model"),
        by_kind("monitor"),
        stats.errors.len()
    );
    for d in stats.disagreements.iter().take(10) {
        println!("  {}: input={:?}\n    expected: {}\n    observed: {}", d.kind, d.input, d.expected, d.observed);
    }
    if !stats.errors.is_empty() {
        for e in &stats.errors {
            eprintln!("vecdrive: error: {e}");
        }
        std::process::exit(2);
    }
    std::process::exit(if stats.disagreements.is_empty() { 0 } else { 1 });
}
