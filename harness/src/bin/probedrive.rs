//! rustc as the correspondence oracle for the table properties C05 and C17.
//!
//! `probedrive --tier quick|thorough --seed <u64> --lean <tables_driver> --out <stats.json>
//!             [--only c05|c06|c17] [--replay <file.json>] [--repo <dir, default /repo>] [--keep]`
//!
//! `--only c05` builds/runs/reports only the C05 suite (auto-trait rows vs rustc + `rows_c05`),
//! `--only c17` only the C17 suites (unsafe entry points, escape corpus, self-escape,
//! `rows_c17`/sites, stale-table check); without it both run. `--replay` is accepted and
//! ignored: the quantifier is the finite set of table rows, so a replay is a full re-run.
//!
//! Builds ONE throw-away cargo workspace under `/tmp/scratch/probe-<pid>/` (three lib crates
//! that path-depend on the repo, offline, sharing a target dir) and runs ONE
//! `cargo check --workspace --message-format=json`; diagnostics are attributed to probes by file
//! and line.
//!
//! * crate `autotrait` (C05): one fn per (public type × backend × Send/Sync × lifetime variant)
//!   row; rustc's accept/reject verdict must equal `Model.AutoTrait.holds` as answered by the
//!   Lean driver (`autotrait …`). Disagreement = the model's base facts are wrong or the crate
//!   changed.
//!   The same crate also holds the PER-PARAMETER probes: for every public type with type
//!   parameters (and for every `unsafe impl Send/Sync` row of Gen/Surface), each parameter that
//!   occurs in a field type is instantiated with a non-`Send` (`Rc<()>`) resp. non-`Sync`
//!   (`Cell<u8>`) witness — `need_send::<ThinVec<u8, Rc<()>>>()` — and rustc MUST reject it,
//!   unless the parameter is on the reviewed phantom list (driver: `phantom_params`); the
//!   positive twin of an `unsafe impl` row (all parameters well behaved) must compile. This is
//!   the probe that turns a new / under-bounded `unsafe impl` into a concrete accepted program.
//! * crate `unsafety` (C17): for every row of the public-function table with `nameUnchecked`,
//!   `hasSafetyDoc` or `forwardsToUnsafe` (a pure forwarder of its parameters to a callee in
//!   unsafe context) — taken from the same translator that generates `Gen/PubFns.lean`, and
//!   cross-checked against the Lean driver's `unsafe_rows` — and for every other `unsafe fn`
//!   row, a call WITHOUT `unsafe` that must be rejected with E0133, and the same call inside
//!   `unsafe {}` that must compile. Macro-generated methods are called through the public
//!   trait they implement (`<SelfTy as MutVector>::set_len(…)`).
//! * crate `selfescape` (C17): for every safe `&self`/`&mut self` method whose result carries a
//!   region, a program that lets the result outlive a local receiver; rustc's verdict must equal
//!   the lifetime skeleton's prediction, and a result that contains a reference (or comes from a
//!   type holding a `&mut` borrow: `Drain`, the `RefMut` guards) must be rejected unless the row
//!   is a reviewed borrowed-view / never-borrowed function (`escape_exempt`).
//! * crate `doors` (C06, signature part; `--only c06`): the hand-written corpus
//!   `probes/doors.rs` — raw bytes cannot be turned into a HipStr/HipOsStr/HipPath by an
//!   infallible safe conversion (must be rejected) with twins through the checked doors — plus
//!   one generated call per row that the driver's `rows_c06` reports (none on a sound tree):
//!   rustc accepting it is the concrete witness of the unchecked door.
//! * crate `bounds` (C17): the corpus `probes/bounds.rs` — each bitwise-copy fn of the vector
//!   types instantiated at `String` (must be rejected, E0277) and at `u32` (must compile) — plus,
//!   for every row of Gen/PubFns that must require `T: Copy` (same set as the driver's
//!   `copy_rows`), a generated call at `String` (must be rejected) and at `u8` (must compile).
//! * crate `macros` (C17): `probes/macros.rs` — under `#![forbid(unsafe_code)]`, a raw-pointer
//!   deref passed as an ARGUMENT of each exported macro that takes an expression (same set as the
//!   driver's `expr_macros`) must be rejected (E0133): the macro does not expand caller code
//!   inside an `unsafe` block of its own.
//! * crate `constgen` (C17): `probes/constgen.rs` — instantiations of `InlineVec` that violate a
//!   const-parameter guard (`TAG == 1 << SHIFT`, `SHIFT == 0`, `CAP > max` …) must fail to BUILD
//!   (E0080; a second invocation `cargo build -p probe_constgen`, since `cargo check` does not
//!   evaluate the guards), their twins must build.
//! * crate `escape` (C17): the hand-written corpus `probes/escape.rs` of borrow-escape programs
//!   (must be rejected by the borrow checker) and their must-compile twins; the expectation of
//!   each is also checked against the model (`tied <row>`).
//!
//! Exit 0 = no disagreement, 1 = disagreement(s), 2 = internal error (a probe could not be
//! generated or failed for an unrelated reason).

use std::collections::{BTreeMap, BTreeSet};
use std::path::{Path, PathBuf};
use std::process::Command;

use hipverif_harness::extract::autotraits::{CrateModel, FEATURES_ON};
use hipverif_harness::extract::{pubfns, surface, Repo};
use hipverif_harness::util::{parse_cli, LeanDriver};
use serde_json::{json, Value};

const ESCAPE_SRC: &str = include_str!("../../probes/escape.rs");
const AUTOTRAIT_PRELUDE: &str = include_str!("../../probes/autotrait_prelude.rs");
const UNSAFE_PRELUDE: &str = include_str!("../../probes/unsafe_prelude.rs");
const SELFESCAPE_PRELUDE: &str = include_str!("../../probes/selfescape_prelude.rs");
const BOUNDS_SRC: &str = include_str!("../../probes/bounds.rs");
const MACROS_SRC: &str = include_str!("../../probes/macros.rs");
const CONSTGEN_SRC: &str = include_str!("../../probes/constgen.rs");
const DOORS_SRC: &str = include_str!("../../probes/doors.rs");
const PACKAGE_TMPL: &str = include_str!("../../probes/package.toml.tmpl");

/// The throw-away workspace (removed on every exit path unless `--keep`).
static WORKDIR: std::sync::OnceLock<(PathBuf, bool)> = std::sync::OnceLock::new();

fn cleanup() {
    if let Some((dir, keep)) = WORKDIR.get() {
        if !keep {
            let _ = std::fs::remove_dir_all(dir);
        }
    }
}

fn internal(msg: &str) -> ! {
    cleanup();
    eprintln!("probedrive: internal error: {msg}");
    std::process::exit(2);
}

/// Rust spelling of a C05 row: a type (with `{B}` for the backend and `{L}` for the lifetime) or
/// a value expression (for types that cannot be named from outside the crate).
enum Spelling {
    Type(&'static str),
    /// (parameter list of the probe fn, expression)
    Value(&'static str, &'static str),
}

fn spelling(name: &str) -> Option<Spelling> {
    use Spelling::*;
    Some(match name {
        "HipByt" => Type("::hipstr::bytes::HipByt<{L}, {B}>"),
        "HipStr" => Type("::hipstr::string::HipStr<{L}, {B}>"),
        "HipOsStr" => Type("::hipstr::os_string::HipOsStr<{L}, {B}>"),
        "HipPath" => Type("::hipstr::path::HipPath<{L}, {B}>"),
        "bytes::RefMut" => Type("::hipstr::bytes::RefMut<{L}, {L}, {B}>"),
        "string::RefMut" => Type("::hipstr::string::RefMut<{L}, {L}, {B}>"),
        "os_string::RefMut" => Type("::hipstr::os_string::RefMut<{L}, {L}, {B}>"),
        "path::RefMut" => Type("::hipstr::path::RefMut<{L}, {L}, {B}>"),
        "bytes::SliceError" => Type("::hipstr::bytes::SliceError<{L}, {L}, {B}>"),
        "string::SliceError" => Type("::hipstr::string::SliceError<{L}, {L}, {B}>"),
        "string::FromUtf8Error" => Type("::hipstr::string::FromUtf8Error<{L}, {B}>"),
        // `string::pattern::IterWrapper` is not nameable: probe the value returned by
        // `split_whitespace` (inner iterator `SplitWhitespace`, which is Send + Sync)
        "IterWrapper" => Value(
            "x: &{L} ::hipstr::string::HipStr<{L}, {B}>",
            "x.split_whitespace()",
        ),
        "Arc" => Type("::hipstr::Arc"),
        "Rc" => Type("::hipstr::Rc"),
        "Unique" => Type("::hipstr::Unique"),
        "InlineVec<u8>" => Type("::hipstr::vecs::InlineVec<u8, 7>"),
        "InlineVec<Rc>" => Type("::hipstr::vecs::InlineVec<::hipstr::Rc, 7>"),
        "ThinVec<u8>" => Type("::hipstr::vecs::ThinVec<u8>"),
        "Drain<Vec<u8>>" => Type("::hipstr::common::drain::Drain<{L}, ::alloc::vec::Vec<u8>>"),
        "inline::IntoIter<u8>" => Type("::hipstr::vecs::inline::IntoIter<u8, 7, 1, 1>"),
        "InsertError<u8>" => Type("::hipstr::vecs::inline::InsertError<u8>"),
        "RangeError" => Type("::hipstr::common::RangeError"),
        _ => return None,
    })
}

struct AutoRow {
    ty: String,
    backend: String,
    tr: String,
    variant: &'static str,
    line: usize,
    code: String,
    model: bool,
}

struct UnsafeRow {
    name: String,
    loc: String,
    u_line: usize,
    s_line: usize,
    u_code: String,
    s_code: String,
}

struct EscapeProbe {
    name: String,
    must_fail: bool,
    row: Option<String>,
    first_line: usize,
    text: String,
}

#[derive(Default, Clone)]
struct Diag {
    codes: BTreeSet<String>,
    messages: Vec<String>,
}

fn write(path: &Path, content: &str) {
    if let Some(p) = path.parent() {
        std::fs::create_dir_all(p).unwrap_or_else(|e| internal(&format!("mkdir {p:?}: {e}")));
    }
    std::fs::write(path, content).unwrap_or_else(|e| internal(&format!("write {path:?}: {e}")));
}

/// `cargo build -p <krate>`: lines of the crate's `src/lib.rs` at which rustc reports a
/// post-monomorphization failure ("the above error was encountered while instantiating …"),
/// with the const-evaluation errors seen (for display).
fn cargo_build_instantiation_failures(dir: &Path, krate: &str) -> (BTreeMap<usize, String>, Vec<String>) {
    let out = Command::new("cargo")
        .arg("build")
        .arg("-p")
        .arg(krate)
        .arg("--message-format=json")
        .current_dir(dir)
        .env("CARGO_TARGET_DIR", dir.join("target"))
        .env_remove("RUSTFLAGS")
        .output()
        .unwrap_or_else(|e| internal(&format!("cannot run cargo build: {e}")));
    let mut lines: BTreeMap<usize, String> = BTreeMap::new();
    let mut errors: Vec<String> = vec![];
    let mut finished = false;
    for line in String::from_utf8_lossy(&out.stdout).lines() {
        let Ok(v) = serde_json::from_str::<Value>(line) else { continue };
        match v["reason"].as_str() {
            Some("build-finished") => finished = true,
            Some("compiler-message") => {
                let target = v["target"]["name"].as_str().unwrap_or("");
                let msg = &v["message"];
                let level = msg["level"].as_str().unwrap_or("");
                let text = msg["message"].as_str().unwrap_or("").to_string();
                if level == "error" && !target.starts_with("probe_") {
                    internal(&format!("build error outside the probe crates ({target}): {text}"));
                }
                if target != krate {
                    continue;
                }
                if level == "error" {
                    let code = msg["code"]["code"].as_str().unwrap_or("");
                    if text.starts_with("aborting due to") || text.starts_with("could not compile") {
                        continue;
                    }
                    if code != "E0080" {
                        internal(&format!("{krate}: unexpected build error {code}: {text}"));
                    }
                    errors.push(text);
                } else if level == "note" && text.contains("encountered while instantiating") {
                    if let Some(spans) = msg["spans"].as_array() {
                        for sp in spans {
                            let file = sp["file_name"].as_str().unwrap_or("");
                            if sp["is_primary"].as_bool() == Some(true) && file.ends_with("src/lib.rs") && !file.starts_with('/') {
                                lines.insert(sp["line_start"].as_u64().unwrap_or(0) as usize, text.clone());
                            }
                        }
                    }
                }
            }
            _ => {}
        }
    }
    if !finished {
        internal(&format!("cargo build did not finish:\n{}", String::from_utf8_lossy(&out.stderr)));
    }
    (lines, errors)
}

/// Runs cargo check on the workspace; returns per-crate, per-line error diagnostics.
fn cargo_check(dir: &Path, crates: &[&str]) -> BTreeMap<String, BTreeMap<usize, Diag>> {
    let out = Command::new("cargo")
        .arg("check")
        .arg("--workspace")
        .arg("--message-format=json")
        .current_dir(dir)
        .env("CARGO_TARGET_DIR", dir.join("target"))
        .env_remove("RUSTFLAGS")
        .output()
        .unwrap_or_else(|e| internal(&format!("cannot run cargo: {e}")));
    let stdout = String::from_utf8_lossy(&out.stdout);
    let mut res: BTreeMap<String, BTreeMap<usize, Diag>> = BTreeMap::new();
    let mut finished = false;
    let mut checked: BTreeSet<String> = BTreeSet::new();
    for line in stdout.lines() {
        let Ok(v) = serde_json::from_str::<Value>(line) else {
            continue;
        };
        match v["reason"].as_str() {
            Some("build-finished") => finished = true,
            Some("compiler-artifact") => {
                if let Some(n) = v["target"]["name"].as_str() {
                    checked.insert(n.to_string());
                }
            }
            Some("compiler-message") => {
                let target = v["target"]["name"].as_str().unwrap_or("").to_string();
                let msg = &v["message"];
                if msg["level"].as_str() != Some("error") {
                    continue;
                }
                let code = msg["code"]["code"].as_str().unwrap_or("").to_string();
                let text = msg["message"].as_str().unwrap_or("").to_string();
                if text.starts_with("aborting due to") || text.starts_with("could not compile") {
                    continue;
                }
                if !target.starts_with("probe_") {
                    internal(&format!("error outside the probe crates ({target}): {text}"));
                }
                checked.insert(target.clone());
                let mut placed = false;
                if let Some(spans) = msg["spans"].as_array() {
                    for sp in spans {
                        if sp["is_primary"].as_bool() == Some(true) {
                            // an error inside a macro expansion is attributed to the outermost
                            // call site (which is in the probe file)
                            let mut sp = sp;
                            while !sp["expansion"].is_null() {
                                sp = &sp["expansion"]["span"];
                            }
                            let file = sp["file_name"].as_str().unwrap_or("");
                            if !file.ends_with("src/lib.rs") || file.starts_with('/') {
                                internal(&format!("error located outside the probe file ({file}) in {target}: {text}"));
                            }
                            let ln = sp["line_start"].as_u64().unwrap_or(0) as usize;
                            let d = res.entry(target.clone()).or_default().entry(ln).or_default();
                            d.codes.insert(code.clone());
                            d.messages.push(text.clone());
                            placed = true;
                        }
                    }
                }
                if !placed {
                    internal(&format!("error without a primary span in {target}: {text}"));
                }
            }
            _ => {}
        }
    }
    if !finished {
        internal(&format!(
            "cargo check did not finish:\n{}",
            String::from_utf8_lossy(&out.stderr)
        ));
    }
    for c in crates {
        let c = &format!("probe_{c}");
        if !checked.contains(c) {
            internal(&format!(
                "crate {c} was not checked:\n{}",
                String::from_utf8_lossy(&out.stderr)
            ));
        }
    }
    res
}

fn parse_escape() -> Vec<EscapeProbe> {
    parse_corpus(ESCAPE_SRC)
}

fn parse_corpus(src: &str) -> Vec<EscapeProbe> {
    let mut probes: Vec<EscapeProbe> = vec![];
    for (i, l) in src.lines().enumerate() {
        if let Some(h) = l.strip_prefix("//@ ") {
            let mut it = h.splitn(3, ' ');
            let name = it.next().unwrap_or("").to_string();
            let kind = it.next().unwrap_or("");
            let row = it
                .next()
                .and_then(|r| r.strip_prefix("row="))
                .unwrap_or_else(|| internal(&format!("escape.rs:{}: malformed header", i + 1)));
            let must_fail = match kind {
                "must_fail" => true,
                "must_compile" => false,
                _ => internal(&format!("escape.rs:{}: bad expectation `{kind}`", i + 1)),
            };
            probes.push(EscapeProbe {
                name,
                must_fail,
                row: if row == "-" { None } else { Some(row.to_string()) },
                first_line: i + 1,
                text: String::new(),
            });
        } else if let Some(p) = probes.last_mut() {
            p.text.push_str(l);
            p.text.push('\n');
        }
    }
    probes
}

const BORROWCK_CODES: &[&str] = &[
    "E0499", "E0502", "E0503", "E0505", "E0506", "E0507", "E0515", "E0521", "E0597", "E0621",
    "E0700", "E0712", "E0713", "E0716", "E0106", "E0310", "E0495", "E0623", "E0759",
];

fn main() {
    let cli = parse_cli();
    let mut repo_dir = PathBuf::from("/repo");
    let mut keep = false;
    let (mut run_c05, mut run_c17, mut run_c06) = (true, true, true);
    let mut i = 0;
    while i < cli.extra.len() {
        match cli.extra[i].as_str() {
            "--repo" => {
                i += 1;
                repo_dir = PathBuf::from(cli.extra.get(i).unwrap_or_else(|| internal("--repo value")));
            }
            "--keep" => keep = true,
            "--only" => {
                i += 1;
                match cli.extra.get(i).map(|s| s.to_ascii_lowercase()).as_deref() {
                    Some("c05") => (run_c17, run_c06) = (false, false),
                    Some("c17") => (run_c05, run_c06) = (false, false),
                    Some("c06") => (run_c05, run_c17) = (false, false),
                    _ => internal("--only expects c05, c06 or c17"),
                }
            }
            other => internal(&format!("unknown argument {other}")),
        }
        i += 1;
    }
    let lean_path = cli.lean.clone().unwrap_or_else(|| internal("--lean <tables_driver> is required"));
    let mut lean = LeanDriver::spawn(&lean_path, &[]).unwrap_or_else(|e| internal(&format!("spawn {lean_path}: {e}")));
    let mut ask = |q: &str| -> String { lean.ask(q).unwrap_or_else(|e| internal(&format!("lean driver: {e}"))) };
    if ask("selfcheck") != "1" {
        internal("lean driver selfcheck failed (generated keys do not match their strings)");
    }
    if let Some(r) = &cli.replay {
        eprintln!("probedrive: --replay {r} ignored: every run re-checks all rows of the generated tables");
    }
    let started = std::time::Instant::now();
    let thorough = cli.tier == "thorough";

    // ------------------------------------------------------------------ C05 rows
    let (pubtypes, extratypes): (Vec<String>, Vec<String>) = if run_c05 {
        (
            ask("pubtypes").split(';').map(str::to_string).collect(),
            ask("extratypes").split(';').map(str::to_string).collect(),
        )
    } else {
        (vec![], vec![])
    };
    let backends = [("arc", "::hipstr::Arc"), ("rc", "::hipstr::Rc"), ("unique", "::hipstr::Unique")];
    let mut auto_src = String::from(AUTOTRAIT_PRELUDE);
    let mut auto_rows: Vec<AutoRow> = vec![];
    let mut line = auto_src.lines().count();
    let mut add_auto = |ty: &str, bname: &str, bty: &str, tr: &str, variant: &'static str, model: bool,
                        auto_src: &mut String, auto_rows: &mut Vec<AutoRow>| {
        let sp = spelling(ty).unwrap_or_else(|| internal(&format!("no Rust spelling for the C05 row type `{ty}`")));
        let (lt_decl, lt) = if variant == "static" { ("", "'static") } else { ("<'a>", "'a") };
        let n = auto_rows.len();
        let code = match sp {
            Spelling::Type(t) => {
                let t = t.replace("{L}", lt).replace("{B}", bty);
                format!("fn p_{n}{lt_decl}() {{ need_{tr}::<{t}>() }}")
            }
            Spelling::Value(params, expr) => {
                let params = params.replace("{L}", lt).replace("{B}", bty);
                format!("fn p_{n}{lt_decl}({params}) {{ need_{tr}_val({expr}) }}")
            }
        };
        line += 1;
        auto_src.push_str(&code);
        auto_src.push('\n');
        auto_rows.push(AutoRow {
            ty: ty.to_string(),
            backend: bname.to_string(),
            tr: tr.to_string(),
            variant,
            line,
            code,
            model,
        });
    };
    for ty in &pubtypes {
        for (bname, bty) in backends {
            for tr in ["send", "sync"] {
                let ans = ask(&format!("autotrait {tr} {ty} {bname}"));
                let model = match ans.as_str() {
                    "1" => true,
                    "0" => false,
                    other => internal(&format!("lean driver answered `{other}` for {ty}")),
                };
                add_auto(ty, bname, bty, tr, "static", model, &mut auto_src, &mut auto_rows);
                add_auto(ty, bname, bty, tr, "generic", model, &mut auto_src, &mut auto_rows);
            }
        }
    }
    for ty in &extratypes {
        for tr in ["send", "sync"] {
            let ans = ask(&format!("autotrait {tr} {ty} arc"));
            let model = match ans.as_str() {
                "1" => true,
                "0" => false,
                other => internal(&format!("lean driver answered `{other}` for {ty}")),
            };
            add_auto(ty, "-", "", tr, "static", model, &mut auto_src, &mut auto_rows);
            if matches!(spelling(ty), Some(Spelling::Type(t)) if t.contains("{L}")) {
                add_auto(ty, "-", "", tr, "generic", model, &mut auto_src, &mut auto_rows);
            }
        }
    }

    // ------------------------------------------------------------------ C05 per-parameter probes
    struct ParamRow {
        line: usize,
        code: String,
        probe: surface::ParamProbe,
    }
    let mut param_rows: Vec<ParamRow> = vec![];
    let mut param_unspellable: Vec<Value> = vec![];
    let mut c05_early: Vec<Value> = vec![];
    if run_c05 {
        let repo = Repo::load(&repo_dir).unwrap_or_else(|e| internal(&e));
        let cm = CrateModel::build(&repo).unwrap_or_else(|e| internal(&format!("crate model: {e}")));
        let a = ask("phantom_params");
        let phantom: Vec<(String, usize)> = if a == "none" {
            vec![]
        } else {
            a.split(" ; ")
                .filter_map(|e| e.rsplit_once(' ').and_then(|(p, i)| i.parse().ok().map(|i| (p.to_string(), i))))
                .collect()
        };
        let pp = surface::param_probes(&cm, &phantom).unwrap_or_else(|e| internal(&format!("param probes: {e}")));
        // the compiled Lean table must list the same unsafe impls as the source
        let rust_impls: BTreeSet<String> = surface::collect(&cm)
            .unwrap_or_else(|e| internal(&format!("surface: {e}")))
            .unsafe_impls
            .iter()
            .map(|u| format!("{} {} @ {}", u.tr, u.ty, u.loc))
            .collect();
        let a = ask("unsafe_impls");
        let lean_impls: BTreeSet<String> = if a == "none" { BTreeSet::new() } else { a.split(" ; ").map(str::to_string).collect() };
        if rust_impls != lean_impls {
            c05_early.push(json!({
                "property": "C05",
                "kind": "impl-vs-model",
                "input": ["unsafe_impls"],
                "expected": format!("the unsafe impls of the source; only in the source: {:?}", rust_impls.difference(&lean_impls).collect::<Vec<_>>()),
                "observed": format!("only in the compiled Gen/Surface: {:?} (stale — regenerate)", lean_impls.difference(&rust_impls).collect::<Vec<_>>()),
                "profile": "check"
            }));
        }
        for (what, why) in pp.unspellable {
            param_unspellable.push(json!({"what": what, "reason": why}));
        }
        let mut pline = auto_src.lines().count();
        let mut seen_code: BTreeSet<String> = BTreeSet::new();
        for probe in pp.probes {
            let n = param_rows.len();
            let body = format!("need_{}::<{}>()", probe.tr, probe.ty);
            if !seen_code.insert(format!("{body}{}", probe.must_reject)) {
                continue;
            }
            let code = format!("fn q_{n}() {{ {body} }}");
            pline += 1;
            auto_src.push_str(&code);
            auto_src.push('\n');
            param_rows.push(ParamRow { line: pline, code, probe });
        }
    }

    // ------------------------------------------------------------------ C17 unsafe rows
    let collected = if run_c17 || run_c06 {
        let repo = Repo::load(&repo_dir).unwrap_or_else(|e| internal(&e));
        let cm = CrateModel::build(&repo).unwrap_or_else(|e| internal(&format!("crate model: {e}")));
        pubfns::collect(&cm).unwrap_or_else(|e| internal(&format!("translator: {e}")))
    } else {
        pubfns::Collected { rows: vec![], sites: vec![] }
    };
    let flagged: Vec<&pubfns::FnRow> = collected
        .rows
        .iter()
        .filter(|_| run_c17)
        .filter(|r| r.name_unchecked || r.has_safety_doc || r.forwards.is_some())
        .collect();
    // the Lean side must see the same flagged rows (same generated table)
    let lean_flagged: BTreeSet<String> = {
        let a = if run_c17 { ask("unsafe_rows") } else { "none".to_string() };
        if a == "none" {
            BTreeSet::new()
        } else {
            a.split(" ; ").map(str::to_string).collect()
        }
    };
    let rust_flagged: BTreeSet<String> = flagged.iter().map(|r| format!("{} @ {}", r.name, r.loc)).collect();
    let mut disagreements: Vec<Value> = c05_early;
    if lean_flagged != rust_flagged {
        let only_lean: Vec<_> = lean_flagged.difference(&rust_flagged).cloned().collect();
        let only_rust: Vec<_> = rust_flagged.difference(&lean_flagged).cloned().collect();
        disagreements.push(json!({
                "property": "C17",
            "kind": "impl-vs-model",
            "input": ["unsafe_rows"],
            "expected": format!("the compiled Gen/PubFns table to flag the rows the source flags; only in source: {only_rust:?}"),
            "observed": format!("only in the Lean table: {only_lean:?} (Gen/PubFns.lean is stale — regenerate)"),
            "profile": "check"
        }));
    }
    let mut unsafe_src = String::from(UNSAFE_PRELUDE);
    let mut unsafe_rows: Vec<UnsafeRow> = vec![];
    let mut unprobed: Vec<Value> = vec![];
    let mut uline = unsafe_src.lines().count();
    // probed: every flagged row, plus every other `unsafe fn` of the table (checks the
    // translator's `isUnsafe` flag against rustc as well)
    let probed: Vec<&pubfns::FnRow> = collected
        .rows
        .iter()
        .filter(|_| run_c17)
        .filter(|r| r.name_unchecked || r.has_safety_doc || r.forwards.is_some() || r.is_unsafe)
        .collect();
    // (row the verdict is about, the call to use)
    let mut work: Vec<(&pubfns::FnRow, pubfns::ProbeCall, String)> = vec![];
    for r in &probed {
        let must = r.name_unchecked || r.has_safety_doc || r.forwards.is_some();
        match &r.probe {
            Ok(p) => work.push((r, p.clone(), r.name.clone())),
            Err(why) => {
                // a macro-generated method cannot be named; when it implements a public trait
                // method, call it through the trait (`<SelfTy as MutVector>::set_len(…)`)
                let via: Vec<&pubfns::FnRow> = collected
                    .rows
                    .iter()
                    .filter(|d| d.kind == ".traitDecl" && d.simple == r.simple && d.probe.is_ok())
                    .collect();
                if r.kind == ".macroBody" && !via.is_empty() {
                    for d in via {
                        work.push((r, d.probe.clone().unwrap(), format!("{} via {}", r.name, d.name)));
                    }
                } else if r.kind == ".macroBody" || !must {
                    unprobed.push(json!({"row": r.name, "loc": r.loc, "reason": why}));
                } else {
                    internal(&format!("cannot build a client call for {} ({}): {why}", r.name, r.loc));
                }
            }
        }
    }
    for (r, p, label) in &work {
        let n = unsafe_rows.len();
        let u_code = format!("fn u_{n}{}() {{ let _ = {}; }}", p.generics, p.call);
        let s_code = format!("fn s_{n}{}() {{ unsafe {{ let _ = {}; }} }}", p.generics, p.call);
        unsafe_src.push_str(&u_code);
        unsafe_src.push('\n');
        unsafe_src.push_str(&s_code);
        unsafe_src.push('\n');
        unsafe_rows.push(UnsafeRow {
            name: label.clone(),
            loc: r.loc.clone(),
            u_line: uline + 1,
            s_line: uline + 2,
            u_code,
            s_code,
        });
        uline += 2;
    }

    // ------------------------------------------------------------------ C17 escape corpus
    let escape = if run_c17 { parse_escape() } else { vec![] };
    for p in &escape {
        if let Some(row) = &p.row {
            let ans = ask(&format!("tied {row}"));
            let expect = if p.must_fail { "1" } else { "0" };
            if ans != expect {
                disagreements.push(json!({
                "property": "C17",
                    "kind": "impl-vs-model",
                    "input": [format!("tied {row}")],
                    "expected": format!("{expect} (corpus probe `{}` is {})", p.name, if p.must_fail { "must_fail: the model must tie the output regions of this fn to its inputs" } else { "must_compile: the model must list this fn's output region as free" }),
                    "observed": ans,
                    "profile": "check"
                }));
            }
        }
    }

    // ------------------------------------------------------------------ C17 self-escape rows
    struct SelfRow {
        name: String,
        loc: String,
        line: usize,
        code: String,
        predicted_reject: bool,
        must_not_outlive_receiver: bool,
    }
    let mut self_src = String::from(SELFESCAPE_PRELUDE);
    let mut self_rows: Vec<SelfRow> = vec![];
    let mut self_skipped: BTreeMap<String, usize> = BTreeMap::new();
    let mut sline = self_src.lines().count();
    for r in collected.rows.iter().filter(|_| run_c17) {
        match &r.self_escape {
            None => {}
            Some(Err(why)) => {
                *self_skipped.entry(format!("{}: {why}", r.name)).or_default() += 1;
            }
            Some(Ok(e)) => {
                let n = self_rows.len();
                let mut args = vec![if e.recv_mut { "&mut h".to_string() } else { "&h".to_string() }];
                args.extend(e.args.iter().cloned());
                let code = format!(
                    "fn e_{n}{}() {{ let r; {{ let {}h = any::<{}>(); r = {}({}); }} use_it(r); }}",
                    e.generics,
                    if e.recv_mut { "mut " } else { "" },
                    e.recv_ty,
                    e.callee,
                    args.join(", ")
                );
                sline += 1;
                self_src.push_str(&code);
                self_src.push('\n');
                self_rows.push(SelfRow {
                    name: r.name.clone(),
                    loc: r.loc.clone(),
                    line: sline,
                    code,
                    predicted_reject: e.predicted_reject,
                    must_not_outlive_receiver: e.must_not_outlive_receiver,
                });
            }
        }
    }

    // ------------------------------------------------------------------ C17 element-type bounds
    struct CopyRow {
        name: String,
        loc: String,
        bad_line: usize,
        ok_line: usize,
        bad_code: String,
        ok_code: String,
    }
    let bounds_corpus = if run_c17 { parse_corpus(BOUNDS_SRC) } else { vec![] };
    let mut bounds_src = String::from(BOUNDS_SRC);
    let mut copy_rows: Vec<CopyRow> = vec![];
    if run_c17 {
        bounds_src.push_str("//@ generated must_compile row=-\n");
        let mut bline = bounds_src.lines().count();
        let mut rust_set: BTreeSet<String> = BTreeSet::new();
        for r in &collected.rows {
            let Some(cp) = &r.copy_probe else { continue };
            rust_set.insert(format!("{} @ {}", r.name, r.loc));
            match cp {
                Ok((at_string, at_u8)) => {
                    let n = copy_rows.len();
                    let wrap = |c: &pubfns::ProbeCall, tag: &str| {
                        if r.is_unsafe {
                            format!("fn {tag}_{n}{}() {{ unsafe {{ let _ = {}; }} }}", c.generics, c.call)
                        } else {
                            format!("fn {tag}_{n}{}() {{ let _ = {}; }}", c.generics, c.call)
                        }
                    };
                    let bad_code = wrap(at_string, "cs");
                    let ok_code = wrap(at_u8, "cu");
                    bounds_src.push_str(&bad_code);
                    bounds_src.push('\n');
                    bounds_src.push_str(&ok_code);
                    bounds_src.push('\n');
                    copy_rows.push(CopyRow {
                        name: r.name.clone(),
                        loc: r.loc.clone(),
                        bad_line: bline + 1,
                        ok_line: bline + 2,
                        bad_code,
                        ok_code,
                    });
                    bline += 2;
                }
                Err(why) => internal(&format!("cannot build the `String` instantiation of {} ({}): {why}", r.name, r.loc)),
            }
        }
        // the Lean side must select the same rows
        let a = ask("copy_rows");
        let lean_set: BTreeSet<String> = if a == "none" { BTreeSet::new() } else { a.split(" ; ").map(str::to_string).collect() };
        if lean_set != rust_set {
            disagreements.push(json!({
                "property": "C17",
                "kind": "impl-vs-model",
                "input": ["copy_rows"],
                "expected": format!("the rows the translator's copy rule selects: {:?}", rust_set.difference(&lean_set).collect::<Vec<_>>()),
                "observed": format!("only in the Lean table: {:?} (Gen/PubFns.lean is stale — regenerate)", lean_set.difference(&rust_set).collect::<Vec<_>>()),
                "profile": "check"
            }));
        }
    }

    // ------------------------------------------------------------------ C06 doors
    struct DoorRow {
        name: String,
        entry: String,
        line: usize,
        code: String,
    }
    let doors_corpus = if run_c06 { parse_corpus(DOORS_SRC) } else { vec![] };
    let mut doors_src = String::from(DOORS_SRC);
    let mut door_rows: Vec<DoorRow> = vec![];
    let mut c06_falsifiers: Vec<String> = vec![];
    if run_c06 {
        let a = ask("rows_c06");
        if a != "none" {
            c06_falsifiers = a.split(" ; ").map(str::to_string).collect();
        }
        doors_src.push_str("//@ generated must_compile row=-\n");
        let mut dline = doors_src.lines().count();
        for entry in &c06_falsifiers {
            // `<theorem>: <row name> :: …`
            let name = entry
                .split_once(": ")
                .and_then(|(_, r)| r.split_once(" :: "))
                .map(|(n, _)| n.to_string())
                .unwrap_or_default();
            let Some(r) = collected.rows.iter().find(|r| r.name == name) else {
                continue;
            };
            let Some(Ok(call)) = r.door.as_ref().map(|d| d.call.clone()) else {
                continue;
            };
            let n = door_rows.len();
            let code = if r.is_unsafe {
                format!("fn d_{n}{}() {{ unsafe {{ let _ = {}; }} }}", call.generics, call.call)
            } else {
                format!("fn d_{n}{}() {{ let _ = {}; }}", call.generics, call.call)
            };
            dline += 1;
            doors_src.push_str(&code);
            doors_src.push('\n');
            door_rows.push(DoorRow {
                name,
                entry: entry.clone(),
                line: dline,
                code,
            });
        }
    }

    // ------------------------------------------------------------------ build the workspace
    let dir = PathBuf::from(format!("/tmp/scratch/probe-{}", std::process::id()));
    let _ = std::fs::remove_dir_all(&dir);
    let _ = WORKDIR.set((dir.clone(), keep));
    let features = FEATURES_ON
        .iter()
        .filter(|f| **f != "std")
        .map(|f| format!("\"{f}\""))
        .collect::<Vec<_>>()
        .join(", ");
    let mut crates: Vec<&str> = vec![];
    if run_c05 {
        crates.push("autotrait");
    }
    if run_c17 {
        crates.extend(["unsafety", "escape", "selfescape", "bounds", "macros", "constgen"]);
    }
    if run_c06 {
        crates.push("doors");
    }
    write(
        &dir.join("Cargo.toml"),
        &format!(
            "[workspace]\nmembers = [{}]\nresolver = \"2\"\n",
            crates.iter().map(|c| format!("\"{c}\"")).collect::<Vec<_>>().join(", ")
        ),
    );
    write(&dir.join(".cargo/config.toml"), "[net]\noffline = true\n");
    // the repo's lock file pins the cached versions; a bare checkout (git worktree) has none:
    // fall back to the harness' own lock file
    let lock = [repo_dir.join("Cargo.lock"), PathBuf::from(concat!(env!("CARGO_MANIFEST_DIR"), "/Cargo.lock"))]
        .into_iter()
        .find(|p| p.exists())
        .unwrap_or_else(|| internal("no Cargo.lock in the repo or next to the harness"));
    std::fs::copy(&lock, dir.join("Cargo.lock")).unwrap_or_else(|e| internal(&format!("copy {lock:?}: {e}")));
    let repo_abs = std::fs::canonicalize(&repo_dir).unwrap_or(repo_dir.clone());
    for (krate, src) in [
        ("autotrait", &auto_src),
        ("unsafety", &unsafe_src),
        ("escape", &ESCAPE_SRC.to_string()),
        ("selfescape", &self_src),
        ("doors", &doors_src),
        ("bounds", &bounds_src),
        ("macros", &MACROS_SRC.to_string()),
        ("constgen", &CONSTGEN_SRC.to_string()),
    ] {
        if !crates.contains(&krate) {
            continue;
        }
        let manifest = PACKAGE_TMPL
            .replace("@NAME@", &format!("probe_{krate}"))
            .replace("@REPO@", &repo_abs.to_string_lossy())
            .replace("@FEATURES@", &features);
        write(&dir.join(krate).join("Cargo.toml"), &manifest);
        write(&dir.join(krate).join("src/lib.rs"), src);
    }
    let diags = cargo_check(&dir, &crates);
    let (constgen_failed, constgen_errors) = if run_c17 {
        cargo_build_instantiation_failures(&dir, "probe_constgen")
    } else {
        (BTreeMap::new(), vec![])
    };
    cleanup();
    let empty = BTreeMap::new();

    // ------------------------------------------------------------------ verdicts: C05
    let ad = diags.get("probe_autotrait").unwrap_or(&empty);
    let known_lines: BTreeSet<usize> = auto_rows.iter().map(|r| r.line).chain(param_rows.iter().map(|r| r.line)).collect();
    for (ln, d) in ad {
        if !known_lines.contains(ln) {
            internal(&format!("autotrait crate: error outside the probes (line {ln}): {:?}", d.messages));
        }
    }
    let mut n_accept = 0;
    let mut n_reject = 0;
    let mut reject_why: BTreeMap<usize, String> = BTreeMap::new();
    let mut samples: Vec<Value> = vec![];
    for r in &auto_rows {
        let rejected = match ad.get(&r.line) {
            None => false,
            Some(d) => {
                // E0277 = the trait does not hold at all; a region error (no code: "lifetime may
                // not live long enough", or E0521/E0477/E0310/E0491) = it holds only for some
                // lifetimes (an impl restricted to `'static`): both are rejections of the probe
                let ok = d.codes.iter().all(|c| {
                    matches!(c.as_str(), "E0277" | "E0521" | "E0477" | "E0310" | "E0491")
                        || (c.is_empty() && d.messages.iter().all(|m| m.contains("lifetime") || m.contains("outlive")))
                });
                if !ok {
                    internal(&format!("autotrait probe `{}` failed with {:?} {:?}", r.code, d.codes, d.messages));
                }
                reject_why.insert(r.line, format!("{:?} {:?}", d.codes, d.messages.first()));
                true
            }
        };
        if rejected {
            n_reject += 1
        } else {
            n_accept += 1
        }
        if samples.len() < 4 && (r.backend == "rc" || samples.is_empty()) {
            samples.push(json!({"program": r.code, "rustc": if rejected {"reject"} else {"accept"}, "model": r.model}));
        }
        // the property itself (C05): pubTypes rows are Send/Sync exactly when the backend is not Rc
        if r.backend != "-" {
            let spec = r.backend != "rc";
            if rejected == spec {
                disagreements.push(json!({
                "property": "C05",
                    "kind": "impl-vs-oracle",
                    "input": [r.code.clone()],
                    "expected": format!("C05: {}<{}>: {} must {}", r.ty, r.backend, r.tr, if spec {"hold"} else {"NOT hold (non-atomic share count)"}),
                    "observed": format!("rustc {} this program {}", if rejected {"rejects"} else {"accepts"}, reject_why.get(&r.line).cloned().unwrap_or_default()),
                    "profile": "check"
                }));
            }
        }
        if rejected == r.model {
            disagreements.push(json!({
                "property": "C05",
                "kind": "impl-vs-model",
                "input": [format!("autotrait {} {} {}", r.tr, r.ty, r.backend), r.code.clone()],
                "expected": format!("model holds = {} ({} variant)", r.model, r.variant),
                "observed": format!("rustc {}", if rejected { format!("rejects {}", reject_why.get(&r.line).cloned().unwrap_or_default()) } else { "accepts".to_string() }),
                "profile": "check"
            }));
        }
    }

    // ------------------------------------------------------------------ verdicts: C05 per-parameter probes
    let mut n_param_rejected = 0;
    let mut n_param_accepted = 0;
    for r in &param_rows {
        let rejected = match ad.get(&r.line) {
            None => false,
            Some(d) => {
                if d.codes.iter().any(|c| c != "E0277") {
                    internal(&format!("parameter probe `{}` failed with {:?} {:?}", r.code, d.codes, d.messages));
                }
                true
            }
        };
        if rejected {
            n_param_rejected += 1
        } else {
            n_param_accepted += 1
        }
        if rejected != r.probe.must_reject {
            let what = match &r.probe.param {
                Some(p) => format!(
                    "{}: parameter `{p}` occurs in a field type, so with a non-{} `{p}` the type must not be {} ({}; {})",
                    r.probe.def,
                    if r.probe.tr == "send" { "Send" } else { "Sync" },
                    if r.probe.tr == "send" { "Send" } else { "Sync" },
                    r.probe.origin,
                    r.probe.loc
                ),
                None => format!("{}: with well-behaved parameters the {} must hold ({})", r.probe.def, r.probe.origin, r.probe.loc),
            };
            for prop in ["C05", "C17"] {
                disagreements.push(json!({
                    "property": prop,
                    "kind": "impl-vs-oracle",
                    "input": [r.code.clone()],
                    "expected": format!("{} — {what}", if r.probe.must_reject { "rejected (E0277)" } else { "accepted" }),
                    "observed": format!("rustc {} this program", if rejected { "rejects" } else { "ACCEPTS" }),
                    "profile": "check"
                }));
            }
        }
    }

    // ------------------------------------------------------------------ verdicts: C17 unsafe
    let ud = diags.get("probe_unsafety").unwrap_or(&empty);
    let known_u: BTreeSet<usize> = unsafe_rows.iter().flat_map(|r| [r.u_line, r.s_line]).collect();
    for (ln, d) in ud {
        if !known_u.contains(ln) {
            internal(&format!("unsafety crate: error outside the probes (line {ln}): {:?}", d.messages));
        }
    }
    let mut n_unsafe_ok = 0;
    for r in &unsafe_rows {
        if let Some(d) = ud.get(&r.s_line) {
            internal(&format!(
                "generated call for {} is not well typed even inside `unsafe`: `{}` → {:?} {:?}",
                r.name, r.s_code, d.codes, d.messages
            ));
        }
        match ud.get(&r.u_line) {
            Some(d) if d.codes.contains("E0133") && d.codes.len() == 1 => n_unsafe_ok += 1,
            Some(d) => internal(&format!("unsafe probe `{}` failed with {:?} {:?}", r.u_code, d.codes, d.messages)),
            None => disagreements.push(json!({
                "property": "C17",
                "kind": "impl-vs-oracle",
                "input": [r.u_code.clone()],
                "expected": format!("rejected with E0133: {} ({}) has an `_unchecked` name or a `# Safety` section or merely forwards its parameters to an unsafe callee, so it must be an unsafe fn", r.name, r.loc),
                "observed": "rustc accepts the call without an unsafe block",
                "profile": "check"
            })),
        }
    }

    // ------------------------------------------------------------------ verdicts: C17 escape
    let ed = diags.get("probe_escape").unwrap_or(&empty);
    let mut n_escape_ok = 0;
    for (idx, p) in escape.iter().enumerate() {
        let end = escape.get(idx + 1).map_or(usize::MAX, |q| q.first_line);
        let mut codes = BTreeSet::new();
        let mut msgs = vec![];
        for (ln, d) in ed.range(p.first_line..end) {
            let _ = ln;
            codes.extend(d.codes.iter().cloned());
            msgs.extend(d.messages.iter().cloned());
        }
        if let Some(c) = codes.iter().find(|c| !BORROWCK_CODES.contains(&c.as_str())) {
            internal(&format!("escape probe `{}` failed for an unrelated reason {c}: {msgs:?}", p.name));
        }
        let rejected = !codes.is_empty();
        if rejected == p.must_fail {
            n_escape_ok += 1;
        } else {
            disagreements.push(json!({
                "property": "C17",
                "kind": "impl-vs-oracle",
                "input": p.text.lines().collect::<Vec<_>>(),
                "expected": if p.must_fail { "rejected by the borrow checker (borrowed data escapes)" } else { "accepted" },
                "observed": if rejected { format!("rejected: {codes:?} {msgs:?}") } else { "accepted".to_string() },
                "profile": "check"
            }));
        }
    }
    for (ln, d) in ed {
        if escape.first().map_or(true, |p| *ln < p.first_line) {
            internal(&format!("escape crate: error in the prelude (line {ln}): {:?}", d.messages));
        }
    }
    // ------------------------------------------------------------------ verdicts: C17 self-escape
    let sd = diags.get("probe_selfescape").unwrap_or(&empty);
    let known_s: BTreeMap<usize, &SelfRow> = self_rows.iter().map(|r| (r.line, r)).collect();
    for (ln, d) in sd {
        if !known_s.contains_key(ln) {
            internal(&format!("selfescape crate: error outside the probes (line {ln}): {:?}", d.messages));
        }
    }
    let mut n_self_reject = 0;
    let mut n_spec_checked = 0;
    let mut self_programs: BTreeMap<String, (String, bool)> = BTreeMap::new();
    for r in &self_rows {
        let rejected = match sd.get(&r.line) {
            None => false,
            Some(d) => {
                if let Some(c) = d.codes.iter().find(|c| !BORROWCK_CODES.contains(&c.as_str())) {
                    internal(&format!("self-escape probe for {} is not well typed ({c}): `{}` → {:?}", r.name, r.code, d.messages));
                }
                true
            }
        };
        if rejected {
            n_self_reject += 1;
        }
        self_programs.insert(r.name.clone(), (r.code.clone(), rejected));
        // the property itself: a reference (or anything from a type holding a `&mut` borrow)
        // obtained through `&self` must not outlive the receiver, reviewed exceptions aside
        if r.must_not_outlive_receiver && !rejected {
            n_spec_checked += 1;
            match ask(&format!("escape_exempt {}", r.name)).as_str() {
                "1" => {}
                "0" => disagreements.push(json!({
                    "property": "C17",
                    "kind": "impl-vs-oracle",
                    "input": [r.code.clone()],
                    "expected": format!("C17: rejected by the borrow checker — the result of {} ({}) borrows from a local receiver that is gone (it is not a reviewed borrowed-view / never-borrowed function)", r.name, r.loc),
                    "observed": "rustc accepts: the result outlives the receiver it was obtained from through &self",
                    "profile": "check"
                })),
                other => internal(&format!("lean driver answered `{other}` to escape_exempt {}", r.name)),
            }
        } else if r.must_not_outlive_receiver {
            n_spec_checked += 1;
        }
        if rejected != r.predicted_reject {
            disagreements.push(json!({
                "property": "C17",
                "kind": "impl-vs-model",
                "input": [r.code.clone()],
                "expected": format!("lifetime skeleton of {} ({}) predicts: {}", r.name, r.loc, if r.predicted_reject {"rejected (an output region is the &self borrow)"} else {"accepted (no output region is the &self borrow)"}),
                "observed": format!("rustc {}", if rejected {"rejects"} else {"accepts"}),
                "profile": "check"
            }));
        }
    }

    // ------------------------------------------------------------------ verdicts: C17 macros + const guards
    let macros_corpus = if run_c17 { parse_corpus(MACROS_SRC) } else { vec![] };
    let constgen_corpus = if run_c17 { parse_corpus(CONSTGEN_SRC) } else { vec![] };
    let mut n_macros_ok = 0;
    let mut n_constgen_ok = 0;
    if run_c17 {
        let md = diags.get("probe_macros").unwrap_or(&empty);
        for (idx, p) in macros_corpus.iter().enumerate() {
            let end = macros_corpus.get(idx + 1).map_or(usize::MAX, |q| q.first_line);
            let mut codes = BTreeSet::new();
            let mut msgs = vec![];
            for (_, d) in md.range(p.first_line..end) {
                codes.extend(d.codes.iter().cloned());
                msgs.extend(d.messages.iter().cloned());
            }
            if let Some(c) = codes.iter().find(|c| c.as_str() != "E0133") {
                internal(&format!("macro probe `{}` failed for an unrelated reason {c}: {msgs:?}", p.name));
            }
            let rejected = !codes.is_empty();
            if rejected == p.must_fail {
                n_macros_ok += 1;
            } else {
                disagreements.push(json!({
                    "property": "C17",
                    "kind": "impl-vs-oracle",
                    "input": p.text.lines().collect::<Vec<_>>(),
                    "expected": if p.must_fail { "rejected (E0133): a macro argument is the caller's code and must stay outside any `unsafe` block of the macro" } else { "accepted" },
                    "observed": if rejected { format!("rejected: {codes:?} {msgs:?}") } else { "accepted under #![forbid(unsafe_code)]: the macro expands its argument inside its own unsafe block".to_string() },
                    "profile": "check"
                }));
            }
        }
        for (ln, d) in md {
            if macros_corpus.first().map_or(true, |p| *ln < p.first_line) {
                internal(&format!("macros crate: error in the prelude (line {ln}): {:?}", d.messages));
            }
        }
        // every exported macro that takes an expression has a must_fail probe
        let covered: BTreeSet<String> = macros_corpus.iter().filter(|p| p.must_fail).filter_map(|p| p.row.clone()).collect();
        let a = ask("expr_macros");
        let listed: BTreeSet<String> = a.split(';').filter(|x| !x.is_empty()).map(str::to_string).collect();
        if covered != listed {
            disagreements.push(json!({
                "property": "C17",
                "kind": "impl-vs-model",
                "input": ["expr_macros"],
                "expected": format!("a raw-pointer-deref probe in probes/macros.rs for every exported macro taking an expression: {listed:?}"),
                "observed": format!("probes exist for {covered:?}"),
                "profile": "check"
            }));
        }
        for (idx, p) in constgen_corpus.iter().enumerate() {
            let end = constgen_corpus.get(idx + 1).map_or(usize::MAX, |q| q.first_line);
            let hit: Vec<&String> = constgen_failed.range(p.first_line..end).map(|(_, m)| m).collect();
            let rejected = !hit.is_empty();
            if rejected == p.must_fail {
                n_constgen_ok += 1;
            } else {
                disagreements.push(json!({
                    "property": "C17",
                    "kind": "impl-vs-oracle",
                    "input": p.text.lines().collect::<Vec<_>>(),
                    "expected": if p.must_fail { "fails to build (E0080): the instantiation violates a const-parameter guard" } else { "builds" },
                    "observed": if rejected { format!("fails to build: {hit:?}") } else { format!("builds (const-evaluation errors seen elsewhere: {constgen_errors:?})") },
                    "profile": "check"
                }));
            }
        }
        for (ln, m) in &constgen_failed {
            if constgen_corpus.first().map_or(true, |p| *ln < p.first_line) {
                internal(&format!("constgen crate: failure in the prelude (line {ln}): {m}"));
            }
        }
    }

    // ------------------------------------------------------------------ verdicts: C17 bounds
    let bd = diags.get("probe_bounds").unwrap_or(&empty);
    let mut n_bounds_ok = 0;
    let bounds_generated_from = bounds_corpus.last().map_or(usize::MAX, |_| BOUNDS_SRC.lines().count() + 1);
    for (idx, p) in bounds_corpus.iter().enumerate() {
        let end = bounds_corpus.get(idx + 1).map_or(bounds_generated_from, |q| q.first_line);
        let mut codes = BTreeSet::new();
        let mut msgs = vec![];
        for (_, d) in bd.range(p.first_line..end) {
            codes.extend(d.codes.iter().cloned());
            msgs.extend(d.messages.iter().cloned());
        }
        if let Some(c) = codes.iter().find(|c| c.as_str() != "E0277" && c.as_str() != "E0599") {
            internal(&format!("bounds probe `{}` failed for an unrelated reason {c}: {msgs:?}", p.name));
        }
        let rejected = !codes.is_empty();
        if rejected == p.must_fail {
            n_bounds_ok += 1;
        } else {
            disagreements.push(json!({
                "property": "C17",
                "kind": "impl-vs-oracle",
                "input": p.text.lines().collect::<Vec<_>>(),
                "expected": if p.must_fail { "rejected (E0277): a bitwise copy of non-`Copy` elements must not type-check" } else { "accepted" },
                "observed": if rejected { format!("rejected: {codes:?} {msgs:?}") } else { "accepted: safe client code duplicates the ownership of a `String`".to_string() },
                "profile": "check"
            }));
        }
    }
    let mut n_copy_rejected = 0;
    for r in &copy_rows {
        if let Some(d) = bd.get(&r.ok_line) {
            internal(&format!("generated call for {} is not well typed at u8: `{}` → {:?} {:?}", r.name, r.ok_code, d.codes, d.messages));
        }
        match bd.get(&r.bad_line) {
            Some(d) if d.codes.iter().all(|c| c == "E0277" || c == "E0599") => n_copy_rejected += 1,
            Some(d) => internal(&format!("generated call for {} at String failed with {:?} {:?}", r.name, d.codes, d.messages)),
            None => disagreements.push(json!({
                "property": "C17",
                "kind": "impl-vs-oracle",
                "input": [r.bad_code.clone()],
                "expected": format!("rejected (E0277 `String: Copy`): {} ({}) duplicates element bits, so it must require `T: Copy`", r.name, r.loc),
                "observed": "rustc accepts the instantiation at `String`",
                "profile": "check"
            })),
        }
    }
    for (ln, d) in bd {
        let in_corpus = bounds_corpus.first().map_or(false, |p| *ln >= p.first_line) && *ln < bounds_generated_from;
        let generated = copy_rows.iter().any(|r| r.bad_line == *ln || r.ok_line == *ln);
        if !in_corpus && !generated {
            internal(&format!("bounds crate: error outside the probes (line {ln}): {:?}", d.messages));
        }
    }

    // ------------------------------------------------------------------ verdicts: C06 doors
    const TYPECK_CODES: &[&str] = &["E0277", "E0308", "E0599", "E0283", "E0282", "E0271"];
    let dd = diags.get("probe_doors").unwrap_or(&empty);
    let mut n_doors_ok = 0;
    let generated_from = doors_corpus.last().map_or(usize::MAX, |_| DOORS_SRC.lines().count() + 1);
    for (idx, p) in doors_corpus.iter().enumerate() {
        let end = doors_corpus.get(idx + 1).map_or(generated_from, |q| q.first_line);
        let mut codes = BTreeSet::new();
        let mut msgs = vec![];
        for (_, d) in dd.range(p.first_line..end) {
            codes.extend(d.codes.iter().cloned());
            msgs.extend(d.messages.iter().cloned());
        }
        if let Some(c) = codes.iter().find(|c| !TYPECK_CODES.contains(&c.as_str())) {
            internal(&format!("doors probe `{}` failed for an unrelated reason {c}: {msgs:?}", p.name));
        }
        let rejected = !codes.is_empty();
        if rejected == p.must_fail {
            n_doors_ok += 1;
        } else {
            disagreements.push(json!({
                "property": "C06",
                "kind": "impl-vs-oracle",
                "input": p.text.lines().collect::<Vec<_>>(),
                "expected": if p.must_fail { "rejected: no safe infallible conversion from raw bytes exists" } else { "accepted (checked door / typed input)" },
                "observed": if rejected { format!("rejected: {codes:?} {msgs:?}") } else { "accepted".to_string() },
                "profile": "check"
            }));
        }
    }
    for (ln, d) in dd {
        let in_corpus = doors_corpus.first().map_or(false, |p| *ln >= p.first_line) && *ln < generated_from;
        let generated = door_rows.iter().any(|r| r.line == *ln);
        if !in_corpus && !generated {
            internal(&format!("doors crate: error outside the probes (line {ln}): {:?}", d.messages));
        }
    }
    for entry in &c06_falsifiers {
        let program = door_rows.iter().find(|r| r.entry == *entry);
        let verdict = program.map(|r| match dd.get(&r.line) {
            None => "rustc ACCEPTS this program".to_string(),
            Some(d) => format!("rustc rejects it: {:?} {:?}", d.codes, d.messages),
        });
        disagreements.push(json!({
            "property": "C06",
            "kind": if program.is_some() { "impl-vs-oracle" } else { "monitor" },
            "input": [program.map_or(String::new(), |r| r.code.clone())],
            "expected": format!("no such door ({}): a HipStr/HipOsStr/HipPath is never made from unchecked raw input by a safe infallible fn, and unsafe doors are reviewed", program.map_or("", |r| r.name.as_str())),
            "observed": format!("{entry} — {}", verdict.unwrap_or_else(|| "no client call could be generated".into())),
            "profile": "check"
        }));
    }

    // ------------------------------------------------------------------ the table theorems' row predicates
    for q in ["rows_c05", "rows_c17", "rows_c17s"] {
        if (q == "rows_c05" && !run_c05) || (q != "rows_c05" && !run_c17) {
            continue;
        }
        let a = ask(q);
        if a != "none" {
            for row in a.split(" ; ") {
                // attach the concrete client program when there is one for the named row
                let program = self_programs
                    .iter()
                    .find(|(name, _)| row.contains(&format!(": {name} ")))
                    .map(|(_, (code, rejected))| format!("{code}  // rustc {}", if *rejected {"rejects"} else {"ACCEPTS: the result outlives the local receiver"}));
                disagreements.push(json!({
                "property": if q == "rows_c05" { "C05" } else { "C17" },
                    "kind": "monitor",
                    "input": [q, program.unwrap_or_default()],
                    "expected": "no falsifying row for the table theorem",
                    "observed": row,
                    "profile": "check"
                }));
            }
        }
    }
    if thorough {
        // the thorough tier has the same programs: the quantifier (rows of the generated tables)
        // is already exhausted by the quick tier
    }

    let programs = auto_rows.len() + param_rows.len() + 2 * unsafe_rows.len() + escape.len() + self_rows.len()
        + bounds_corpus.len() + 2 * copy_rows.len() + macros_corpus.len() + constgen_corpus.len()
        + doors_corpus.len() + door_rows.len();
    let mut distribution = serde_json::Map::new();
    let mut rules: Vec<&str> = vec![];
    let mut checked = programs;
    let mut nontrivial = 0;
    if run_c05 {
        distribution.insert("c05_rows".into(), json!(auto_rows.len()));
        distribution.insert("c05_rustc_accepts".into(), json!(n_accept));
        distribution.insert("c05_rustc_rejects".into(), json!(n_reject));
        distribution.insert("c05_param_probes".into(), json!(param_rows.len()));
        distribution.insert("c05_param_probes_rejected".into(), json!(n_param_rejected));
        distribution.insert("c05_param_probes_accepted".into(), json!(n_param_accepted));
        distribution.insert("c05_param_unspellable".into(), json!(param_unspellable));
        rules.push("C05: rustc accept/reject of `need_send/need_sync::<T<B>>()` == Lean `holds` == (backend != Rc), for every (public type x backend x trait x lifetime variant) row; plus the row predicates of the C05 theorems (`rows_c05`)");
        // every pubTypes row is compared twice (model, property); + rows_c05
        checked += auto_rows.iter().filter(|r| r.backend != "-").count() + 1;
        nontrivial += n_reject;
    }
    if run_c17 {
        distribution.insert("c17_unsafe_rows".into(), json!(unsafe_rows.len()));
        distribution.insert("c17_unsafe_rejected_E0133".into(), json!(n_unsafe_ok));
        distribution.insert("c17_unsafe_unprobed".into(), json!(unprobed));
        distribution.insert("c17_escape_programs".into(), json!(escape.len()));
        distribution.insert("c17_escape_as_expected".into(), json!(n_escape_ok));
        distribution.insert("c17_selfescape_programs".into(), json!(self_rows.len()));
        distribution.insert("c17_selfescape_rejected".into(), json!(n_self_reject));
        distribution.insert("c17_selfescape_must_not_outlive_receiver".into(), json!(n_spec_checked));
        distribution.insert("c17_selfescape_skipped".into(), json!(self_skipped));
        distribution.insert("c17_bounds_corpus_programs".into(), json!(bounds_corpus.len()));
        distribution.insert("c17_bounds_corpus_as_expected".into(), json!(n_bounds_ok));
        distribution.insert("c17_copy_rows".into(), json!(copy_rows.len()));
        distribution.insert("c17_copy_rows_rejected_at_String".into(), json!(n_copy_rejected));
        distribution.insert("c17_macro_programs".into(), json!(macros_corpus.len()));
        distribution.insert("c17_macro_as_expected".into(), json!(n_macros_ok));
        distribution.insert("c17_constgen_programs".into(), json!(constgen_corpus.len()));
        distribution.insert("c17_constgen_as_expected".into(), json!(n_constgen_ok));
        distribution.insert("c17_table_rows".into(), json!(collected.rows.len()));
        distribution.insert("c17_sites".into(), json!(collected.sites.len()));
        rules.push("C17: every `_unchecked`/`# Safety`/unsafe row of the public-function table called without `unsafe` is rejected (E0133) and compiles inside `unsafe {}`; every escape-corpus program gets the expected borrowck verdict and the model's `tied` answer; every self-escape program's verdict equals the lifetime skeleton's prediction; the compiled Gen/PubFns flags the same rows as the source; plus the row predicates of the C17 theorems (`rows_c17`)");
        // + `tied` answers of the corpus, the stale-table check, rows_c17
        checked += escape.iter().filter(|p| p.row.is_some()).count() + 2 + n_spec_checked;
        nontrivial += unsafe_rows.len() + escape.iter().filter(|p| p.must_fail).count() + n_self_reject;
        for r in unsafe_rows.iter().take(2) {
            samples.push(json!({"program": r.u_code, "rustc": "reject (E0133)", "row": r.name}));
        }
        for p in escape.iter().take(2) {
            samples.push(json!({"program": p.text.lines().collect::<Vec<_>>(), "expect": if p.must_fail {"reject"} else {"accept"}, "probe": p.name}));
        }
        for r in self_rows.iter().take(2) {
            samples.push(json!({"program": r.code, "predicted": if r.predicted_reject {"reject"} else {"accept"}, "row": r.name}));
        }
    }
    if run_c06 {
        distribution.insert("c06_door_rows".into(), json!(collected.rows.iter().filter(|r| r.door.is_some()).count()));
        distribution.insert("c06_corpus_programs".into(), json!(doors_corpus.len()));
        distribution.insert("c06_corpus_as_expected".into(), json!(n_doors_ok));
        distribution.insert("c06_falsifying_rows".into(), json!(c06_falsifiers.len()));
        distribution.insert("c06_generated_programs".into(), json!(door_rows.len()));
        rules.push("C06 (doors): every corpus program converting raw bytes into HipStr/HipOsStr/HipPath through an infallible safe conversion is rejected by rustc and its checked twin compiles; no row of Gen/Doors falsifies `str_doors_checked` / `os_doors_typed` / `unchecked_doors_listed` (`rows_c06`), and for a falsifying row the generated client call shows rustc accepting it");
        checked += 1;
        nontrivial += doors_corpus.iter().filter(|p| p.must_fail).count();
        for p in doors_corpus.iter().take(2) {
            samples.push(json!({"program": p.text.lines().collect::<Vec<_>>(), "expect": if p.must_fail {"reject"} else {"accept"}, "probe": p.name}));
        }
    }
    let properties: Vec<&str> = [(run_c05, "C05"), (run_c06, "C06"), (run_c17, "C17")]
        .iter()
        .filter(|(on, _)| *on)
        .map(|(_, n)| *n)
        .collect();
    let stats = json!({
        "evaluations": programs,
        "distinct_nontrivial": nontrivial,
        "rule": rules.join(" || "),
        "exhaustive": true,
        "properties": properties,
        "programs": programs,
        "disagreements_checked": checked,
        "seconds": started.elapsed().as_secs_f64(),
        "distribution": distribution,
        "samples": samples,
        "disagreements": disagreements,
    });
    let text = serde_json::to_string_pretty(&stats).unwrap_or_else(|e| internal(&format!("{e}")));
    if let Some(out) = &cli.out {
        write(Path::new(out), &text);
    } else {
        println!("{text}");
    }
    let n = stats["disagreements"].as_array().map_or(0, |a| a.len());
    eprintln!(
        "probedrive: {programs} programs, {n} disagreement(s), {:.1}s",
        started.elapsed().as_secs_f64()
    );
    std::process::exit(if n == 0 { 0 } else { 1 });
}
