//! Differential over the "doors" of property C06: every SAFE function of the crate through
//! which data that is not UTF-8 by its type (raw bytes, UTF-16 units, OS strings, paths, a
//! decoder) can reach a `HipStr`, and every door into `HipOsStr` / `HipPath`.
//!
//! For each row of `Gen/Doors.lean` that needs it (list asked from the Lean side at run time,
//! `utf8_driver` command `doors`) the REAL function is called on a structured input stream
//! (ill-formed UTF-8 class representatives x contexts x source representations x 3 backends,
//! exhaustive short strings over the Table 3-7 class-boundary bytes, UTF-16 unit sequences
//! around the surrogate ranges) and three things are checked:
//!  (a) monitor: the RAW bytes of every `HipStr` that comes out (`verif_bytes()`, never
//!      `as_str()`) are well-formed UTF-8 (`core::str::from_utf8`); the raw bytes of every
//!      `HipOsStr`/`HipPath` equal what std's `OsString`/`PathBuf` holds;
//!  (b) impl-vs-oracle: agreement with the std twin named in the call table
//!      (`String::from_utf8(_lossy)`, `String::from_utf16(_lossy)`, `OsStr::to_str`,
//!      `OsStr::to_string_lossy`, `OsString::into_string`, ...), including `valid_up_to` and
//!      that an `Err` hands the ORIGINAL bytes back;
//!  (c) impl-vs-model: the std twin's answer equals the Lean model (`valid`, `validUpTo`,
//!      `decodeLossy`, `decodeUtf16`, `decodeUtf16Lossy`), once per distinct payload — with (b)
//!      this ties every door to the model.
//! Coverage is checked, not assumed (kind `monitor`, source `coverage`): a door the Lean side
//! says needs a differential and that is neither in the call table nor on the skip list, a
//! "must" door (lossy constructor / fallible bytes->str / os->str) that is only skipped, a call
//! table that differs from the reviewed Lean list `doorCalls`, a call never hit.
//!
//! cfg(unix): an `OsStr` is an arbitrary byte string there (`OsStr::from_bytes`), which is what
//! makes ill-formed OS strings constructible.
//!
//! CLI (CONVENTIONS.md): `doordrive --tier quick|thorough --seed N --lean <utf8_driver>
//!   --out stats.json [--replay f.json]`. Exit 0 / 1 / 2.
//! Op lines: `call <id> <backend> <rep> <hex>` and `call16 <id> <backend> <hex of BE u16s>`.

#[cfg(not(unix))]
fn main() {
    eprintln!("doordrive: unix only");
    std::process::exit(2);
}

#[cfg(unix)]
fn main() {
    imp::main()
}

#[cfg(unix)]
mod imp {
    use std::borrow::Cow;
    use std::collections::{BTreeMap, BTreeSet, HashSet};
    use std::ffi::{OsStr, OsString};
    use std::os::unix::ffi::{OsStrExt, OsStringExt};
    use std::panic::{catch_unwind, AssertUnwindSafe};
    use std::path::{Path, PathBuf};

    use borsh::BorshDeserialize;
    use bstr::{BStr, BString};
    use hipstr::bytes::HipByt;
    use hipstr::os_string::HipOsStr;
    use hipstr::path::HipPath;
    use hipstr::string::HipStr;
    use hipstr::{Arc, Backend, Rc, Unique};
    use hipverif_harness::util::{hex, parse_cli, unhex, LeanDriver, Rng};
    use serde::de::{Deserializer, Visitor};
    use serde::Deserialize;

    const BATCH: usize = 256;

    // -----------------------------------------------------------------------------------------
    // Call table
    // -----------------------------------------------------------------------------------------

    #[derive(Clone, Copy, PartialEq, Eq, Debug)]
    pub enum In {
        /// arbitrary bytes (the payload), in the given source representation
        Bytes,
        /// arbitrary bytes, representation-independent (built from std values)
        BytesOnce,
        /// UTF-16 units
        Utf16,
        /// the payload as `&str` (only when it is well-formed)
        Str,
        /// a fixed set of `&'static str`
        Static,
        /// no input
        Unit,
    }

    pub struct Call {
        pub id: &'static str,
        /// exact row name in Gen/Doors.lean
        pub door: &'static str,
        pub twin: &'static str,
        pub input: In,
    }

    macro_rules! calls {
        ($( $id:literal, $door:literal, $twin:literal, $inp:ident; )*) => {
            pub const CALLS: &[Call] = &[ $( Call { id: $id, door: $door, twin: $twin, input: In::$inp } ),* ];
        };
    }

    calls! {
        "s.from_utf16", "string::HipStr::from_utf16", "String::from_utf16", Utf16;
        "s.from_utf16_lossy", "string::HipStr::from_utf16_lossy", "String::from_utf16_lossy", Utf16;
        "s.from_utf8", "string::HipStr::from_utf8", "String::from_utf8 (+valid_up_to, bytes handed back)", Bytes;
        "s.from_utf8_lossy", "string::HipStr::from_utf8_lossy", "String::from_utf8_lossy", Bytes;
        "s.try_from_hipbyt", "<string::HipStr<'borrow, B> as TryFrom<HipByt<'borrow, B>>>::try_from", "String::from_utf8 (+valid_up_to, bytes handed back)", Bytes;
        "s.try_from_ref_hipbyt", "<string::HipStr<'borrow, B> as TryFrom<&HipByt<'borrow, B>>>::try_from", "String::from_utf8 (+valid_up_to, bytes handed back)", Bytes;
        "s.try_from_slice", "<string::HipStr<'_, B> as TryFrom<&[u8]>>::try_from", "core::str::from_utf8 (+valid_up_to)", BytesOnce;
        "s.try_from_vec", "<string::HipStr<'_, B> as TryFrom<Vec<u8>>>::try_from", "String::from_utf8 (+valid_up_to, bytes handed back)", BytesOnce;
        "s.try_from_bstring", "<string::HipStr<'_, B> as TryFrom<BString>>::try_from", "String::from_utf8 (+valid_up_to, bytes handed back)", BytesOnce;
        "s.try_from_bstr", "<string::HipStr<'a, B> as TryFrom<&'a BStr>>::try_from", "core::str::from_utf8 (+valid_up_to)", BytesOnce;
        "s.borsh", "<string::HipStr<'_, B> as BorshDeserialize>::deserialize_reader", "String::deserialize_reader (borsh)", BytesOnce;
        "s.serde_owned", "<string::HipStr<'_, B> as Deserialize<'de>>::deserialize", "String::deserialize on visit_bytes / visit_borrowed_bytes / visit_byte_buf", BytesOnce;
        "s.serde_borrowed", "string::serde::borrow_deserialize", "core::str::from_utf8 on the three byte visits", BytesOnce;
        "o.new", "os_string::HipOsStr::new", "OsString::new", Unit;
        "o.with_capacity", "os_string::HipOsStr::with_capacity", "OsString::with_capacity", Unit;
        "o.borrowed", "os_string::HipOsStr::borrowed", "the &OsStr itself", BytesOnce;
        "o.into_borrowed", "os_string::HipOsStr::into_borrowed", "same bytes either way; Ok iff borrowed", Bytes;
        "o.into_os_string", "os_string::HipOsStr::into_os_string", "OsString::from_vec", Bytes;
        "o.into_owned", "os_string::HipOsStr::into_owned", "OsStr::to_os_string", Bytes;
        "o.into_str", "os_string::HipOsStr::into_str", "OsString::into_string (Err hands the value back)", Bytes;
        "o.to_str", "os_string::HipOsStr::to_str", "OsStr::to_str", Bytes;
        "o.to_str_lossy", "os_string::HipOsStr::to_str_lossy", "OsStr::to_string_lossy", Bytes;
        "o.slice_ref", "os_string::HipOsStr::slice_ref", "byte sub-slices of the OsStr", Bytes;
        "o.try_slice_ref", "os_string::HipOsStr::try_slice_ref", "byte sub-slices of the OsStr; None for a foreign slice", Bytes;
        "o.from_static", "os_string::HipOsStr::from_static", "OsString::from(&str)", Static;
        "o.clone", "<os_string::HipOsStr<'_, B> as Clone>::clone", "OsString::clone", Bytes;
        "o.default", "<os_string::HipOsStr<'_, B> as Default>::default", "OsString::default", Unit;
        "o.from_str", "<os_string::HipOsStr<'_, B> as From<&str>>::from", "OsString::from(&str)", Str;
        "o.from_box_str", "<os_string::HipOsStr<'_, B> as From<Box<str>>>::from", "OsString::from(String)", Str;
        "o.from_string", "<os_string::HipOsStr<'_, B> as From<String>>::from", "OsString::from(String)", Str;
        "o.from_osstr", "<os_string::HipOsStr<'_, B> as From<&OsStr>>::from", "OsStr::to_os_string", BytesOnce;
        "o.from_osstring", "<os_string::HipOsStr<'_, B> as From<OsString>>::from", "the OsString itself", BytesOnce;
        "o.from_cow_str", "<os_string::HipOsStr<'borrow, B> as From<Cow<'borrow, str>>>::from", "OsString::from(String)", Str;
        "o.from_hipstr", "<os_string::HipOsStr<'borrow, B> as From<HipStr<'borrow, B>>>::from", "OsString::from(String)", Str;
        "o.from_ref_hipstr", "<os_string::HipOsStr<'borrow, B> as From<&HipStr<'borrow, B>>>::from", "OsString::from(String)", Str;
        "p.new", "path::HipPath::new", "PathBuf::new", Unit;
        "p.borrowed", "path::HipPath::borrowed", "the &Path itself", BytesOnce;
        "p.into_borrowed", "path::HipPath::into_borrowed", "same bytes either way; Ok iff borrowed", Bytes;
        "p.into_os_str", "path::HipPath::into_os_str", "PathBuf::into_os_string", Bytes;
        "p.into_os_string", "path::HipPath::into_os_string", "PathBuf::into_os_string", Bytes;
        "p.into_path_buf", "path::HipPath::into_path_buf", "PathBuf::from(OsString)", Bytes;
        "p.into_owned", "path::HipPath::into_owned", "Path::to_path_buf", Bytes;
        "p.into_str", "path::HipPath::into_str", "PathBuf::into_os_string().into_string() (Err hands the value back)", Bytes;
        "p.from_static", "path::HipPath::from_static", "PathBuf::from(&str)", Static;
        "p.clone", "<path::HipPath<'_, B> as Clone>::clone", "PathBuf::clone", Bytes;
        "p.default", "<path::HipPath<'_, B> as Default>::default", "PathBuf::default", Unit;
        "p.from_path", "<path::HipPath<'_, B> as From<&Path>>::from", "Path::to_path_buf", BytesOnce;
        "p.from_str", "<path::HipPath<'_, B> as From<&str>>::from", "PathBuf::from(&str)", Str;
        "p.from_osstr", "<path::HipPath<'_, B> as From<&OsStr>>::from", "PathBuf::from(&OsStr)", BytesOnce;
        "p.from_box_str", "<path::HipPath<'_, B> as From<Box<str>>>::from", "PathBuf::from(String)", Str;
        "p.from_string", "<path::HipPath<'_, B> as From<String>>::from", "PathBuf::from(String)", Str;
        "p.from_osstring", "<path::HipPath<'_, B> as From<OsString>>::from", "PathBuf::from(OsString)", BytesOnce;
        "p.from_pathbuf", "<path::HipPath<'_, B> as From<PathBuf>>::from", "the PathBuf itself", BytesOnce;
        "p.from_cow_str", "<path::HipPath<'borrow, B> as From<Cow<'borrow, str>>>::from", "PathBuf::from(String)", Str;
        "p.from_cow_osstr", "<path::HipPath<'borrow, B> as From<Cow<'borrow, OsStr>>>::from", "PathBuf::from(OsString)", BytesOnce;
        "p.from_cow_path", "<path::HipPath<'borrow, B> as From<Cow<'borrow, Path>>>::from", "Cow<Path>::into_owned", BytesOnce;
        "p.from_hiposstr", "<path::HipPath<'borrow, B> as From<HipOsStr<'borrow, B>>>::from", "PathBuf::from(OsString)", Bytes;
        "p.from_hipstr", "<path::HipPath<'borrow, B> as From<HipStr<'borrow, B>>>::from", "PathBuf::from(String)", Str;
        "p.from_ref_hiposstr", "<path::HipPath<'borrow, B> as From<&HipOsStr<'borrow, B>>>::from", "PathBuf::from(OsString)", Bytes;
        "p.from_ref_hipstr", "<path::HipPath<'borrow, B> as From<&HipStr<'borrow, B>>>::from", "PathBuf::from(String)", Str;
        "o.from_hippath", "<os_string::HipOsStr<'borrow, B> as From<HipPath<'borrow, B>>>::from", "PathBuf::into_os_string", Bytes;
        "o.from_ref_hippath", "<os_string::HipOsStr<'borrow, B> as From<&HipPath<'borrow, B>>>::from", "Path::as_os_str().to_os_string()", Bytes;
        "p.serde_owned", "<path::HipPath<'_, B> as Deserialize<'de>>::deserialize", "String::deserialize on the three byte visits, then PathBuf::from", BytesOnce;
        "p.serde_borrowed", "path::serde::borrow_deserialize", "core::str::from_utf8 on the three byte visits", BytesOnce;
    }

    /// Doors deliberately not called here, with the reason (a "must" door may not be listed).
    pub const SKIPS: &[(&str, &str)] = &[(
        "<os_string::HipOsStr<'_, B> as Deserialize<'de>>::deserialize",
        "delegates to std's OsString::deserialize (platform enum Unix(bytes)/Windows(u16s)); exercised by C16 serdrive (K::Os, all backends) against OsString",
    )];

    // -----------------------------------------------------------------------------------------
    // Inputs
    // -----------------------------------------------------------------------------------------

    #[derive(Clone, Copy, PartialEq, Eq, Debug, Hash, PartialOrd, Ord)]
    pub enum Be {
        Arc,
        Rc,
        Unique,
    }
    const BES: [Be; 3] = [Be::Arc, Be::Rc, Be::Unique];

    #[derive(Clone, Copy, PartialEq, Eq, Debug, Hash, PartialOrd, Ord)]
    pub enum Rep {
        /// `borrowed(&..)`
        Borrowed,
        /// from an owned `Vec`/`OsString` (inline when short, unique heap otherwise)
        Owned,
        /// as `Owned`, with a second handle alive (shared heap)
        Shared,
        /// a strict sub-slice of a longer heap value (offset into a shared buffer)
        Offset,
        /// copied from a slice
        Copied,
    }
    const REPS_ALL: [Rep; 5] = [Rep::Borrowed, Rep::Owned, Rep::Shared, Rep::Offset, Rep::Copied];

    fn be_name(b: Be) -> &'static str {
        match b {
            Be::Arc => "arc",
            Be::Rc => "rc",
            Be::Unique => "unique",
        }
    }
    fn rep_name(r: Rep) -> &'static str {
        match r {
            Rep::Borrowed => "borrowed",
            Rep::Owned => "owned",
            Rep::Shared => "shared",
            Rep::Offset => "offset",
            Rep::Copied => "copied",
        }
    }
    fn parse_be(s: &str) -> Option<Be> {
        BES.iter().copied().find(|b| be_name(*b) == s)
    }
    fn parse_rep(s: &str) -> Option<Rep> {
        REPS_ALL.iter().copied().find(|r| rep_name(*r) == s)
    }

    const STATICS: [&str; 6] = [
        "",
        "abc",
        "a\u{e9}\u{20ac}\u{1f980}",
        "/usr/lib/x86_64-linux-gn",  // 23 bytes... (inline capacity)
        "/usr/lib/x86_64-linux-gnu", // 24
        "/tmp/\u{1f980}/\u{e9}t\u{e9}/a-rather-long-file-name.txt",
    ];

    pub struct Outcome {
        pub observed: String,
        pub expected: String,
        /// raw bytes of every `HipStr` produced by the call
        pub strs: Vec<Vec<u8>>,
    }

    fn raw_s<B: Backend>(s: &HipStr<'_, B>) -> Vec<u8> {
        s.verif_bytes().as_slice().to_vec()
    }
    fn raw_o<B: Backend>(s: &HipOsStr<'_, B>) -> Vec<u8> {
        s.verif_bytes().as_slice().to_vec()
    }
    fn raw_p<B: Backend>(s: &HipPath<'_, B>) -> Vec<u8> {
        s.verif_bytes().as_slice().to_vec()
    }

    const PAD_L: usize = 5;
    const PAD_R: usize = 29;

    fn padded(b: &[u8]) -> Vec<u8> {
        let mut v = vec![b'#'; PAD_L];
        v.extend_from_slice(b);
        v.extend(std::iter::repeat(b'%').take(PAD_R));
        v
    }

    /// The payload as a `HipByt` in representation `rep` (+ a handle to keep alive).
    fn mk_byt<'a, B: Backend>(b: &'a [u8], rep: Rep) -> (HipByt<'a, B>, Option<HipByt<'a, B>>) {
        match rep {
            Rep::Borrowed => (HipByt::borrowed(b), None),
            Rep::Owned => (HipByt::from(b.to_vec()), None),
            Rep::Shared => {
                let mut v = Vec::with_capacity(b.len() + 40);
                v.extend_from_slice(b);
                let h = HipByt::from(v);
                let k = h.clone();
                (h, Some(k))
            }
            Rep::Offset => {
                let base: HipByt<'a, B> = HipByt::from(padded(b));
                let s = base.slice(PAD_L..PAD_L + b.len());
                (s, Some(base))
            }
            Rep::Copied => (HipByt::from(b), None),
        }
    }

    fn mk_os<'a, B: Backend>(b: &'a [u8], rep: Rep) -> (HipOsStr<'a, B>, Option<HipOsStr<'a, B>>) {
        match rep {
            Rep::Borrowed => (HipOsStr::borrowed(OsStr::from_bytes(b)), None),
            Rep::Owned => (HipOsStr::from(OsString::from_vec(b.to_vec())), None),
            Rep::Shared => {
                let mut v = Vec::with_capacity(b.len() + 40);
                v.extend_from_slice(b);
                let h = HipOsStr::from(OsString::from_vec(v));
                let k = h.clone();
                (h, Some(k))
            }
            Rep::Offset => {
                let base: HipOsStr<'a, B> = HipOsStr::from(OsString::from_vec(padded(b)));
                let s = {
                    let all = base.as_os_str().as_bytes();
                    base.slice_ref(OsStr::from_bytes(&all[PAD_L..PAD_L + b.len()]))
                };
                (s, Some(base))
            }
            Rep::Copied => (HipOsStr::from(OsStr::from_bytes(b)), None),
        }
    }

    fn mk_path<'a, B: Backend>(b: &'a [u8], rep: Rep) -> (HipPath<'a, B>, Option<HipOsStr<'a, B>>) {
        let (o, k) = mk_os::<B>(b, rep);
        (HipPath::from(o), k)
    }

    fn res_hex(ok: bool, bytes: &[u8]) -> String {
        format!("{}:{}", if ok { "ok" } else { "err" }, hex(bytes))
    }

    // A deserializer that feeds the bytes to the visitor through one of its three byte entries.
    #[derive(Clone, Copy)]
    enum Visit {
        Bytes,
        Borrowed,
        Buf,
    }
    struct BytesDe<'de>(&'de [u8], Visit);
    impl<'de> Deserializer<'de> for BytesDe<'de> {
        type Error = serde::de::value::Error;
        fn deserialize_any<V: Visitor<'de>>(self, v: V) -> Result<V::Value, Self::Error> {
            match self.1 {
                Visit::Bytes => v.visit_bytes(self.0),
                Visit::Borrowed => v.visit_borrowed_bytes(self.0),
                Visit::Buf => v.visit_byte_buf(self.0.to_vec()),
            }
        }
        serde::forward_to_deserialize_any! {
            bool i8 i16 i32 i64 i128 u8 u16 u32 u64 u128 f32 f64 char str string bytes byte_buf
            option unit unit_struct newtype_struct seq tuple tuple_struct map struct enum
            identifier ignored_any
        }
    }
    const VISITS: [Visit; 3] = [Visit::Bytes, Visit::Borrowed, Visit::Buf];

    /// Strict byte door outcome in canonical form: `ok:<hex>` or `err:<upto>:<hex handed back>`.
    fn strict_std(b: &[u8], with_back: bool) -> String {
        match String::from_utf8(b.to_vec()) {
            Ok(s) => res_hex(true, s.as_bytes()),
            Err(e) => {
                if with_back {
                    format!("err:{}:{}", e.utf8_error().valid_up_to(), hex(e.as_bytes()))
                } else {
                    format!("err:{}", e.utf8_error().valid_up_to())
                }
            }
        }
    }

    pub struct Input<'a> {
        pub bytes: &'a [u8],
        pub rep: Rep,
        pub units: &'a [u16],
        pub stat: &'static str,
    }

    /// Calls door `id` for backend `B`. `None`: the input does not apply to this door.
    #[allow(clippy::too_many_lines)]
    fn call<B: Backend>(id: &str, inp: &Input<'_>) -> Option<Outcome> {
        let b = inp.bytes;
        let rep = inp.rep;
        let mut strs: Vec<Vec<u8>> = vec![];
        let as_str = core::str::from_utf8(b).ok();
        let (observed, expected): (String, String) = match id {
            // ---------------------------------------------------------------- HipStr
            "s.from_utf16" => {
                let o = match HipStr::<B>::from_utf16(inp.units) {
                    Ok(s) => {
                        let r = raw_s(&s);
                        strs.push(r.clone());
                        res_hex(true, &r)
                    }
                    Err(_) => "err".into(),
                };
                let e = match String::from_utf16(inp.units) {
                    Ok(s) => res_hex(true, s.as_bytes()),
                    Err(_) => "err".into(),
                };
                (o, e)
            }
            "s.from_utf16_lossy" => {
                let s = HipStr::<B>::from_utf16_lossy(inp.units);
                let r = raw_s(&s);
                strs.push(r.clone());
                (hex(&r), hex(String::from_utf16_lossy(inp.units).as_bytes()))
            }
            "s.from_utf8" | "s.try_from_hipbyt" | "s.try_from_ref_hipbyt" => {
                let (h, _k) = mk_byt::<B>(b, rep);
                let res = match id {
                    "s.from_utf8" => HipStr::from_utf8(h),
                    "s.try_from_hipbyt" => HipStr::try_from(h),
                    _ => HipStr::try_from(&h),
                };
                let o = match res {
                    Ok(s) => {
                        let r = raw_s(&s);
                        strs.push(r.clone());
                        res_hex(true, &r)
                    }
                    Err(e) => {
                        let upto = e.utf8_error().valid_up_to();
                        let a = e.as_bytes().to_vec();
                        let back = e.into_bytes();
                        if back.as_slice() != &a[..] {
                            format!("err:{}:{}/into_bytes={}", upto, hex(&a), hex(back.as_slice()))
                        } else {
                            format!("err:{}:{}", upto, hex(&a))
                        }
                    }
                };
                (o, strict_std(b, true))
            }
            "s.from_utf8_lossy" => {
                let (h, _k) = mk_byt::<B>(b, rep);
                let s = HipStr::from_utf8_lossy(h);
                let r = raw_s(&s);
                strs.push(r.clone());
                (hex(&r), hex(String::from_utf8_lossy(b).as_bytes()))
            }
            "s.try_from_slice" | "s.try_from_bstr" => {
                let res: Result<HipStr<'_, B>, core::str::Utf8Error> = if id == "s.try_from_slice" {
                    HipStr::try_from(b)
                } else {
                    HipStr::try_from(BStr::new(b))
                };
                let o = match res {
                    Ok(s) => {
                        let r = raw_s(&s);
                        strs.push(r.clone());
                        res_hex(true, &r)
                    }
                    Err(e) => format!("err:{}", e.valid_up_to()),
                };
                (o, strict_std(b, false))
            }
            "s.try_from_vec" | "s.try_from_bstring" => {
                let res: Result<HipStr<'_, B>, std::string::FromUtf8Error> = if id == "s.try_from_vec" {
                    HipStr::try_from(b.to_vec())
                } else {
                    HipStr::try_from(BString::from(b.to_vec()))
                };
                let o = match res {
                    Ok(s) => {
                        let r = raw_s(&s);
                        strs.push(r.clone());
                        res_hex(true, &r)
                    }
                    Err(e) => format!("err:{}:{}", e.utf8_error().valid_up_to(), hex(e.as_bytes())),
                };
                (o, strict_std(b, true))
            }
            "s.borsh" => {
                let mut buf = (b.len() as u32).to_le_bytes().to_vec();
                buf.extend_from_slice(b);
                let o = match HipStr::<B>::deserialize_reader(&mut &buf[..]) {
                    Ok(s) => {
                        let r = raw_s(&s);
                        strs.push(r.clone());
                        res_hex(true, &r)
                    }
                    Err(_) => "err".into(),
                };
                let e = match String::deserialize_reader(&mut &buf[..]) {
                    Ok(s) => res_hex(true, s.as_bytes()),
                    Err(_) => "err".into(),
                };
                (o, e)
            }
            "s.serde_owned" | "s.serde_borrowed" | "p.serde_owned" | "p.serde_borrowed" => {
                let mut o = String::new();
                let mut e = String::new();
                for v in VISITS {
                    let r: Result<Vec<u8>, ()> = match id {
                        "s.serde_owned" => <HipStr<'_, B> as Deserialize>::deserialize(BytesDe(b, v)).map(|s| {
                            let r = raw_s(&s);
                            strs.push(r.clone());
                            r
                        }),
                        "s.serde_borrowed" => {
                            hipstr::string::serde::borrow_deserialize::<_, B>(BytesDe(b, v)).map(|s| {
                                let r = raw_s(&s);
                                strs.push(r.clone());
                                r
                            })
                        }
                        "p.serde_owned" => <HipPath<'_, B> as Deserialize>::deserialize(BytesDe(b, v)).map(|p| raw_p(&p)),
                        _ => hipstr::path::serde::borrow_deserialize::<_, B>(BytesDe(b, v)).map(|p| raw_p(&p)),
                    }
                    .map_err(|_| ());
                    o.push_str(&match r {
                        Ok(r) => res_hex(true, &r[..]),
                        Err(()) => "err".into(),
                    });
                    o.push(',');
                    let t: Result<Vec<u8>, ()> = if id.ends_with("owned") {
                        <String as Deserialize>::deserialize(BytesDe(b, v)).map(String::into_bytes).map_err(|_| ())
                    } else {
                        core::str::from_utf8(b).map(|s| s.as_bytes().to_vec()).map_err(|_| ())
                    };
                    e.push_str(&match t {
                        Ok(r) => res_hex(true, &r[..]),
                        Err(()) => "err".into(),
                    });
                    e.push(',');
                }
                (o, e)
            }
            // ---------------------------------------------------------------- HipOsStr
            "o.new" => (hex(&raw_o(&HipOsStr::<B>::new())), hex(OsString::new().as_encoded_bytes())),
            "o.default" => (
                hex(&raw_o(&HipOsStr::<B>::default())),
                hex(OsString::default().as_encoded_bytes()),
            ),
            "o.with_capacity" => {
                let mut o = String::new();
                let mut e = String::new();
                for c in [0usize, 1, 23, 24, 100] {
                    o.push_str(&hex(&raw_o(&HipOsStr::<B>::with_capacity(c))));
                    e.push_str(&hex(OsString::with_capacity(c).as_encoded_bytes()));
                }
                (o, e)
            }
            "o.borrowed" => {
                let os = OsStr::from_bytes(b);
                let x = HipOsStr::<B>::borrowed(os);
                let y = HipOsStr::<B>::borrowed(Path::new(os));
                (format!("{},{}", hex(&raw_o(&x)), hex(&raw_o(&y))), format!("{},{}", hex(os.as_encoded_bytes()), hex(os.as_encoded_bytes())))
            }
            "o.into_borrowed" => {
                let (x, _k) = mk_os::<B>(b, rep);
                let was = x.is_borrowed();
                let o = match x.into_borrowed() {
                    Ok(os) => res_hex(true, os.as_encoded_bytes()),
                    Err(x) => res_hex(false, &raw_o(&x)),
                };
                (o, res_hex(was, b))
            }
            "o.into_os_string" => {
                let (x, _k) = mk_os::<B>(b, rep);
                let o = match x.into_os_string() {
                    Ok(os) => hex(os.as_encoded_bytes()),
                    Err(x) => hex(&raw_o(&x)),
                };
                (o, hex(OsString::from_vec(b.to_vec()).as_encoded_bytes()))
            }
            "o.into_owned" => {
                let (x, _k) = mk_os::<B>(b, rep);
                let y: HipOsStr<'static, B> = x.into_owned();
                (hex(&raw_o(&y)), hex(OsStr::from_bytes(b).to_os_string().as_encoded_bytes()))
            }
            "o.into_str" | "p.into_str" => {
                let res: Result<HipStr<'_, B>, Vec<u8>> = if id == "o.into_str" {
                    let (x, _k) = mk_os::<B>(b, rep);
                    x.into_str().map_err(|x| raw_o(&x))
                } else {
                    let (x, _k) = mk_path::<B>(b, rep);
                    x.into_str().map_err(|x| raw_p(&x))
                };
                let o = match res {
                    Ok(s) => {
                        let r = raw_s(&s);
                        strs.push(r.clone());
                        res_hex(true, &r)
                    }
                    Err(back) => res_hex(false, &back),
                };
                let e = match PathBuf::from(OsString::from_vec(b.to_vec())).into_os_string().into_string() {
                    Ok(s) => res_hex(true, s.as_bytes()),
                    Err(os) => res_hex(false, os.as_encoded_bytes()),
                };
                (o, e)
            }
            "o.to_str" => {
                let (x, _k) = mk_os::<B>(b, rep);
                let o = match x.to_str() {
                    Some(s) => {
                        let r = raw_s(&s);
                        strs.push(r.clone());
                        format!("some:{}", hex(&r))
                    }
                    None => "none".into(),
                };
                let e = match OsStr::from_bytes(b).to_str() {
                    Some(s) => format!("some:{}", hex(s.as_bytes())),
                    None => "none".into(),
                };
                (o, e)
            }
            "o.to_str_lossy" => {
                let (x, _k) = mk_os::<B>(b, rep);
                let s = x.to_str_lossy();
                let r = raw_s(&s);
                strs.push(r.clone());
                (hex(&r), hex(OsStr::from_bytes(b).to_string_lossy().as_bytes()))
            }
            "o.slice_ref" | "o.try_slice_ref" => {
                let (x, _k) = mk_os::<B>(b, rep);
                let n = b.len();
                let cuts = [(0, n), (n.min(1), n), (0, n.saturating_sub(1)), (n / 3, n - n / 3), (n / 2, n / 2)];
                let mut o = String::new();
                let mut e = String::new();
                for (lo, hi) in cuts {
                    // an OsStr over a sub-slice of the value's own bytes
                    let all: &[u8] = x.as_os_str().as_bytes();
                    let piece = OsStr::from_bytes(&all[lo..hi]);
                    let y = if id == "o.slice_ref" { Some(x.slice_ref(piece)) } else { x.try_slice_ref(piece) };
                    o.push_str(&y.map_or("none".into(), |y| hex(&raw_o(&y))));
                    o.push(',');
                    e.push_str(&hex(&b[lo..hi]));
                    e.push(',');
                }
                if id == "o.try_slice_ref" {
                    let foreign = b.to_vec();
                    let y = x.try_slice_ref(OsStr::from_bytes(&foreign));
                    // a foreign slice is only "inside" when it is empty and the value too (both
                    // dangling/equal pointers are possible): only non-empty payloads are judged
                    if !b.is_empty() {
                        o.push_str(if y.is_some() { "foreign-accepted" } else { "none" });
                        e.push_str("none");
                    }
                }
                (o, e)
            }
            "o.from_static" => (
                hex(&raw_o(&HipOsStr::<B>::from_static(inp.stat))),
                hex(OsString::from(inp.stat).as_encoded_bytes()),
            ),
            "o.clone" => {
                let (x, _k) = mk_os::<B>(b, rep);
                let y = x.clone();
                (format!("{},{}", hex(&raw_o(&y)), hex(&raw_o(&x))), format!("{},{}", hex(b), hex(b)))
            }
            "o.from_str" | "o.from_box_str" | "o.from_string" | "o.from_cow_str" | "o.from_hipstr"
            | "o.from_ref_hipstr" => {
                let s = as_str?;
                let x: HipOsStr<'_, B> = match id {
                    "o.from_str" => HipOsStr::from(s),
                    "o.from_box_str" => HipOsStr::from(Box::<str>::from(s)),
                    "o.from_string" => HipOsStr::from(s.to_string()),
                    "o.from_cow_str" => {
                        if rep == Rep::Borrowed {
                            HipOsStr::from(Cow::Borrowed(s))
                        } else {
                            HipOsStr::from(Cow::<str>::Owned(s.to_string()))
                        }
                    }
                    "o.from_hipstr" => HipOsStr::from(mk_hipstr::<B>(s, rep)),
                    _ => HipOsStr::from(&mk_hipstr::<B>(s, rep)),
                };
                (hex(&raw_o(&x)), hex(OsString::from(s.to_string()).as_encoded_bytes()))
            }
            "o.from_osstr" => {
                let x = HipOsStr::<B>::from(OsStr::from_bytes(b));
                (hex(&raw_o(&x)), hex(OsStr::from_bytes(b).to_os_string().as_encoded_bytes()))
            }
            "o.from_osstring" => {
                let os = OsString::from_vec(b.to_vec());
                let e = hex(os.as_encoded_bytes());
                (hex(&raw_o(&HipOsStr::<B>::from(os))), e)
            }
            "o.from_hippath" | "o.from_ref_hippath" => {
                let (p, _k) = mk_path::<B>(b, rep);
                let x: HipOsStr<'_, B> = if id == "o.from_hippath" { HipOsStr::from(p) } else { HipOsStr::from(&p) };
                (
                    hex(&raw_o(&x)),
                    hex(PathBuf::from(OsString::from_vec(b.to_vec())).into_os_string().as_encoded_bytes()),
                )
            }
            // ---------------------------------------------------------------- HipPath
            "p.new" => (hex(&raw_p(&HipPath::<B>::new())), hex(PathBuf::new().as_os_str().as_encoded_bytes())),
            "p.default" => (
                hex(&raw_p(&HipPath::<B>::default())),
                hex(PathBuf::default().as_os_str().as_encoded_bytes()),
            ),
            "p.borrowed" => {
                let p = Path::new(OsStr::from_bytes(b));
                let x = HipPath::<B>::borrowed(p);
                let y = HipPath::<B>::borrowed(OsStr::from_bytes(b));
                let e = hex(p.as_os_str().as_encoded_bytes());
                (format!("{},{}", hex(&raw_p(&x)), hex(&raw_p(&y))), format!("{e},{e}"))
            }
            "p.into_borrowed" => {
                let (x, _k) = mk_path::<B>(b, rep);
                let was = x.is_borrowed();
                let o = match x.into_borrowed() {
                    Ok(p) => res_hex(true, p.as_os_str().as_encoded_bytes()),
                    Err(x) => res_hex(false, &raw_p(&x)),
                };
                (o, res_hex(was, b))
            }
            "p.into_os_str" => {
                let (x, _k) = mk_path::<B>(b, rep);
                let y = x.into_os_str();
                (
                    hex(&raw_o(&y)),
                    hex(PathBuf::from(OsString::from_vec(b.to_vec())).into_os_string().as_encoded_bytes()),
                )
            }
            "p.into_os_string" => {
                let (x, _k) = mk_path::<B>(b, rep);
                let o = match x.into_os_string() {
                    Ok(os) => hex(os.as_encoded_bytes()),
                    Err(x) => hex(&raw_p(&x)),
                };
                (o, hex(PathBuf::from(OsString::from_vec(b.to_vec())).into_os_string().as_encoded_bytes()))
            }
            "p.into_path_buf" => {
                let (x, _k) = mk_path::<B>(b, rep);
                let o = match x.into_path_buf() {
                    Ok(p) => hex(p.as_os_str().as_encoded_bytes()),
                    Err(x) => hex(&raw_p(&x)),
                };
                (o, hex(PathBuf::from(OsString::from_vec(b.to_vec())).as_os_str().as_encoded_bytes()))
            }
            "p.into_owned" => {
                let (x, _k) = mk_path::<B>(b, rep);
                let y: HipPath<'static, B> = x.into_owned();
                (hex(&raw_p(&y)), hex(Path::new(OsStr::from_bytes(b)).to_path_buf().as_os_str().as_encoded_bytes()))
            }
            "p.from_static" => (
                hex(&raw_p(&HipPath::<B>::from_static(inp.stat))),
                hex(PathBuf::from(inp.stat).as_os_str().as_encoded_bytes()),
            ),
            "p.clone" => {
                let (x, _k) = mk_path::<B>(b, rep);
                let y = x.clone();
                (format!("{},{}", hex(&raw_p(&y)), hex(&raw_p(&x))), format!("{},{}", hex(b), hex(b)))
            }
            "p.from_str" | "p.from_box_str" | "p.from_string" | "p.from_cow_str" | "p.from_hipstr"
            | "p.from_ref_hipstr" => {
                let s = as_str?;
                let x: HipPath<'_, B> = match id {
                    "p.from_str" => HipPath::from(s),
                    "p.from_box_str" => HipPath::from(Box::<str>::from(s)),
                    "p.from_string" => HipPath::from(s.to_string()),
                    "p.from_cow_str" => {
                        if rep == Rep::Borrowed {
                            HipPath::from(Cow::Borrowed(s))
                        } else {
                            HipPath::from(Cow::<str>::Owned(s.to_string()))
                        }
                    }
                    "p.from_hipstr" => HipPath::from(mk_hipstr::<B>(s, rep)),
                    _ => HipPath::from(&mk_hipstr::<B>(s, rep)),
                };
                (hex(&raw_p(&x)), hex(PathBuf::from(s.to_string()).as_os_str().as_encoded_bytes()))
            }
            "p.from_path" | "p.from_osstr" | "p.from_osstring" | "p.from_pathbuf" | "p.from_cow_osstr"
            | "p.from_cow_path" => {
                let os = OsStr::from_bytes(b);
                let x: HipPath<'_, B> = match id {
                    "p.from_path" => HipPath::from(Path::new(os)),
                    "p.from_osstr" => HipPath::from(os),
                    "p.from_osstring" => HipPath::from(os.to_os_string()),
                    "p.from_pathbuf" => HipPath::from(PathBuf::from(os)),
                    "p.from_cow_osstr" => {
                        if b.len() % 2 == 0 {
                            HipPath::from(Cow::Borrowed(os))
                        } else {
                            HipPath::from(Cow::<OsStr>::Owned(os.to_os_string()))
                        }
                    }
                    _ => {
                        if b.len() % 2 == 0 {
                            HipPath::from(Cow::Borrowed(Path::new(os)))
                        } else {
                            HipPath::from(Cow::<Path>::Owned(PathBuf::from(os)))
                        }
                    }
                };
                (hex(&raw_p(&x)), hex(PathBuf::from(os).as_os_str().as_encoded_bytes()))
            }
            "p.from_hiposstr" | "p.from_ref_hiposstr" => {
                let (o, _k) = mk_os::<B>(b, rep);
                let x: HipPath<'_, B> = if id == "p.from_hiposstr" { HipPath::from(o) } else { HipPath::from(&o) };
                (hex(&raw_p(&x)), hex(PathBuf::from(OsString::from_vec(b.to_vec())).as_os_str().as_encoded_bytes()))
            }
            _ => return None,
        };
        Some(Outcome { observed, expected, strs })
    }

    /// A (well-formed by type) `HipStr` in representation `rep`.
    fn mk_hipstr<'a, B: Backend>(s: &'a str, rep: Rep) -> HipStr<'a, B> {
        match rep {
            Rep::Borrowed => HipStr::borrowed(s),
            Rep::Owned | Rep::Shared => HipStr::from(s.to_string()),
            Rep::Offset => {
                let mut t = String::from("#####");
                t.push_str(s);
                t.push_str("%%%%%%%%%%%%%%%%%%%%%%%%%%%%%");
                let base: HipStr<'a, B> = HipStr::from(t);
                base.slice(5..5 + s.len())
            }
            Rep::Copied => HipStr::from(s),
        }
    }

    fn call_be(be: Be, id: &str, inp: &Input<'_>) -> Result<Option<Outcome>, String> {
        let r = catch_unwind(AssertUnwindSafe(|| match be {
            Be::Arc => call::<Arc>(id, inp),
            Be::Rc => call::<Rc>(id, inp),
            Be::Unique => call::<Unique>(id, inp),
        }));
        r.map_err(|_| "panic".to_string())
    }

    // -----------------------------------------------------------------------------------------
    // Input stream
    // -----------------------------------------------------------------------------------------

    /// Class-boundary representatives of Table 3-7 (as in utf8drive).
    const REPS: [u8; 24] = [
        0x00, 0x7F, 0x80, 0x8F, 0x90, 0x9F, 0xA0, 0xBF, 0xC0, 0xC1, 0xC2, 0xDF, 0xE0, 0xE1, 0xEC, 0xED, 0xEE,
        0xEF, 0xF0, 0xF1, 0xF3, 0xF4, 0xF5, 0xFF,
    ];

    /// One representative per ill-formed class and truncation point (as in utf8drive).
    const ILL_FORMED: &[&[u8]] = &[
        &[0x80], &[0xBF], &[0x80, 0x80], &[0xC0], &[0xC1], &[0xC0, 0x80], &[0xC1, 0xBF], &[0xF5], &[0xF8],
        &[0xFE], &[0xFF], &[0xC2], &[0xDF], &[0xC2, 0x41], &[0xC2, 0xC2], &[0xDF, 0xC0],
        &[0xE0, 0x80, 0x80], &[0xE0, 0x9F, 0xBF], &[0xED, 0xA0, 0x80], &[0xED, 0xBF, 0xBF], &[0xE0], &[0xE1],
        &[0xED], &[0xEF], &[0xE0, 0xA0], &[0xE1, 0x80], &[0xED, 0x80], &[0xED, 0x9F], &[0xEF, 0xBF],
        &[0xE1, 0x41, 0x80], &[0xE1, 0xC0, 0x80], &[0xE1, 0x80, 0x41], &[0xE1, 0x80, 0xC0], &[0xEE, 0x80, 0xFF],
        &[0xF0, 0x80, 0x80, 0x80], &[0xF0, 0x8F, 0xBF, 0xBF], &[0xF4, 0x90, 0x80, 0x80], &[0xF4, 0xBF, 0xBF, 0xBF],
        &[0xF5, 0x80, 0x80, 0x80], &[0xF7, 0xBF, 0xBF, 0xBF], &[0xF0], &[0xF1], &[0xF4], &[0xF0, 0x90],
        &[0xF1, 0x80], &[0xF4, 0x8F], &[0xF0, 0x90, 0x80], &[0xF0, 0x9F, 0xA6], &[0xF1, 0x80, 0x80],
        &[0xF3, 0xBF, 0xBF], &[0xF4, 0x8F, 0xBF], &[0xF1, 0x41, 0x80, 0x80], &[0xF1, 0x80, 0x41, 0x80],
        &[0xF1, 0x80, 0x80, 0x41], &[0xF1, 0x80, 0x80, 0xC0], &[0xF3, 0xBF, 0xFF, 0xBF],
        &[0xF8, 0x88, 0x80, 0x80, 0x80], &[0xFC, 0x84, 0x80, 0x80, 0x80, 0x80],
    ];

    const PREFIXES: [&str; 7] = [
        "", "a", "\u{e9}", "\u{20ac}", "\u{1f980}", "xxxxxxxxxxxxxxxxxxxx", "xxxxxxxxxxxxxxxxxxxxxxx",
    ];
    const SUFFIXES: [&str; 5] = ["", "z", "\u{e9}", "\u{1f980}", "yyyyyyyyyyyyyyyyyyyyyy"];

    const WELL_FORMED: [&str; 8] = [
        "", "a", "hello", "a\u{e9}\u{20ac}\u{1f980}\u{301}Z", "\u{7f}\u{80}\u{7ff}\u{800}\u{ffff}\u{10000}\u{10ffff}",
        "exactly-23-bytes-long!!", "exactly-24-bytes-long!!!", "\u{1f980}\u{1f980}\u{1f980}\u{1f980}\u{1f980}\u{1f980}",
    ];

    /// UTF-16 unit representatives around the surrogate ranges and the encoding-length edges.
    const UNITS: [u16; 14] = [
        0x0000, 0x0041, 0x007F, 0x0080, 0x07FF, 0x0800, 0xD7FF, 0xD800, 0xDBFF, 0xDC00, 0xDFFF, 0xE000, 0xFFFD,
        0xFFFF,
    ];
    const UNITS_SUR: [u16; 6] = [0x0041, 0xD800, 0xDBFF, 0xDC00, 0xDFFF, 0xE000];

    /// Doors that turn non-UTF-8-typed content into a `HipStr` (used for the widest streams).
    fn is_must_id(id: &str) -> bool {
        id.starts_with("s.") || matches!(id, "o.into_str" | "o.to_str" | "o.to_str_lossy" | "p.into_str")
    }

    fn classify(b: &[u8]) -> &'static str {
        if b.is_empty() {
            return "empty";
        }
        match core::str::from_utf8(b) {
            Ok(s) => {
                if s.is_ascii() {
                    "wf-ascii"
                } else {
                    "wf-multibyte"
                }
            }
            Err(_) => {
                if String::from_utf8_lossy(b).len() == b.len() {
                    "ill-formed-lossy-same-len"
                } else {
                    "ill-formed"
                }
            }
        }
    }

    fn hex16(u: &[u16]) -> String {
        if u.is_empty() {
            return "-".into();
        }
        u.iter().map(|x| format!("{x:04x}")).collect()
    }
    fn unhex16(s: &str) -> Option<Vec<u16>> {
        let b = unhex(s)?;
        if b.len() % 2 != 0 {
            return None;
        }
        Some(b.chunks(2).map(|c| u16::from_be_bytes([c[0], c[1]])).collect())
    }

    // -----------------------------------------------------------------------------------------
    // Runner
    // -----------------------------------------------------------------------------------------

    struct Dis {
        kind: &'static str,
        source: String,
        input: Vec<String>,
        expected: String,
        observed: String,
    }

    struct Scope<'a> {
        reps: &'a [Rep],
        bes: &'a [Be],
        must_only: bool,
        model: bool,
    }

    struct Runner {
        lean: LeanDriver,
        pending: Vec<(String, String)>,
        evaluations: u64,
        dist: BTreeMap<String, u64>,
        hits: BTreeMap<String, BTreeMap<String, u64>>,
        samples: Vec<String>,
        dis: Vec<Dis>,
        n_dis: u64,
        asked: HashSet<Vec<u8>>,
        asked16: HashSet<Vec<u16>>,
        section: &'static str,
    }

    impl Runner {
        fn bump(&mut self, k: &str) {
            *self.dist.entry(k.to_string()).or_insert(0) += 1;
        }

        fn report(&mut self, d: Dis) {
            self.n_dis += 1;
            // keep a few per (kind, source), and never the same minimal payload twice
            let payload = |x: &Dis| x.input.first().and_then(|l| l.rsplit(' ').next().map(str::to_string));
            let same = self.dis.iter().filter(|x| x.source == d.source && x.kind == d.kind).count();
            let dup = d.source != "coverage"
                && self.dis.iter().any(|x| x.source == d.source && x.kind == d.kind && payload(x) == payload(&d));
            if !dup && (same < 4 || d.source == "coverage") && self.dis.len() < 160 {
                self.dis.push(d);
            }
        }

        // ---- model side -------------------------------------------------------------------
        fn ask_model(&mut self, line: String, expected: String) -> Result<(), String> {
            self.pending.push((line, expected));
            if self.pending.len() >= BATCH {
                self.flush()?;
            }
            Ok(())
        }

        fn flush(&mut self) -> Result<(), String> {
            if self.pending.is_empty() {
                return Ok(());
            }
            let batch = std::mem::take(&mut self.pending);
            let line = batch.iter().map(|(l, _)| l.as_str()).collect::<Vec<_>>().join(";");
            let ans = self.lean.ask(&line).map_err(|e| format!("lean driver: {e}"))?;
            let parts: Vec<&str> = ans.split(';').collect();
            if parts.len() != batch.len() {
                return Err(format!("driver answered {} fields for {} ops", parts.len(), batch.len()));
            }
            for ((l, exp), got) in batch.into_iter().zip(parts) {
                self.evaluations += 1;
                self.bump("model-queries");
                if exp != got {
                    self.report(Dis {
                        kind: "impl-vs-model",
                        source: format!("model:{}", l.split(' ').next().unwrap_or("")),
                        input: vec![l],
                        expected: exp,
                        observed: got.to_string(),
                    });
                }
            }
            Ok(())
        }

        fn model_bytes(&mut self, b: &[u8]) -> Result<(), String> {
            if !self.asked.insert(b.to_vec()) {
                return Ok(());
            }
            let h = hex(b);
            let r = core::str::from_utf8(b);
            self.ask_model(format!("valid {h}"), if r.is_ok() { "1" } else { "0" }.into())?;
            self.ask_model(
                format!("upto {h}"),
                match &r {
                    Ok(_) => b.len().to_string(),
                    Err(e) => e.valid_up_to().to_string(),
                },
            )?;
            self.ask_model(format!("lossy {h}"), hex(String::from_utf8_lossy(b).as_bytes()))?;
            self.ask_model(
                format!("tostr {h}"),
                match OsStr::from_bytes(b).to_str() {
                    Some(s) => format!("some:{}", hex(s.as_bytes())),
                    None => "none".into(),
                },
            )?;
            self.ask_model(
                format!("intostr {h}"),
                match OsString::from_vec(b.to_vec()).into_string() {
                    Ok(s) => format!("ok:{}", hex(s.as_bytes())),
                    Err(o) => format!("err:{}", hex(o.as_encoded_bytes())),
                },
            )?;
            self.ask_model(
                format!("fromutf8 {h}"),
                match String::from_utf8(b.to_vec()) {
                    Ok(s) => format!("ok:{}", hex(s.as_bytes())),
                    Err(e) => format!("err:{}:{}", e.utf8_error().valid_up_to(), hex(e.as_bytes())),
                },
            )
        }

        fn model_units(&mut self, u: &[u16]) -> Result<(), String> {
            if !self.asked16.insert(u.to_vec()) {
                return Ok(());
            }
            let h = hex16(u);
            self.ask_model(
                format!("utf16 {h}"),
                match String::from_utf16(u) {
                    Ok(s) => format!("ok:{}", hex(s.as_bytes())),
                    Err(_) => "err".into(),
                },
            )?;
            self.ask_model(format!("utf16lossy {h}"), hex(String::from_utf16_lossy(u).as_bytes()))
        }

        // ---- implementation side ----------------------------------------------------------
        /// Runs one door call; returns the kinds of disagreement found (empty = fine).
        fn probe(&self, c: &Call, be: Be, inp: &Input<'_>) -> Option<Vec<(&'static str, String, String, String)>> {
            let mut out = vec![];
            match call_be(be, c.id, inp) {
                Err(p) => out.push(("impl-vs-oracle", format!("door:{}", c.id), "no panic".to_string(), p)),
                Ok(None) => return None,
                Ok(Some(o)) => {
                    for s in &o.strs {
                        if core::str::from_utf8(s).is_err() {
                            out.push((
                                "monitor",
                                format!("ill-formed-HipStr:{}", c.id),
                                "raw bytes of the HipStr are well-formed UTF-8".to_string(),
                                format!("raw bytes {}", hex(s)),
                            ));
                        }
                    }
                    if o.observed != o.expected {
                        out.push(("impl-vs-oracle", format!("door:{}", c.id), o.expected, o.observed));
                    }
                }
            }
            Some(out)
        }

        fn line(c: &Call, be: Be, inp: &Input<'_>) -> String {
            match c.input {
                In::Utf16 => format!("call16 {} {} {}", c.id, be_name(be), hex16(inp.units)),
                In::Static => format!("callstatic {} {} {}", c.id, be_name(be), hex(inp.stat.as_bytes())),
                _ => format!("call {} {} {} {}", c.id, be_name(be), rep_name(inp.rep), hex(inp.bytes)),
            }
        }

        fn run_call(&mut self, c: &Call, be: Be, inp: &Input<'_>, class: &'static str) {
            let Some(found) = self.probe(c, be, inp) else { return };
            self.evaluations += 1;
            *self.hits.entry(c.id.to_string()).or_default().entry(class.to_string()).or_insert(0) += 1;
            self.bump(&format!("section:{}", self.section));
            if self.samples.len() < 16 && self.evaluations % 99_991 == 1 {
                self.samples.push(Self::line(c, be, inp));
            }
            for (kind, source, expected, observed) in found {
                // shrink: delete bytes / units while the same kind of disagreement persists
                let mut bytes = inp.bytes.to_vec();
                let mut units = inp.units.to_vec();
                let (mut exp, mut obs) = (expected, observed);
                loop {
                    let mut improved = false;
                    let n = if c.input == In::Utf16 { units.len() } else { bytes.len() };
                    for k in 0..n {
                        let (mut nb, mut nu) = (bytes.clone(), units.clone());
                        if c.input == In::Utf16 {
                            nu.remove(k);
                        } else {
                            nb.remove(k);
                        }
                        let cand = Input { bytes: &nb, rep: inp.rep, units: &nu, stat: inp.stat };
                        if let Some(f) = self.probe(c, be, &cand) {
                            if let Some(hit) = f.into_iter().find(|x| x.0 == kind && x.1 == source) {
                                exp = hit.2;
                                obs = hit.3;
                                bytes = nb;
                                units = nu;
                                improved = true;
                                break;
                            }
                        }
                    }
                    if !improved {
                        break;
                    }
                }
                let min = Input { bytes: &bytes, rep: inp.rep, units: &units, stat: inp.stat };
                self.report(Dis {
                    kind,
                    source,
                    input: vec![Self::line(c, be, &min)],
                    expected: exp,
                    observed: obs,
                });
            }
        }

        fn run_payload(&mut self, b: &[u8], scope: &Scope<'_>) -> Result<(), String> {
            let class = classify(b);
            self.bump(&format!("payload:{class}"));
            if scope.model {
                self.model_bytes(b)?;
            }
            for c in CALLS {
                let reps: &[Rep] = match c.input {
                    In::Bytes | In::Str => scope.reps,
                    In::BytesOnce => &[Rep::Borrowed],
                    _ => continue,
                };
                if scope.must_only && !is_must_id(c.id) {
                    continue;
                }
                for &be in scope.bes {
                    for &rep in reps {
                        let inp = Input { bytes: b, rep, units: &[], stat: "" };
                        self.run_call(c, be, &inp, class);
                    }
                }
            }
            Ok(())
        }

        fn run_units(&mut self, u: &[u16]) -> Result<(), String> {
            self.model_units(u)?;
            let class = if String::from_utf16(u).is_ok() { "u16-well-formed" } else { "u16-unpaired-surrogate" };
            self.bump(&format!("payload:{class}"));
            for c in CALLS.iter().filter(|c| c.input == In::Utf16) {
                for be in BES {
                    let inp = Input { bytes: &[], rep: Rep::Borrowed, units: u, stat: "" };
                    self.run_call(c, be, &inp, class);
                }
            }
            Ok(())
        }

        fn run_fixed(&mut self) {
            for c in CALLS {
                for be in BES {
                    match c.input {
                        In::Unit => {
                            let inp = Input { bytes: &[], rep: Rep::Borrowed, units: &[], stat: "" };
                            self.run_call(c, be, &inp, "unit");
                        }
                        In::Static => {
                            for s in STATICS {
                                let inp = Input { bytes: &[], rep: Rep::Borrowed, units: &[], stat: s };
                                self.run_call(c, be, &inp, "static");
                            }
                        }
                        _ => {}
                    }
                }
            }
        }

        // ---- coverage ---------------------------------------------------------------------
        fn coverage_static(&mut self) -> Result<(), String> {
            let ans = self.lean.ask("doors").map_err(|e| format!("lean driver: {e}"))?;
            if ans == "bad-op" {
                return Err("the lean driver has no `doors` command (need the C06Conv utf8_driver)".into());
            }
            let mut needed: Vec<(String, bool)> = vec![];
            for item in ans.split('|').filter(|x| !x.is_empty() && *x != "-") {
                let (name, flag) = item.rsplit_once('\t').ok_or_else(|| format!("bad doors item {item:?}"))?;
                needed.push((name.to_string(), flag == "must"));
            }
            if needed.len() < 40 {
                return Err(format!("implausible door list from the lean driver ({} rows)", needed.len()));
            }
            self.dist.insert("coverage:doors-needing-a-differential".into(), needed.len() as u64);
            let called: BTreeSet<&str> = CALLS.iter().map(|c| c.door).collect();
            let skipped: BTreeSet<&str> = SKIPS.iter().map(|s| s.0).collect();
            for (name, must) in &needed {
                let in_calls = called.contains(name.as_str());
                if !in_calls && !skipped.contains(name.as_str()) {
                    self.report(Dis {
                        kind: "monitor",
                        source: "coverage".into(),
                        input: vec![format!("door {name}")],
                        expected: "a call in doordrive's call table or a reasoned skip".into(),
                        observed: "door of Gen/Doors that no differential calls".into(),
                    });
                }
                if *must && !in_calls {
                    self.report(Dis {
                        kind: "monitor",
                        source: "coverage".into(),
                        input: vec![format!("door {name}")],
                        expected: "lossy / fallible bytes->str / os->str doors are CALLED (a skip is not enough)".into(),
                        observed: "not in the call table".into(),
                    });
                }
            }
            let all: BTreeSet<&str> = needed.iter().map(|x| x.0.as_str()).collect();
            for c in CALLS {
                if !all.contains(c.door) {
                    self.report(Dis {
                        kind: "monitor",
                        source: "coverage".into(),
                        input: vec![format!("call {} -> {}", c.id, c.door)],
                        expected: "every call table entry names a row of Gen/Doors that needs a differential".into(),
                        observed: "stale or misspelt door name".into(),
                    });
                }
            }
            // the reviewed Lean-side copy of the call table (Model/DoorCalls.lean)
            for (cmd, mine) in [("doorcalls", &called), ("doorskips", &skipped)] {
                let ans = self.lean.ask(cmd).map_err(|e| format!("lean driver: {e}"))?;
                let theirs: BTreeSet<&str> = ans.split('|').filter(|x| !x.is_empty() && *x != "-").collect();
                for n in mine.symmetric_difference(&theirs) {
                    self.report(Dis {
                        kind: "monitor",
                        source: "coverage".into(),
                        input: vec![format!("{cmd} {n}")],
                        expected: "doordrive's table = the reviewed list in Model/DoorCalls.lean".into(),
                        observed: if mine.contains(n) { "only in doordrive" } else { "only in the Lean list" }.into(),
                    });
                }
            }
            Ok(())
        }

        fn coverage_dynamic(&mut self) {
            for c in CALLS {
                let n: u64 = self.hits.get(c.id).map_or(0, |m| m.values().sum());
                if n == 0 {
                    self.report(Dis {
                        kind: "monitor",
                        source: "coverage".into(),
                        input: vec![format!("call {} -> {}", c.id, c.door)],
                        expected: "every call table entry is hit".into(),
                        observed: "0 hits".into(),
                    });
                }
                // the doors that examine content must have met ill-formed content
                if is_must_id(c.id) && c.input != In::Utf16 {
                    let ill = self.hits.get(c.id).map_or(0, |m| {
                        m.iter().filter(|(k, _)| k.starts_with("ill-formed")).map(|(_, v)| *v).sum::<u64>()
                    });
                    let same = self
                        .hits
                        .get(c.id)
                        .and_then(|m| m.get("ill-formed-lossy-same-len"))
                        .copied()
                        .unwrap_or(0);
                    if ill == 0 || same == 0 {
                        self.report(Dis {
                            kind: "monitor",
                            source: "coverage".into(),
                            input: vec![format!("call {} -> {}", c.id, c.door)],
                            expected: "hit with ill-formed input, incl. the lossy-same-length class".into(),
                            observed: format!("ill-formed hits {ill}, same-length hits {same}"),
                        });
                    }
                }
            }
        }
    }

    fn random_bytes(rng: &mut Rng, max_units: usize) -> Vec<u8> {
        let units = 1 + rng.below(max_units);
        let mut v = Vec::new();
        for _ in 0..units {
            match rng.below(10) {
                0..=5 => {
                    let c = loop {
                        let c = match rng.below(4) {
                            0 => rng.below(0x80),
                            1 => 0x80 + rng.below(0x800 - 0x80),
                            2 => 0x800 + rng.below(0x10000 - 0x800),
                            _ => 0x10000 + rng.below(0x110000 - 0x10000),
                        } as u32;
                        if let Some(ch) = char::from_u32(c) {
                            break ch;
                        }
                    };
                    let mut buf = [0u8; 4];
                    v.extend_from_slice(c.encode_utf8(&mut buf).as_bytes());
                }
                6 => v.push(*rng.pick(&REPS)),
                7 => v.push(rng.below(256) as u8),
                8 => v.extend_from_slice(rng.pick(ILL_FORMED)),
                _ => {
                    v.pop();
                }
            }
        }
        v
    }

    fn run(r: &mut Runner, thorough: bool, seed: u64) -> Result<(), String> {
        let full = Scope { reps: &REPS_ALL, bes: &BES, must_only: false, model: true };
        r.section = "fixed";
        r.run_fixed();
        // 1. well-formed strings and every ill-formed class in context
        r.section = "classes-in-context";
        for w in WELL_FORMED {
            r.run_payload(w.as_bytes(), &full)?;
        }
        for bad in ILL_FORMED {
            for p in PREFIXES {
                for s in SUFFIXES {
                    let mut v = p.as_bytes().to_vec();
                    v.extend_from_slice(bad);
                    v.extend_from_slice(s.as_bytes());
                    r.run_payload(&v, &full)?;
                }
            }
            // total lengths around the inline capacity (23)
            for total in 21..=26usize {
                if total >= bad.len() {
                    let mut v = vec![b'p'; total - bad.len()];
                    v.extend_from_slice(bad);
                    r.run_payload(&v, &full)?;
                    let mut v = bad.to_vec();
                    v.extend(std::iter::repeat(b's').take(total - bad.len()));
                    r.run_payload(&v, &full)?;
                }
            }
        }
        // 2. two ill-formed parts in a row / separated by one ASCII byte
        r.section = "pairs";
        let pair = Scope { reps: &[Rep::Borrowed, Rep::Owned], bes: &[Be::Arc], must_only: !thorough, model: true };
        for a in ILL_FORMED {
            for b in ILL_FORMED {
                let mut v = a.to_vec();
                v.extend_from_slice(b);
                r.run_payload(&v, &pair)?;
                let mut v = a.to_vec();
                v.push(b'-');
                v.extend_from_slice(b);
                r.run_payload(&v, &pair)?;
            }
        }
        // 3. exhaustive short strings over the class-boundary bytes
        r.section = "exhaustive-short";
        r.run_payload(&[], &full)?;
        for &a in &REPS {
            r.run_payload(&[a], &full)?;
            for &b in &REPS {
                r.run_payload(&[a, b], &full)?;
            }
        }
        r.section = "exhaustive-3";
        let three = Scope { reps: &[Rep::Borrowed, Rep::Owned, Rep::Offset], bes: &BES, must_only: !thorough, model: true };
        for &a in &REPS {
            for &b in &REPS {
                for &c in &REPS {
                    r.run_payload(&[a, b, c], &three)?;
                }
            }
        }
        r.section = "exhaustive-4";
        let mut k = 0usize;
        for &a in &REPS {
            for &b in &REPS {
                for &c in &REPS {
                    for &d in &REPS {
                        k += 1;
                        let be = [BES[k % 3]];
                        let rep = [REPS_ALL[k % 5]];
                        let four = Scope { reps: &rep, bes: &be, must_only: true, model: false };
                        r.run_payload(&[a, b, c, d], &four)?;
                    }
                }
            }
        }
        // 4. UTF-16
        r.section = "utf16";
        r.run_units(&[])?;
        for &a in &UNITS {
            r.run_units(&[a])?;
            for &b in &UNITS {
                r.run_units(&[a, b])?;
                for &c in &UNITS {
                    r.run_units(&[a, b, c])?;
                }
                // around the inline capacity of the UTF-8 result
                for pad in [19usize, 20, 21, 22, 23] {
                    let mut v = vec![0x78u16; pad];
                    v.push(a);
                    v.push(b);
                    r.run_units(&v)?;
                }
            }
        }
        for &a in &UNITS_SUR {
            for &b in &UNITS_SUR {
                for &c in &UNITS_SUR {
                    for &d in &UNITS_SUR {
                        r.run_units(&[a, b, c, d])?;
                        if thorough {
                            for &e in &UNITS_SUR {
                                r.run_units(&[a, b, c, d, e])?;
                            }
                        }
                    }
                }
            }
        }
        // 5. random longer inputs
        r.section = "random";
        let mut rng = Rng::new(seed);
        let n = if thorough { 60_000 } else { 1_500 };
        for i in 0..n {
            let v = random_bytes(&mut rng, 24);
            let be = [BES[i % 3]];
            let sc = Scope { reps: &REPS_ALL, bes: &be, must_only: false, model: true };
            r.run_payload(&v, &sc)?;
            let len = rng.below(30);
            let u: Vec<u16> = (0..len)
                .map(|_| if rng.chance(1, 2) { *rng.pick(&UNITS) } else { rng.below(0x10000) as u16 })
                .collect();
            r.run_units(&u)?;
        }
        r.flush()?;
        r.coverage_dynamic();
        Ok(())
    }

    fn replay(r: &mut Runner, path: &str) -> Result<(), String> {
        let text = std::fs::read_to_string(path).map_err(|e| format!("{path}: {e}"))?;
        let v: serde_json::Value = serde_json::from_str(&text).map_err(|e| format!("{path}: {e}"))?;
        fn collect(v: &serde_json::Value, out: &mut Vec<String>) {
            match v {
                serde_json::Value::String(s) => out.push(s.clone()),
                serde_json::Value::Array(a) => a.iter().for_each(|x| collect(x, out)),
                serde_json::Value::Object(o) => {
                    if let Some(i) = o.get("input") {
                        collect(i, out);
                    } else if let Some(d) = o.get("disagreements") {
                        collect(d, out);
                    }
                }
                _ => {}
            }
        }
        let mut lines = vec![];
        collect(&v, &mut lines);
        r.section = "replay";
        for l in lines {
            let w: Vec<&str> = l.split_whitespace().collect();
            let find = |id: &str| CALLS.iter().find(|c| c.id == id).ok_or_else(|| format!("unknown call id in {l:?}"));
            match w.as_slice() {
                ["call", id, be, rep, h] => {
                    let c = find(id)?;
                    let be = parse_be(be).ok_or_else(|| format!("bad backend in {l:?}"))?;
                    let rep = parse_rep(rep).ok_or_else(|| format!("bad rep in {l:?}"))?;
                    let b = unhex(h).ok_or_else(|| format!("bad hex in {l:?}"))?;
                    r.model_bytes(&b)?;
                    let inp = Input { bytes: &b, rep, units: &[], stat: "" };
                    r.run_call(c, be, &inp, classify(&b));
                }
                ["call16", id, be, h] => {
                    let c = find(id)?;
                    let be = parse_be(be).ok_or_else(|| format!("bad backend in {l:?}"))?;
                    let u = unhex16(h).ok_or_else(|| format!("bad hex in {l:?}"))?;
                    r.model_units(&u)?;
                    let inp = Input { bytes: &[], rep: Rep::Borrowed, units: &u, stat: "" };
                    r.run_call(c, be, &inp, "u16");
                }
                ["callstatic", ..] | ["door", ..] | ["doorcalls", ..] | ["doorskips", ..] => r.run_fixed(),
                [op, h] if matches!(*op, "valid" | "upto" | "lossy" | "tostr" | "intostr" | "fromutf8") => {
                    let b = unhex(h).ok_or_else(|| format!("bad hex in {l:?}"))?;
                    r.model_bytes(&b)?;
                }
                [op, h] if matches!(*op, "utf16" | "utf16lossy") => {
                    let u = unhex16(h).ok_or_else(|| format!("bad hex in {l:?}"))?;
                    r.model_units(&u)?;
                }
                _ => return Err(format!("bad replay line {l:?}")),
            }
        }
        r.flush()
    }

    pub fn main() {
        let cli = parse_cli();
        let Some(lean) = cli.lean.clone() else {
            eprintln!("doordrive: --lean <utf8_driver exe> is required");
            std::process::exit(2);
        };
        let thorough = match cli.tier.as_str() {
            "quick" => false,
            "thorough" => true,
            t => {
                eprintln!("doordrive: unknown tier {t}");
                std::process::exit(2);
            }
        };
        let driver = match LeanDriver::spawn(&lean, &[]) {
            Ok(d) => d,
            Err(e) => {
                eprintln!("doordrive: cannot start {lean}: {e}");
                std::process::exit(2);
            }
        };
        // panics inside door calls are recorded outcomes, not noise on stderr
        std::panic::set_hook(Box::new(|_| {}));
        let mut r = Runner {
            lean: driver,
            pending: vec![],
            evaluations: 0,
            dist: BTreeMap::new(),
            hits: BTreeMap::new(),
            samples: vec![],
            dis: vec![],
            n_dis: 0,
            asked: HashSet::new(),
            asked16: HashSet::new(),
            section: "init",
        };
        let res = r.coverage_static().and_then(|()| match &cli.replay {
            Some(p) => replay(&mut r, p),
            None => run(&mut r, thorough, cli.seed),
        });
        if let Err(e) = res {
            eprintln!("doordrive: internal error: {e}");
            std::process::exit(2);
        }
        let profile = if cfg!(debug_assertions) { "debug" } else { "release" };
        let distinct = (r.asked.len() + r.asked16.len()) as u64;
        let stats = serde_json::json!({
            "evaluations": r.evaluations,
            "distinct_nontrivial": distinct,
            "rule": "every safe door of Gen/Doors through which non-UTF-8-typed data reaches a HipStr, and every door into \
HipOsStr/HipPath (list from the Lean side), called for real on: 8 well-formed strings; 58 ill-formed classes x 7 prefixes x \
5 suffixes and padded to total lengths 21..=26; all ordered pairs of classes (adjacent / one byte apart); all strings of \
length <= 3 (and, for the content-examining doors, 4) over the 24 Table 3-7 class-boundary bytes; 5 source representations \
(borrowed, owned, shared, offset slice of a heap buffer, copied) x 3 backends; UTF-16 unit sequences of length <= 3 over 14 \
representatives, length 4 over the surrogate edges, padded around the inline capacity; seeded random inputs. Checks: raw \
HipStr bytes well-formed (monitor), equality with the std twin (impl-vs-oracle), std twin = Lean model (impl-vs-model), \
coverage of the door list and of the reviewed call list (monitor).",
            "exhaustive": true,
            "tier": cli.tier,
            "seed": cli.seed,
            "distribution": r.dist,
            "hits": r.hits,
            "call_table": CALLS.iter().map(|c| serde_json::json!({"id": c.id, "door": c.door, "twin": c.twin,
                "input": format!("{:?}", c.input)})).collect::<Vec<_>>(),
            "skipped": SKIPS.iter().map(|s| serde_json::json!({"door": s.0, "reason": s.1})).collect::<Vec<_>>(),
            "samples": r.samples,
            "disagreements": r.dis.iter().map(|d| serde_json::json!({
                "kind": d.kind, "source": d.source, "input": d.input, "expected": d.expected,
                "observed": d.observed, "profile": profile,
            })).collect::<Vec<_>>(),
        });
        let text = serde_json::to_string_pretty(&stats).unwrap();
        match &cli.out {
            Some(p) => {
                if let Err(e) = std::fs::write(p, &text) {
                    eprintln!("doordrive: cannot write {p}: {e}");
                    std::process::exit(2);
                }
            }
            None => println!("{text}"),
        }
        eprintln!(
            "doordrive: {} evaluations, {} distinct payloads, {} disagreement(s)",
            r.evaluations, distinct, r.n_dis
        );
        for d in r.dis.iter().take(8) {
            eprintln!("  [{}] {} :: {} :: expected {} observed {}", d.kind, d.source, d.input.join(" / "), d.expected, d.observed);
        }
        std::process::exit(if r.n_dis == 0 { 0 } else { 1 });
    }
}
