//! C10 correspondence: `concat`, `join`, `concat_slices`, `join_slices` of HipByt/HipStr with
//! scripted MISBEHAVING user code, against std and against the Lean two-pass model.
//!
//! A script is a pair of piece lists (ps1, ps2): what the length pass sees and what the copy pass
//! sees.  Two flavours of misbehaviour realise it on the real crate:
//!  * `CloneIter`: an iterator whose `Clone` impl (used for the length pass) yields ps1 while the
//!    original yields ps2 — item counts may differ in both directions;
//!  * `FlipRef`: items whose `AsRef` answers differently on the first and second call (interior
//!    mutability shared through the clone) — same item count, different contents/lengths.
//! Fresh heap memory is filled with 0xFF by this bin's allocator so that an exposed uninitialised
//! byte is visible (and ill-formed UTF-8 for HipStr).

use std::alloc::{GlobalAlloc, Layout, System};
use std::cell::Cell;
use std::collections::{BTreeMap, BTreeSet};
use std::panic::{catch_unwind, AssertUnwindSafe};
use std::rc::Rc;

use hipstr::bytes::HipByt;
use hipstr::string::HipStr;
use hipstr::{Arc, Backend, Rc as HRc, Unique};
use hipverif_harness::util::{hex, parse_cli, LeanDriver, Rng};

struct FillAlloc;
unsafe impl GlobalAlloc for FillAlloc {
    unsafe fn alloc(&self, l: Layout) -> *mut u8 {
        let p = unsafe { System.alloc(l) };
        if !p.is_null() {
            unsafe { std::ptr::write_bytes(p, 0xFF, l.size()) };
        }
        p
    }
    unsafe fn dealloc(&self, p: *mut u8, l: Layout) {
        unsafe { System.dealloc(p, l) }
    }
    unsafe fn realloc(&self, p: *mut u8, l: Layout, n: usize) -> *mut u8 {
        let q = unsafe { System.realloc(p, l, n) };
        if !q.is_null() && n > l.size() {
            unsafe { std::ptr::write_bytes(q.add(l.size()), 0xFF, n - l.size()) };
        }
        q
    }
}
#[global_allocator]
static A: FillAlloc = FillAlloc;

type Pieces = Vec<Vec<u8>>;

/// Iterator whose clone yields `first_pass` and whose original yields `second_pass`.
struct CloneIter {
    mine: Pieces,
    clone_gets: Pieces,
    idx: usize,
}
impl Iterator for CloneIter {
    type Item = Vec<u8>;
    fn next(&mut self) -> Option<Vec<u8>> {
        let r = self.mine.get(self.idx).cloned();
        self.idx += 1;
        r
    }
}
impl Clone for CloneIter {
    fn clone(&self) -> Self {
        CloneIter { mine: self.clone_gets.clone(), clone_gets: self.clone_gets.clone(), idx: 0 }
    }
}

/// Item answering `a` on the first `as_ref`, `b` on the second and a third, different slice
/// `c` of the same length afterwards (state shared by clones).  Correct code calls `as_ref` once per
/// pass, so `c` must never be observed.
#[derive(Clone)]
struct FlipRef {
    a: Vec<u8>,
    b: Vec<u8>,
    c: Vec<u8>,
    calls: Rc<Cell<u32>>,
}
impl AsRef<[u8]> for FlipRef {
    fn as_ref(&self) -> &[u8] {
        let n = self.calls.get();
        self.calls.set(n + 1);
        match n {
            0 => &self.a,
            1 => &self.b,
            _ => &self.c,
        }
    }
}
impl AsRef<str> for FlipRef {
    fn as_ref(&self) -> &str {
        let s: &[u8] = AsRef::<[u8]>::as_ref(self);
        std::str::from_utf8(s).expect("scripts for HipStr are valid UTF-8")
    }
}

/// `Vec<u8>` piece viewed as str (scripts for HipStr are valid UTF-8)
#[derive(Clone)]
struct StrPiece(Vec<u8>);
impl AsRef<str> for StrPiece {
    fn as_ref(&self) -> &str {
        std::str::from_utf8(&self.0).expect("valid")
    }
}

#[derive(Default)]
struct Stats {
    evaluations: u64,
    distinct: BTreeSet<String>,
    dist: BTreeMap<String, u64>,
    samples: Vec<String>,
    disagreements: Vec<serde_json::Value>,
}
impl Stats {
    fn hit(&mut self, k: String) {
        *self.dist.entry(k).or_insert(0) += 1;
    }
    fn disagree(&mut self, kind: &str, input: String, expected: String, observed: String) {
        if self.disagreements.len() < 40 {
            self.disagreements.push(serde_json::json!({
                "kind": kind, "input": [input], "expected": expected, "observed": observed,
                "profile": if cfg!(debug_assertions) { "debug" } else { "release" },
            }));
        }
    }
}

fn pieces_str(ps: &Pieces) -> String {
    if ps.is_empty() {
        ".".into()
    } else {
        ps.iter().map(|p| hex(p)).collect::<Vec<_>>().join(";")
    }
}

#[derive(Debug, Clone, PartialEq)]
enum Obs {
    Value { bytes: Vec<u8>, heap: bool, normalized: bool, utf8_ok: bool },
    Panic,
}

fn obs_line(o: &Obs) -> String {
    match o {
        Obs::Value { bytes, heap, normalized, utf8_ok } => {
            format!("value {} heap={} normalized={} utf8={}", hex(bytes), *heap as u8, *normalized as u8, *utf8_ok as u8)
        }
        Obs::Panic => "panic".into(),
    }
}

fn observe_byt<B: Backend>(f: impl FnOnce() -> HipByt<'static, B>) -> Obs {
    match catch_unwind(AssertUnwindSafe(f)) {
        Ok(h) => Obs::Value {
            bytes: h.as_slice().to_vec(),
            heap: h.is_allocated(),
            normalized: h.is_normalized(),
            utf8_ok: true,
        },
        Err(_) => Obs::Panic,
    }
}

fn observe_str<B: Backend>(f: impl FnOnce() -> HipStr<'static, B>) -> Obs {
    match catch_unwind(AssertUnwindSafe(f)) {
        Ok(h) => {
            let bytes = h.as_bytes().to_vec();
            let utf8_ok = std::str::from_utf8(&bytes).is_ok();
            Obs::Value { bytes, heap: h.is_allocated(), normalized: h.verif_bytes().is_normalized(), utf8_ok }
        }
        Err(_) => Obs::Panic,
    }
}

/// The property, stated on std: consistent → exactly std's result; otherwise panic or the
/// concatenation / join of the pieces actually copied; always normalised and (str) well-formed.
fn oracle_check(consistent: bool, nothing_announced: bool, std_consistent: &[u8], second_pass: &[u8], o: &Obs) -> Result<(), String> {
    // when the length pass announces nothing to copy the copy pass does not run at all:
    // "the pieces actually copied" are none, and the empty value is the right answer
    if nothing_announced && !consistent {
        return match o {
            Obs::Value { bytes, heap: false, normalized: true, utf8_ok: true } if bytes.is_empty() => Ok(()),
            _ => Err("empty inline value (nothing announced, nothing copied)".into()),
        };
    }
    match o {
        Obs::Panic => {
            if consistent {
                Err(format!("value {}", hex(std_consistent)))
            } else {
                Ok(())
            }
        }
        Obs::Value { bytes, heap, normalized, utf8_ok } => {
            let want = if consistent { std_consistent } else { second_pass };
            if bytes != want {
                return Err(format!("panic or value {}", hex(want)));
            }
            if !normalized || (*heap != (bytes.len() > 23)) {
                return Err("normalised representation (heap iff len > 23)".into());
            }
            if !utf8_ok {
                return Err("well-formed UTF-8".into());
            }
            Ok(())
        }
    }
}

fn model_matches(model: &str, o: &Obs) -> bool {
    let parts: Vec<&str> = model.split(' ').collect();
    match (o, parts.as_slice()) {
        (Obs::Panic, ["panic"]) => true,
        (Obs::Value { bytes, heap, .. }, ["value", h, hp]) => *h == hex(bytes) && *hp == if *heap { "1" } else { "0" },
        _ => false,
    }
}

fn join_vec(ps: &Pieces, sep: &[u8]) -> Vec<u8> {
    ps.join(sep)
}

#[allow(clippy::too_many_arguments)]
fn run_case<B: Backend>(bk: &str, st: &mut Stats, lean: &mut Option<LeanDriver>, ps1: &Pieces, ps2: &Pieces, sep: &[u8], utf8: bool) {
    if let Ok(t) = std::env::var("VERIF_TRACE") {
        // crash localisation: record the case about to run
        let _ = std::fs::write(&t, format!("{bk} concat/join sep={} pass1={} pass2={}\n", hex(sep), pieces_str(ps1), pieces_str(ps2)));
    }
    let consistent = ps1 == ps2;
    let same_count = ps1.len() == ps2.len();
    let std_concat = ps1.concat();
    let std_join = join_vec(ps1, sep);
    let second_concat = ps2.concat();
    let second_join = join_vec(ps2, sep);
    let p1 = pieces_str(ps1);
    let p2 = pieces_str(ps2);

    let mut cases: Vec<(String, Obs, bool)> = vec![]; // (label, observation, is_join)

    // flavour 1: CloneIter (clone sees ps1, original sees ps2)
    let mk = || CloneIter { mine: ps2.clone(), clone_gets: ps1.clone(), idx: 0 };
    cases.push((format!("HipByt<{bk}>::concat[CloneIter]"), observe_byt::<B>(|| HipByt::concat(mk())), false));
    cases.push((format!("HipByt<{bk}>::join[CloneIter]"), observe_byt::<B>(|| HipByt::join(mk(), sep)), true));
    if utf8 {
        let mks = || mk().map(StrPiece);
        cases.push((format!("HipStr<{bk}>::concat[CloneIter]"), observe_str::<B>(|| HipStr::concat(mks())), false));
        let seps = std::str::from_utf8(sep).unwrap().to_string();
        cases.push((format!("HipStr<{bk}>::join[CloneIter]"), observe_str::<B>(|| HipStr::join(mks(), seps.as_str())), true));
    }
    // flavour 2: FlipRef (same item count)
    if same_count {
        let items = || -> Vec<FlipRef> {
            ps1.iter().zip(ps2.iter()).map(|(a, b)| FlipRef { a: a.clone(), b: b.clone(), c: vec![b'~'; b.len()], calls: Rc::new(Cell::new(0)) }).collect()
        };
        cases.push((format!("HipByt<{bk}>::concat[FlipRef]"), observe_byt::<B>(|| HipByt::concat(items())), false));
        cases.push((format!("HipByt<{bk}>::join[FlipRef]"), observe_byt::<B>(|| HipByt::join(items(), sep)), true));
        if utf8 {
            cases.push((format!("HipStr<{bk}>::concat[FlipRef]"), observe_str::<B>(|| HipStr::concat(items())), false));
            let seps = std::str::from_utf8(sep).unwrap().to_string();
            cases.push((format!("HipStr<{bk}>::join[FlipRef]"), observe_str::<B>(|| HipStr::join(items(), seps.as_str())), true));
        }
    }
    // slice forms: pieces cannot change
    if consistent {
        let refs: Vec<&[u8]> = ps1.iter().map(|p| &p[..]).collect();
        cases.push((format!("HipByt<{bk}>::concat_slices"), observe_byt::<B>(|| HipByt::concat_slices(&refs)), false));
        cases.push((format!("HipByt<{bk}>::join_slices"), observe_byt::<B>(|| HipByt::join_slices(&refs, sep)), true));
        if utf8 {
            let srefs: Vec<&str> = ps1.iter().map(|p| std::str::from_utf8(p).unwrap()).collect();
            cases.push((format!("HipStr<{bk}>::concat_slices"), observe_str::<B>(|| HipStr::concat_slices(&srefs)), false));
            let seps = std::str::from_utf8(sep).unwrap();
            cases.push((format!("HipStr<{bk}>::join_slices"), observe_str::<B>(|| HipStr::join_slices(&srefs, seps)), true));
        }
    }

    // flavour 3: FlipSep — the SEPARATOR's AsRef answers differently on successive calls (a: the separator, b: a shorter
    // or longer one, c: '~'s). The pieces are fixed. Whatever the implementation does with such a separator, the value it
    // returns must be the join of the pieces with ONE of the three answers (or it panics): sizing the buffer with one
    // answer and copying another exposes bytes nobody supplied.
    if consistent && ps1.len() >= 2 {
        let mut alts: Vec<Vec<u8>> = vec![];
        if !sep.is_empty() {
            alts.push(sep[..sep.len() - 1].to_vec());
        }
        let mut longer = sep.to_vec();
        longer.push(b'#');
        alts.push(longer);
        for alt in alts {
            for (first, second) in [(sep.to_vec(), alt.clone()), (alt.clone(), sep.to_vec())] {
                let third = vec![b'~'; second.len()];
                let mkf = || FlipRef { a: first.clone(), b: second.clone(), c: third.clone(), calls: Rc::new(Cell::new(0)) };
                let refs: Vec<&[u8]> = ps1.iter().map(|p| &p[..]).collect();
                let mut flip_cases: Vec<(String, Obs)> = vec![];
                flip_cases.push((format!("HipByt<{bk}>::join_slices[FlipSep]"), observe_byt::<B>(|| HipByt::join_slices(&refs, mkf()))));
                flip_cases.push((format!("HipByt<{bk}>::join[FlipSep]"), observe_byt::<B>(|| HipByt::join(ps1.iter().map(|p| &p[..]), mkf()))));
                if utf8 && std::str::from_utf8(&first).is_ok() && std::str::from_utf8(&second).is_ok() {
                    let srefs: Vec<&str> = ps1.iter().map(|p| std::str::from_utf8(p).unwrap()).collect();
                    flip_cases.push((format!("HipStr<{bk}>::join[FlipSep]"), observe_str::<B>(|| HipStr::join(srefs.iter().copied(), mkf()))));
                }
                let allowed: Vec<Vec<u8>> = [&first, &second, &third].iter().map(|s| join_vec(ps1, s)).collect();
                for (label, o) in flip_cases {
                    st.evaluations += 1;
                    st.hit(format!("{} flip-sep {}", label.split('<').next().unwrap_or("").to_string() + label.rsplit("::").next().unwrap_or(""),
                        if second.len() < first.len() { "second-shorter" } else { "second-longer" }));
                    let input = format!("{label} sep1={} sep2={} sep3={} pieces={p1}", hex(&first), hex(&second), hex(&third));
                    st.distinct.insert(input.clone());
                    let ok = match &o {
                        Obs::Panic => true,
                        Obs::Value { bytes, .. } => allowed.iter().any(|a| a == bytes),
                    };
                    if !ok {
                        st.disagree(
                            "impl-vs-oracle",
                            input,
                            format!("panic, or the join of the pieces with ONE of the separator's answers: {}", allowed.iter().map(|a| hex(a)).collect::<Vec<_>>().join(" | ")),
                            obs_line(&o),
                        );
                    }
                }
            }
        }
    }

    // the model's answers
    let (m_concat, m_join) = match lean.as_mut() {
        Some(l) => (
            Some(l.ask(&format!("concat 23 {p1} / {p2}")).unwrap_or_else(|e| format!("driver-error {e}"))),
            Some(l.ask(&format!("join 23 {} {p1} / {p2}", hex(sep))).unwrap_or_else(|e| format!("driver-error {e}"))),
        ),
        None => (None, None),
    };

    for (label, o, is_join) in cases {
        st.evaluations += 1;
        let input = if is_join {
            format!("{label} sep={} pass1={p1} pass2={p2}", hex(sep))
        } else {
            format!("{label} pass1={p1} pass2={p2}")
        };
        let class = match (&o, consistent) {
            (Obs::Panic, _) => "panic",
            (Obs::Value { .. }, true) => "value-consistent",
            (Obs::Value { .. }, false) => "value-inconsistent",
        };
        let shape = if consistent {
            "same"
        } else if second_concat.len() < std_concat.len() {
            "second-shorter"
        } else if second_concat.len() > std_concat.len() {
            "second-longer"
        } else {
            "same-total-different-content"
        };
        st.hit(format!("{} {shape} {class}", label.split('<').next().unwrap_or("") .to_string() + label.rsplit("::").next().unwrap_or("")));
        st.distinct.insert(format!("{label} {p1} {p2} {}", hex(sep)));
        let (stdv, second) = if is_join { (&std_join, &second_join) } else { (&std_concat, &second_concat) };
        let nothing = if is_join { ps1.is_empty() } else { std_concat.is_empty() };
        if let Err(exp) = oracle_check(consistent, nothing, stdv, second, &o) {
            st.disagree("impl-vs-oracle", input.clone(), exp, obs_line(&o));
        }
        let m = if is_join { &m_join } else { &m_concat };
        if let Some(m) = m {
            if !model_matches(m, &o) {
                st.disagree("impl-vs-model", input.clone(), m.clone(), obs_line(&o));
            }
        }
        if st.samples.len() < 8 && st.evaluations % 4099 == 7 {
            st.samples.push(format!("{input} -> {}", obs_line(&o)));
        }
    }
}

fn piece(len: usize, salt: u8) -> Vec<u8> {
    (0..len).map(|i| b'a' + ((i as u8).wrapping_add(salt) % 26)).collect()
}

fn variants(ps1: &Pieces) -> Vec<Pieces> {
    let mut v = vec![ps1.clone()];
    // different content, same lengths
    v.push(ps1.iter().map(|p| piece(p.len(), 7)).collect());
    if let Some(last) = ps1.last() {
        let mut longer = ps1.clone();
        longer.last_mut().unwrap().push(b'Z');
        v.push(longer);
        if !last.is_empty() {
            let mut shorter = ps1.clone();
            shorter.last_mut().unwrap().pop();
            v.push(shorter);
        }
        let mut fewer = ps1.clone();
        fewer.pop();
        v.push(fewer);
        let mut empties = ps1.clone();
        for p in &mut empties {
            p.clear();
        }
        v.push(empties);
        if ps1.len() >= 2 {
            // same total, bytes moved between pieces
            let mut moved = ps1.clone();
            if let Some(b) = moved[0].pop() {
                moved[1].insert(0, b);
                v.push(moved);
            }
            let mut swapped = ps1.clone();
            swapped.swap(0, 1);
            v.push(swapped);
        }
    }
    let mut more = ps1.clone();
    more.push(piece(2, 3));
    v.push(more);
    let mut more_empty = ps1.clone();
    more_empty.push(vec![]);
    v.push(more_empty);
    v.push(vec![]);
    v.dedup();
    v
}

fn main() {
    let cli = parse_cli();
    std::panic::set_hook(Box::new(|_| {}));
    let mut st = Stats::default();
    let mut lean = cli.lean.as_ref().map(|p| LeanDriver::spawn(p, &[]).expect("spawn lean driver"));
    let thorough = cli.tier == "thorough";

    let lens: &[usize] = if thorough { &[0, 1, 2, 11, 12, 22, 23, 24, 30] } else { &[0, 1, 11, 12, 23, 24] };
    let seps: Vec<Vec<u8>> = vec![vec![], vec![b','], vec![b'-', b'-', b'-']];
    let max_pieces = if thorough { 3 } else { 3 };

    // all piece lists of up to `max_pieces` pieces over `lens`
    let mut lists: Vec<Pieces> = vec![vec![]];
    let mut frontier: Vec<Pieces> = vec![vec![]];
    for _ in 0..max_pieces {
        let mut next = vec![];
        for l in &frontier {
            for (k, &n) in lens.iter().enumerate() {
                let mut l2 = l.clone();
                l2.push(piece(n, (k * 3) as u8));
                next.push(l2);
            }
        }
        lists.extend(next.iter().cloned());
        frontier = next;
    }
    // random longer lists (4-6 pieces, lengths 0-30)
    let mut rng = Rng::new(cli.seed);
    let extra = if thorough { 3000 } else { 150 };
    for _ in 0..extra {
        let n = 4 + rng.below(3);
        lists.push((0..n).map(|_| piece(rng.below(31), rng.below(26) as u8)).collect());
    }

    for (i, ps1) in lists.iter().enumerate() {
        let vs = variants(ps1);
        for ps2 in &vs {
            // separators: all for small scripts, one (rotating) for the bulk
            let sep_choices: Vec<&Vec<u8>> = if ps1.len() <= 2 || thorough { seps.iter().collect() } else { vec![&seps[i % 3]] };
            for sep in sep_choices {
                match i % 3 {
                    _ if thorough => {
                        run_case::<Arc>("Arc", &mut st, &mut lean, ps1, ps2, sep, true);
                        run_case::<HRc>("Rc", &mut st, &mut lean, ps1, ps2, sep, true);
                        run_case::<Unique>("Unique", &mut st, &mut lean, ps1, ps2, sep, true);
                    }
                    0 => run_case::<Arc>("Arc", &mut st, &mut lean, ps1, ps2, sep, true),
                    1 => run_case::<HRc>("Rc", &mut st, &mut lean, ps1, ps2, sep, true),
                    _ => run_case::<Unique>("Unique", &mut st, &mut lean, ps1, ps2, sep, true),
                }
            }
        }
    }

    // repeat: contents equal std's and the representation is normalised, for every (len, n) in 0..=30
    fn repeat_sweep<B: Backend>(bk: &str, st: &mut Stats) {
        for len in 0..=30usize {
            let src = piece(len, 1);
            for (rname, h) in [("owned", HipByt::<B>::from(&src[..])), ("borrowed", HipByt::<B>::borrowed(Box::leak(src.clone().into_boxed_slice())))] {
                for n in 0..=30usize {
                    st.evaluations += 1;
                    let o = observe_byt::<B>(|| h.repeat(n).into_owned());
                    let want = src.repeat(n);
                    let input = format!("HipByt<{bk}>::repeat repr={rname} len={len} n={n}");
                    st.distinct.insert(format!("repeat {bk} {rname} {len} {n}"));
                    let ok = match &o {
                        Obs::Value { bytes, heap, normalized, .. } => {
                            // n == 1 and empty sources are clones: a borrowed source stays borrowed (normalised)
                            bytes == &want && *normalized && (*heap == (bytes.len() > 23) || (rname == "borrowed" && !*heap))
                        }
                        Obs::Panic => false,
                    };
                    st.hit(format!("repeat {}", if want.len() > 23 { "heap-sized" } else { "inline-sized" }));
                    if !ok {
                        st.disagree("impl-vs-oracle", input, format!("value {} normalised", hex(&want)), obs_line(&o));
                    }
                }
            }
            let text = "é".repeat(len / 2) + if len % 2 == 1 { "x" } else { "" };
            let hs = HipStr::<B>::from(text.as_str());
            for n in [0usize, 1, 2, 3, 11, 12, 23, 24] {
                st.evaluations += 1;
                let o = observe_str::<B>(|| hs.repeat(n));
                let want = text.repeat(n);
                let ok = matches!(&o, Obs::Value { bytes, heap, normalized: true, utf8_ok: true } if bytes == want.as_bytes() && *heap == (bytes.len() > 23));
                if !ok {
                    st.disagree("impl-vs-oracle", format!("HipStr<{bk}>::repeat text={} n={n}", hex(text.as_bytes())), format!("value {} normalised", hex(want.as_bytes())), obs_line(&o));
                }
            }
        }
    }
    repeat_sweep::<Arc>("Arc", &mut st);
    repeat_sweep::<HRc>("Rc", &mut st);
    repeat_sweep::<Unique>("Unique", &mut st);

    // repeat with a count whose product with the length overflows usize: std's `[u8]::repeat` / `str::repeat` panic
    // ("capacity overflow"); in particular counts whose WRAPPED product is small (<= 23, the inline fast path) must not
    // be mistaken for small results. Run last: a wrapping implementation smashes the stack (the crash is localised by
    // VERIF_TRACE).
    fn repeat_overflow<B: Backend>(bk: &str, st: &mut Stats) {
        for len in 1..=24usize {
            let src = piece(len, 2);
            let mut counts: Vec<usize> = vec![usize::MAX, (usize::MAX / len).wrapping_add(1), (1usize << 63) + 1, usize::MAX / 2 + 2];
            // counts n with len * n overflowing and (len * n) mod 2^64 in 0..=23
            for target in [0usize, 1, len.min(23), 22, 23] {
                // solve len * n ≡ target (mod 2^64) when possible (odd len: multiply by the inverse)
                if len % 2 == 1 {
                    let mut inv: usize = 1;
                    for _ in 0..6 {
                        inv = inv.wrapping_mul(2usize.wrapping_sub(len.wrapping_mul(inv)));
                    }
                    let n = target.wrapping_mul(inv);
                    if len.checked_mul(n).is_none() {
                        counts.push(n);
                    }
                } else if len.is_power_of_two() && target % len == 0 {
                    let n = (usize::MAX / len).wrapping_add(1).wrapping_add(target / len);
                    if len.checked_mul(n).is_none() {
                        counts.push(n);
                    }
                }
            }
            counts.sort_unstable();
            counts.dedup();
            for (rname, h) in [("owned", HipByt::<B>::from(&src[..])), ("borrowed", HipByt::<B>::borrowed(Box::leak(src.clone().into_boxed_slice())))] {
                for &n in &counts {
                    if len.checked_mul(n).is_some() {
                        continue;
                    }
                    st.evaluations += 1;
                    let input = format!("HipByt<{bk}>::repeat repr={rname} len={len} n={n} (product overflows usize, wraps to {})", len.wrapping_mul(n));
                    if let Ok(t) = std::env::var("VERIF_TRACE") {
                        let _ = std::fs::write(&t, format!("{input}\n"));
                    }
                    st.distinct.insert(format!("repeat-overflow {bk} {rname} {len} {n}"));
                    st.hit(format!("repeat overflow wraps-to-{}", if len.wrapping_mul(n) <= 23 { "inline-size" } else { "large" }));
                    let o = observe_byt::<B>(|| h.repeat(n).into_owned());
                    if !matches!(o, Obs::Panic) {
                        st.disagree("impl-vs-oracle", input, "panic (capacity overflow), as <[u8]>::repeat".to_string(), obs_line(&o));
                    }
                }
            }
        }
    }
    repeat_overflow::<Arc>("Arc", &mut st);
    repeat_overflow::<HRc>("Rc", &mut st);
    repeat_overflow::<Unique>("Unique", &mut st);

    let checks = lean.as_mut().map(|l| l.ask("checks").unwrap_or_default()).unwrap_or_default();
    let out = serde_json::json!({
        "evaluations": st.evaluations,
        "distinct_nontrivial": st.distinct.len(),
        "rule": "all piece lists of 0-3 pieces over lengths {0,1,11,12,23,24} (thorough: +2,22,30) plus seeded random lists of 4-6 pieces of length 0-30, each with second-pass variants {same, different content, last longer, last shorter, fewer items, all empty, bytes moved, swapped, one more item, one more empty item, no item} x separators of 0,1,3 bytes x {concat, join} x {HipByt, HipStr} x misbehaviour flavour {Clone yields other pieces, AsRef flips between calls} x backends; slice forms on consistent scripts; repeat for every (len, n) in 0..=30 x 0..=30 x {owned, borrowed} x backends, and counts whose product with the length overflows usize (incl. products wrapping into 0..=23) must panic like std; distinct = distinct (api, flavour, pass1, pass2, sep)",
        "exhaustive": false,
        "distribution": st.dist,
        "samples": st.samples,
        "disagreements": st.disagreements,
        "generated_checks": checks,
    });
    if let Some(p) = &cli.out {
        std::fs::write(p, serde_json::to_string_pretty(&out).unwrap()).expect("write stats");
    } else {
        println!("{}", serde_json::to_string_pretty(&out).unwrap());
    }
    std::process::exit(if st.disagreements.is_empty() { 0 } else { 1 });
}
