//! C14/C15 differential: the real `InlineVec` / `ThinVec` with identity-tracked, fault-injecting
//! elements against the Lean L0 slot model (`lake build slot_driver`).
//!
//! Every element carries a unique id registered in a thread-local monitor. `Clone`, `Drop`,
//! `Default` (tracked prefix), `Iterator::next` and the `resize_with` generator are "user
//! callbacks" — and so are the `pop_if` predicate, `IntoIterator::into_iter`, `Iterator::size_hint`
//! and the destructor of the caller's iterator: while the monitor is armed they are counted and
//! the k-th one panics. The monitor
//! records `mk a | cl a>b | dr a | rt a`; a drop/return of an unknown or already-dropped id is a
//! monitor violation (reported as kind "monitor"), never an abort. One line per operation is sent
//! to the Lean driver and its answer (`ret | len | cap | ids | calls | trace`) is compared with
//! what the implementation did.

use std::cell::RefCell;
use std::panic::{catch_unwind, AssertUnwindSafe};

use hipstr::vecs::thin::{self, Reserved};
use hipstr::vecs::InlineVec;
use hipverif_harness::util::{parse_cli, Rng};

// ---------------------------------------------------------------------------------------------
// red-zone allocator: a write shortly behind an allocation (e.g. one element past a ThinVec buffer)
// lands in the red zone instead of corrupting the heap; it is detected when the block is
// reallocated or freed and reported as a monitor violation of the running history.

const RED: usize = 512;
const RED_BYTE: u8 = 0xA5;

thread_local! {
    /// number of damaged red zones seen by this thread since the last reset
    static RED_HITS: std::cell::Cell<u32> = const { std::cell::Cell::new(0) };
}

struct RedZone;

/// Layout monitor: (pointer -> size, align) of the live allocations of this thread, in a fixed
/// open-addressing table (no allocation inside the allocator). A `dealloc`/`realloc` whose layout
/// differs from the recorded one is counted and served with the RECORDED layout.
const LT_SIZE: usize = 4096;
#[derive(Clone, Copy)]
struct LtEntry {
    ptr: usize,
    size: usize,
    align: usize,
}
struct LayoutTable {
    e: [LtEntry; LT_SIZE],
    n: usize,
}
thread_local! {
    static LAYOUTS: std::cell::UnsafeCell<LayoutTable> = const {
        std::cell::UnsafeCell::new(LayoutTable { e: [LtEntry { ptr: 0, size: 0, align: 0 }; LT_SIZE], n: 0 })
    };
    static LAYOUT_HITS: std::cell::Cell<u32> = const { std::cell::Cell::new(0) };
}

fn lt_slot(ptr: usize) -> usize {
    (ptr >> 4).wrapping_mul(0x9E37_79B9_7F4A_7C15) >> 40 & (LT_SIZE - 1)
}

fn lt_insert(ptr: usize, size: usize, align: usize) {
    let _ = LAYOUTS.try_with(|t| {
        let t = unsafe { &mut *t.get() };
        if t.n * 2 >= LT_SIZE {
            return; // table half full: stop recording (checks of unknown pointers are skipped)
        }
        let mut i = lt_slot(ptr);
        while t.e[i].ptr != 0 {
            if t.e[i].ptr == ptr {
                t.e[i] = LtEntry { ptr, size, align };
                return;
            }
            i = (i + 1) & (LT_SIZE - 1);
        }
        t.e[i] = LtEntry { ptr, size, align };
        t.n += 1;
    });
}

/// removes and returns the recorded layout of `ptr` (allocated on this thread)
fn lt_remove(ptr: usize) -> Option<(usize, usize)> {
    LAYOUTS
        .try_with(|t| {
            let t = unsafe { &mut *t.get() };
            let mut i = lt_slot(ptr);
            loop {
                if t.e[i].ptr == 0 {
                    return None;
                }
                if t.e[i].ptr == ptr {
                    break;
                }
                i = (i + 1) & (LT_SIZE - 1);
            }
            let found = (t.e[i].size, t.e[i].align);
            // backward-shift deletion
            let mut hole = i;
            let mut j = (i + 1) & (LT_SIZE - 1);
            while t.e[j].ptr != 0 {
                let home = lt_slot(t.e[j].ptr);
                let dist_home = j.wrapping_sub(home) & (LT_SIZE - 1);
                let dist_hole = j.wrapping_sub(hole) & (LT_SIZE - 1);
                if dist_home >= dist_hole {
                    t.e[hole] = t.e[j];
                    hole = j;
                }
                j = (j + 1) & (LT_SIZE - 1);
            }
            t.e[hole] = LtEntry { ptr: 0, size: 0, align: 0 };
            t.n -= 1;
            Some(found)
        })
        .ok()
        .flatten()
}

/// the layout to use for the block: the recorded one; a differing argument is a violation
fn lt_check(ptr: *mut u8, l: std::alloc::Layout) -> std::alloc::Layout {
    match lt_remove(ptr as usize) {
        Some((size, align)) if size != l.size() || align != l.align() => {
            let _ = LAYOUT_HITS.try_with(|c| c.set(c.get() + 1));
            unsafe { std::alloc::Layout::from_size_align_unchecked(size, align) }
        }
        _ => l,
    }
}

unsafe fn red_check(ptr: *mut u8, size: usize) {
    let mut bad = false;
    for i in 0..RED {
        if unsafe { *ptr.add(size + i) } != RED_BYTE {
            bad = true;
            break;
        }
    }
    if bad {
        let _ = RED_HITS.try_with(|c| c.set(c.get() + 1));
    }
}

unsafe impl std::alloc::GlobalAlloc for RedZone {
    unsafe fn alloc(&self, l: std::alloc::Layout) -> *mut u8 {
        let Ok(big) = std::alloc::Layout::from_size_align(l.size() + RED, l.align()) else {
            return std::ptr::null_mut();
        };
        let p = unsafe { std::alloc::System.alloc(big) };
        if !p.is_null() {
            unsafe { std::ptr::write_bytes(p.add(l.size()), RED_BYTE, RED) };
            lt_insert(p as usize, l.size(), l.align());
        }
        p
    }
    unsafe fn dealloc(&self, p: *mut u8, l: std::alloc::Layout) {
        unsafe {
            let l = lt_check(p, l);
            red_check(p, l.size());
            let big = std::alloc::Layout::from_size_align_unchecked(l.size() + RED, l.align());
            std::alloc::System.dealloc(p, big)
        }
    }
    unsafe fn realloc(&self, p: *mut u8, l: std::alloc::Layout, new_size: usize) -> *mut u8 {
        unsafe {
            let l = lt_check(p, l);
            red_check(p, l.size());
            let big = std::alloc::Layout::from_size_align_unchecked(l.size() + RED, l.align());
            let q = std::alloc::System.realloc(p, big, new_size + RED);
            if !q.is_null() {
                std::ptr::write_bytes(q.add(new_size), RED_BYTE, RED);
                lt_insert(q as usize, new_size, l.align());
            } else {
                lt_insert(p as usize, l.size(), l.align());
            }
            q
        }
    }
}

#[global_allocator]
static GLOBAL: RedZone = RedZone;

fn take_red_hits() -> u32 {
    RED_HITS.with(|c| c.replace(0))
}

fn take_layout_hits() -> u32 {
    LAYOUT_HITS.with(|c| c.replace(0))
}

// ---------------------------------------------------------------------------------------------
// monitor

#[derive(Clone, Debug, PartialEq)]
enum Ev {
    Mk(u64),
    Cl(u64, u64),
    Dr(u64),
    Rt(u64),
}

#[derive(Default)]
struct Monitor {
    /// 1 = live, 2 = dropped or handed to the caller
    state: Vec<u8>,
    events: Vec<Ev>,
    violations: Vec<String>,
    armed: bool,
    calls: u64,
    panic_at: Option<u64>,
    /// how often the Clone probe found a cloneable iterator
    clone_probes: u64,
}

thread_local! {
    static MON: RefCell<Monitor> = RefCell::new(Monitor::default());
}

const MAGIC: u64 = 0x5EED_0000_0000_0000;
const MAGIC32: u32 = 0xA500_0000;

struct Injected;

fn mon<R>(f: impl FnOnce(&mut Monitor) -> R) -> R {
    MON.with(|m| f(&mut m.borrow_mut()))
}

fn reset_monitor() {
    mon(|m| *m = Monitor::default());
}

/// One user-callback invocation.
fn tick() {
    let fire = mon(|m| {
        if !m.armed {
            return false;
        }
        let idx = m.calls;
        m.calls += 1;
        if m.panic_at == Some(idx) {
            m.panic_at = None;
            // a panic while unwinding would abort: outside the property
            !std::thread::panicking()
        } else {
            false
        }
    });
    if fire {
        std::panic::panic_any(Injected);
    }
}

fn new_id() -> u64 {
    mon(|m| {
        m.state.push(1);
        (m.state.len() - 1) as u64
    })
}

fn note_mk(id: u64) {
    mon(|m| m.events.push(Ev::Mk(id)));
}

/// `raw` is what the element's memory says; `None` = not a value this harness created.
fn note_out(raw: Option<u64>, what: &str, ev: fn(u64) -> Ev) {
    mon(|m| match raw {
        Some(id) if (id as usize) < m.state.len() => {
            if m.state[id as usize] == 1 {
                m.state[id as usize] = 2;
                m.events.push(ev(id));
            } else {
                m.violations.push(format!("{what} of already dropped/returned id #{id}"));
            }
        }
        _ => m.violations.push(format!("{what} of a value that was never initialised")),
    });
}

fn note_clone(raw: Option<u64>) -> u64 {
    tick();
    mon(|m| {
        match raw {
            Some(id) if (id as usize) < m.state.len() => {
                if m.state[id as usize] != 1 {
                    m.violations.push(format!("clone of dropped/returned id #{id}"));
                }
            }
            _ => m.violations.push("clone of a value that was never initialised".into()),
        }
        m.state.push(1);
        let b = (m.state.len() - 1) as u64;
        m.events.push(Ev::Cl(raw.unwrap_or(u64::MAX), b));
        b
    })
}

trait Elem: Clone + Sized + 'static {
    const SIZE: usize;
    /// identity-tracked (registered in the monitor); plain elements are not
    const TRACKED: bool = true;
    const NAME: &'static str = "el";
    fn new() -> Self;
    fn raw(&self) -> Option<u64>;
    /// a user callback producing a value
    fn gen() -> Self {
        tick();
        Self::new()
    }
}

macro_rules! elem {
    ($name:ident, $pad:expr) => {
        #[repr(C)]
        struct $name {
            id: u64,
            pad: [u64; $pad],
        }
        impl Elem for $name {
            const SIZE: usize = 8 * (1 + $pad);
            fn new() -> Self {
                let id = new_id();
                note_mk(id);
                $name { id: id | MAGIC, pad: [0; $pad] }
            }
            fn raw(&self) -> Option<u64> {
                if self.id & 0xFFFF_0000_0000_0000 == MAGIC {
                    Some(self.id & 0x0000_FFFF_FFFF_FFFF)
                } else {
                    None
                }
            }
        }
        impl Clone for $name {
            fn clone(&self) -> Self {
                let b = note_clone(self.raw());
                $name { id: b | MAGIC, pad: [0; $pad] }
            }
        }
        impl Drop for $name {
            fn drop(&mut self) {
                note_out(self.raw(), "drop", Ev::Dr);
                tick();
            }
        }
    };
}

elem!(El8, 0);
elem!(El16, 1);
elem!(El32, 3);
elem!(El64, 7);

/// 4-byte element: capacity rounding of `ThinVec::layout` becomes visible (header align 8).
struct El4 {
    id: u32,
}
impl Elem for El4 {
    const SIZE: usize = 4;
    fn new() -> Self {
        let id = new_id();
        note_mk(id);
        El4 { id: id as u32 | MAGIC32 }
    }
    fn raw(&self) -> Option<u64> {
        if self.id & 0xFF00_0000 == MAGIC32 {
            Some((self.id & 0x00FF_FFFF) as u64)
        } else {
            None
        }
    }
}
impl Clone for El4 {
    fn clone(&self) -> Self {
        let b = note_clone(self.raw());
        El4 { id: b as u32 | MAGIC32 }
    }
}
impl Drop for El4 {
    fn drop(&mut self) {
        note_out(self.raw(), "drop", Ev::Dr);
        tick();
    }
}

/// Plain elements (no drop glue, not tracked): only the prefix of such a ThinVec is observable.
impl Elem for u8 {
    const SIZE: usize = 1;
    const TRACKED: bool = false;
    const NAME: &'static str = "u8";
    fn new() -> Self {
        7
    }
    fn raw(&self) -> Option<u64> {
        None
    }
}
impl Elem for u64 {
    const SIZE: usize = 8;
    const TRACKED: bool = false;
    const NAME: &'static str = "u64";
    fn new() -> Self {
        7
    }
    fn raw(&self) -> Option<u64> {
        None
    }
}
impl Elem for () {
    const SIZE: usize = 0;
    const TRACKED: bool = false;
    const NAME: &'static str = "unit";
    fn new() -> Self {}
    fn raw(&self) -> Option<u64> {
        None
    }
}

/// Drop-tracked prefix with a `Default` that is a user callback.
struct Pfx {
    id: u64,
}
impl Default for Pfx {
    fn default() -> Self {
        tick();
        let id = new_id();
        note_mk(id);
        Pfx { id: id | MAGIC }
    }
}
impl Drop for Pfx {
    fn drop(&mut self) {
        let raw = if self.id & 0xFFFF_0000_0000_0000 == MAGIC {
            Some(self.id & 0x0000_FFFF_FFFF_FFFF)
        } else {
            None
        };
        note_out(raw, "drop of prefix", Ev::Dr);
        tick();
    }
}

/// the value goes to the caller: recorded, never dropped through the callback
fn give<E: Elem>(e: E) -> u64 {
    if !E::TRACKED {
        return u64::MAX;
    }
    let raw = e.raw();
    note_out(raw, "return", Ev::Rt);
    std::mem::forget(e);
    raw.unwrap_or(u64::MAX)
}

/// Upper bound of the scripted `size_hint`: `None`, exactly the lower bound, or lower bound + k.
#[derive(Clone, Copy, Debug, PartialEq)]
enum Hi {
    None,
    Exact,
    Plus(usize),
}

impl Hi {
    fn token(&self) -> String {
        match self {
            Hi::None => "-".into(),
            Hi::Exact => "=".into(),
            Hi::Plus(k) => format!("+{k}"),
        }
    }
    fn parse(t: &str) -> Option<Hi> {
        match t {
            "-" => Some(Hi::None),
            "=" => Some(Hi::Exact),
            _ => t.strip_prefix('+')?.parse().ok().map(Hi::Plus),
        }
    }
    fn of(&self, lo: usize) -> Option<usize> {
        match self {
            Hi::None => None,
            Hi::Exact => Some(lo),
            Hi::Plus(k) => Some(lo + k),
        }
    }
}

/// A user collection: `IntoIterator::into_iter` is a user callback.
struct GenIterable<E: Elem> {
    left: usize,
    hint: usize,
    hi: Hi,
    _p: std::marker::PhantomData<E>,
}
impl<E: Elem> GenIterable<E> {
    fn new(hint: usize, left: usize, hi: Hi) -> Self {
        GenIterable { left, hint, hi, _p: std::marker::PhantomData }
    }
}
impl<E: Elem> IntoIterator for GenIterable<E> {
    type Item = E;
    type IntoIter = GenIter<E>;
    fn into_iter(self) -> GenIter<E> {
        tick();
        GenIter { left: self.left, hint: self.hint, hi: self.hi, _p: std::marker::PhantomData }
    }
}

/// User iterator: `next`, `size_hint` and its own `Drop` are user callbacks; the scripted
/// `size_hint` = (lo, hi) may under- or over-state the number of items delivered — a safe iterator
/// may lie, also with an "exact" upper bound.
struct GenIter<E: Elem> {
    left: usize,
    hint: usize,
    hi: Hi,
    _p: std::marker::PhantomData<E>,
}
impl<E: Elem> Iterator for GenIter<E> {
    type Item = E;
    fn next(&mut self) -> Option<E> {
        tick();
        if self.left > 0 {
            self.left -= 1;
            Some(E::new())
        } else {
            None
        }
    }
    fn size_hint(&self) -> (usize, Option<usize>) {
        tick();
        (self.hint, self.hi.of(self.hint))
    }
}
impl<E: Elem> Drop for GenIter<E> {
    fn drop(&mut self) {
        tick();
    }
}

/// run `f` with fault injection armed, one `catch_unwind`
fn armed<R>(f: impl FnOnce() -> R) -> Result<R, ()> {
    mon(|m| m.armed = true);
    let r = catch_unwind(AssertUnwindSafe(f));
    mon(|m| m.armed = false);
    r.map_err(|_| ())
}

// ---------------------------------------------------------------------------------------------
// operations

#[derive(Clone, Debug, PartialEq)]
enum Op {
    Push,
    TryPush,
    Pop,
    /// `pop_if(|_| answer)`, the predicate being a user callback
    PopIf(bool),
    /// `FromIterator::from_iter` into a temporary vector that is then dropped
    FromIter(usize, usize, Hi),
    Insert(usize),
    TryInsert(usize),
    Remove(usize),
    SwapRemove(usize),
    Truncate(usize),
    Clear,
    Resize(usize),
    ResizeWith(usize),
    ExtSlice(usize),
    ExtWithin(usize, usize),
    ExtIter(usize, usize, Hi),
    Clone,
    Append(usize),
    SplitOff(usize),
    Drain(usize, usize, String),
    IntoIter(String),
    Reserve(usize),
    ShrinkFit,
    Roundtrip,
    Drop,
}

impl Op {
    fn line(&self) -> String {
        match self {
            Op::Push => "push".into(),
            Op::TryPush => "try_push".into(),
            Op::Pop => "pop".into(),
            Op::PopIf(b) => format!("pop_if {}", if *b { "t" } else { "f" }),
            Op::FromIter(h, n, hi) => format!("from_iter {h} {n} {}", hi.token()),
            Op::Insert(i) => format!("insert {i}"),
            Op::TryInsert(i) => format!("try_insert {i}"),
            Op::Remove(i) => format!("remove {i}"),
            Op::SwapRemove(i) => format!("swap_remove {i}"),
            Op::Truncate(n) => format!("truncate {n}"),
            Op::Clear => "clear".into(),
            Op::Resize(n) => format!("resize {n}"),
            Op::ResizeWith(n) => format!("resize_with {n}"),
            Op::ExtSlice(n) => format!("ext_slice {n}"),
            Op::ExtWithin(a, b) => format!("ext_within {a} {b}"),
            Op::ExtIter(h, n, hi) => format!("ext_iter {h} {n} {}", hi.token()),
            Op::Clone => "clone".into(),
            Op::Append(n) => format!("append {n}"),
            Op::SplitOff(i) => format!("split_off {i}"),
            Op::Drain(a, b, s) => format!("drain {a} {b} {s}"),
            Op::IntoIter(s) => format!("into_iter {s}"),
            Op::Reserve(n) => format!("reserve {n}"),
            Op::ShrinkFit => "shrink_fit".into(),
            Op::Roundtrip => "roundtrip".into(),
            Op::Drop => "drop".into(),
        }
    }

    fn parse(line: &str) -> Option<Op> {
        let w: Vec<&str> = line.split_whitespace().collect();
        let n = |i: usize| -> Option<usize> { w.get(i)?.parse().ok() };
        Some(match *w.first()? {
            "push" => Op::Push,
            "try_push" => Op::TryPush,
            "pop" => Op::Pop,
            "pop_if" => Op::PopIf(*w.get(1)? == "t"),
            "from_iter" => Op::FromIter(n(1)?, n(2)?, w.get(3).map_or(Some(Hi::None), |t| Hi::parse(t))?),
            "insert" => Op::Insert(n(1)?),
            "try_insert" => Op::TryInsert(n(1)?),
            "remove" => Op::Remove(n(1)?),
            "swap_remove" => Op::SwapRemove(n(1)?),
            "truncate" => Op::Truncate(n(1)?),
            "clear" => Op::Clear,
            "resize" => Op::Resize(n(1)?),
            "resize_with" => Op::ResizeWith(n(1)?),
            "ext_slice" => Op::ExtSlice(n(1)?),
            "ext_within" => Op::ExtWithin(n(1)?, n(2)?),
            "ext_iter" => Op::ExtIter(n(1)?, n(2)?, w.get(3).map_or(Some(Hi::None), |t| Hi::parse(t))?),
            "clone" => Op::Clone,
            "append" => Op::Append(n(1)?),
            "split_off" => Op::SplitOff(n(1)?),
            "drain" => Op::Drain(n(1)?, n(2)?, w.get(3)?.to_string()),
            "into_iter" => Op::IntoIter(w.get(1)?.to_string()),
            "reserve" => Op::Reserve(n(1)?),
            "shrink_fit" => Op::ShrinkFit,
            "roundtrip" => Op::Roundtrip,
            "drop" => Op::Drop,
            _ => return None,
        })
    }

    /// statistics keys: which pulls / terminal an iterator script uses, which shape a scripted
    /// size hint has
    fn modes(&self) -> Vec<String> {
        match self {
            Op::Drain(_, _, sc) | Op::IntoIter(sc) => {
                let which = if matches!(self, Op::Drain(..)) { "drain" } else { "into_iter" };
                let (pulls, fin) = parse_script(sc);
                let mut v: Vec<String> = pulls
                    .iter()
                    .map(|p| {
                        let l = match p {
                            Pull::Next => "next",
                            Pull::Back => "next_back",
                            Pull::Nth(_) => "nth",
                            Pull::NthBack(_) => "nth_back",
                            Pull::Skip(_) => "skip",
                            Pull::StepBy(_) => "step_by",
                            Pull::Rev => "rev",
                        };
                        format!("{which} pull {l}")
                    })
                    .collect();
                v.sort();
                v.dedup();
                let f = match fin {
                    'l' => "forget",
                    'L' => "last",
                    'C' => "count",
                    'F' => "fold",
                    'R' => "rfold",
                    _ => "drop",
                };
                v.push(format!("{which} then {f}"));
                v
            }
            Op::ExtIter(lo, n, hi) | Op::FromIter(lo, n, hi) => {
                let which = if matches!(self, Op::ExtIter(..)) { "ext_iter" } else { "from_iter" };
                let shape = match hi {
                    Hi::None => "hi=None",
                    Hi::Exact => "hi=lo",
                    Hi::Plus(_) => "hi>lo",
                };
                let rel = |a: usize, b: usize| match a.cmp(&b) {
                    std::cmp::Ordering::Less => "below",
                    std::cmp::Ordering::Equal => "equal",
                    std::cmp::Ordering::Greater => "above",
                };
                let mut v = vec![format!("{which} {shape} delivered {} lo", rel(*n, *lo))];
                if let Some(h) = hi.of(*lo) {
                    v.push(format!("{which} {shape} delivered {} hi", rel(*n, h)));
                }
                v
            }
            _ => vec![],
        }
    }

    fn leaks(&self) -> bool {
        match self {
            Op::Drain(_, _, s) | Op::IntoIter(s) => s.ends_with('l'),
            _ => false,
        }
    }
}

#[derive(Debug)]
enum Ret {
    Ok,
    None,
    Some(u64),
    ErrFull(u64),
    ErrOob(u64),
    Panic,
    Na,
}

fn unit(r: Result<(), ()>) -> Ret {
    match r {
        Ok(()) => Ret::Ok,
        Err(()) => Ret::Panic,
    }
}

fn some<E: Elem>(r: Result<E, ()>) -> Ret {
    match r {
        Ok(e) => Ret::Some(give(e)),
        Err(()) => Ret::Panic,
    }
}

/// One pull of an iterator script.
#[derive(Clone, Copy, Debug, PartialEq)]
enum Pull {
    /// `n` — `next()`
    Next,
    /// `b` — `next_back()`
    Back,
    /// `N<k>` — `nth(k)`
    Nth(usize),
    /// `M<k>` — `nth_back(k)`
    NthBack(usize),
    /// `s<k>` — `by_ref().skip(k).next()`
    Skip(usize),
    /// `t<k>` — two pulls of `by_ref().step_by(k)`
    StepBy(usize),
    /// `r` — `by_ref().rev().next()`
    Rev,
}

/// Script = pulls followed by one terminal: `d` drop, `l` leak (`mem::forget`), `L` `last()`,
/// `C` `count()`, `F` `fold` with a user closure, `R` `rfold` with a user closure.
fn parse_script(script: &str) -> (Vec<Pull>, char) {
    let cs: Vec<char> = script.chars().collect();
    let (body, fin) = match cs.last() {
        Some(c) if "dlLCFR".contains(*c) => (&cs[..cs.len() - 1], *c),
        _ => (&cs[..], 'd'),
    };
    let mut pulls = vec![];
    let mut i = 0;
    while i < body.len() {
        let c = body[i];
        i += 1;
        let mut k = 0usize;
        let mut digits = false;
        if "NMst".contains(c) {
            while i < body.len() && body[i].is_ascii_digit() {
                k = k * 10 + body[i] as usize - '0' as usize;
                i += 1;
                digits = true;
            }
        }
        let _ = digits;
        pulls.push(match c {
            'n' => Pull::Next,
            'b' => Pull::Back,
            'r' => Pull::Rev,
            'N' => Pull::Nth(k),
            'M' => Pull::NthBack(k),
            's' => Pull::Skip(k),
            't' => Pull::StepBy(k.max(1)),
            _ => continue,
        });
    }
    (pulls, fin)
}

fn violation(msg: String) {
    mon(|m| m.violations.push(msg));
}

/// `size_hint()` / `len()` contract of an exact-size iterator that still holds `expect` elements.
fn contract<I: ExactSizeIterator>(it: &I, expect: usize, whence: &str) {
    let (lo, hi) = it.size_hint();
    let n = it.len();
    if lo != expect || hi != Some(expect) || n != expect {
        violation(format!(
            "iterator contract {whence}: size_hint() = ({lo}, {hi:?}), len() = {n}, but {expect} element(s) remain"
        ));
    }
}

fn pulled<E: Elem>(r: Option<E>, want: bool, what: &str) {
    if r.is_some() != want {
        violation(format!(
            "iterator contract: {what} returned {} but the iterator was {}",
            if r.is_some() { "Some" } else { "None" },
            if want { "long enough" } else { "too short" }
        ));
    }
    if let Some(e) = r {
        give(e);
    }
}

/// Script shared by `Drain` and `IntoIter`.  The iterator is taken by value: a panic anywhere
/// drops it by unwinding.  `remain` = the number of elements it starts with; `probe` is the Clone
/// probe, instantiated where the concrete iterator type is known.
fn run_iter<E: Elem, I>(mut it: I, mut remain: usize, script: &str, probe: impl Fn(&I) -> bool)
where
    I: DoubleEndedIterator<Item = E> + ExactSizeIterator,
{
    let (pulls, fin) = parse_script(script);
    for p in pulls {
        contract(&it, remain, "before a pull");
        match p {
            Pull::Next => {
                let want = remain > 0;
                remain = remain.saturating_sub(1);
                pulled(it.next(), want, "next()");
            }
            Pull::Back => {
                let want = remain > 0;
                remain = remain.saturating_sub(1);
                pulled(it.next_back(), want, "next_back()");
            }
            Pull::Rev => {
                let want = remain > 0;
                remain = remain.saturating_sub(1);
                pulled(it.by_ref().rev().next(), want, "rev().next()");
            }
            Pull::Nth(k) => {
                let want = remain > k;
                remain = remain.saturating_sub(k + 1);
                pulled(it.nth(k), want, "nth(k)");
            }
            Pull::NthBack(k) => {
                let want = remain > k;
                remain = remain.saturating_sub(k + 1);
                pulled(it.nth_back(k), want, "nth_back(k)");
            }
            Pull::Skip(k) => {
                let want = remain > k;
                remain = remain.saturating_sub(k + 1);
                pulled(it.by_ref().skip(k).next(), want, "skip(k).next()");
            }
            Pull::StepBy(k) => {
                let mut st = it.by_ref().step_by(k);
                let want = remain > 0;
                remain = remain.saturating_sub(1);
                pulled(st.next(), want, "step_by(k).next()");
                let want = remain > k - 1;
                remain = remain.saturating_sub(k);
                pulled(st.next(), want, "step_by(k).next() (second)");
            }
        }
    }
    contract(&it, remain, "after the pulls");
    if probe(&it) {
        mon(|m| m.clone_probes += 1);
    }
    match fin {
        'l' => std::mem::forget(it),
        'L' => {
            let r = it.last();
            pulled(r, remain > 0, "last()");
        }
        'C' => {
            let c = it.count();
            if c != remain {
                violation(format!("iterator contract: count() = {c} but {remain} element(s) remained"));
            }
        }
        'F' => {
            let c = it.fold(0usize, |c, x| {
                tick();
                give(x);
                c + 1
            });
            if c != remain {
                violation(format!("iterator contract: fold visited {c} of {remain} element(s)"));
            }
        }
        'R' => {
            let c = it.rfold(0usize, |c, x| {
                tick();
                give(x);
                c + 1
            });
            if c != remain {
                violation(format!("iterator contract: rfold visited {c} of {remain} element(s)"));
            }
        }
        _ => drop(it),
    }
}

/// Clone probe by autoref specialisation: `(&CloneProbe(&it)).probe()` clones and drops `it` if
/// its type is `Clone` (the element registry sees the clones) and is a no-op otherwise — it
/// compiles either way.
#[allow(dead_code)]
struct CloneProbe<'a, T>(&'a T);
#[allow(dead_code)]
trait ProbeClone {
    fn probe(&self) -> bool;
}
impl<T: Clone> ProbeClone for CloneProbe<'_, T> {
    fn probe(&self) -> bool {
        let c = self.0.clone();
        drop(c);
        true
    }
}
trait ProbeNoClone {
    fn probe(&self) -> bool;
}
impl<T> ProbeNoClone for &CloneProbe<'_, T> {
    fn probe(&self) -> bool {
        false
    }
}

/// `from_iter` builds a temporary: the state monitors run on it before it is dropped.
fn check_temp<C: Cont>(t: &Option<C>) {
    for v in state_violations(t) {
        violation(format!("from_iter result: {v}"));
    }
}

trait Cont: Sized {
    /// elements are identity-tracked and the history is compared with the Lean model
    const TRACKED: bool;
    fn config() -> String;
    fn fresh() -> Self;
    fn len_(&self) -> usize;
    fn cap_(&self) -> usize;
    fn ids_(&self) -> Vec<Option<u64>>;
    fn apply(slot: &mut Option<Self>, op: &Op) -> Ret;
}

/// operations whose spelling is identical on both vector kinds
macro_rules! common_ops {
    ($v:ident, $op:ident, $E:ty) => {
        match $op {
            Op::Push => {
                let x = <$E>::new();
                Some(unit(armed(|| $v.push(x))))
            }
            Op::Pop => Some(match armed(|| $v.pop()) {
                Ok(None) => Ret::None,
                Ok(Some(e)) => Ret::Some(give(e)),
                Err(()) => Ret::Panic,
            }),
            Op::Insert(i) => {
                let x = <$E>::new();
                Some(unit(armed(|| $v.insert(*i, x))))
            }
            Op::Remove(i) => Some(some(armed(|| $v.remove(*i)))),
            Op::SwapRemove(i) => Some(some(armed(|| $v.swap_remove(*i)))),
            Op::Truncate(n) => Some(unit(armed(|| $v.truncate(*n)))),
            Op::Clear => Some(unit(armed(|| $v.clear()))),
            Op::Resize(n) => {
                let x = <$E>::new();
                Some(unit(armed(|| $v.resize(*n, x))))
            }
            Op::ExtSlice(n) => {
                let srcs: Vec<$E> = (0..*n).map(|_| <$E>::new()).collect();
                let r = armed(|| $v.extend_from_slice(&srcs));
                drop(srcs);
                Some(unit(r))
            }
            Op::ExtWithin(a, b) => Some(unit(armed(|| $v.extend_from_within(*a..*b)))),
            Op::ExtIter(h, n, hi) => Some(unit(armed(|| {
                $v.extend(GenIterable::<$E>::new(*h, *n, *hi))
            }))),
            Op::SplitOff(i) => Some(unit(armed(|| {
                let o = $v.split_off(*i);
                drop(o);
            }))),
            Op::Drain(a, b, script) => Some(unit(armed(|| {
                let d = $v.drain(*a..*b);
                run_iter(d, *b - *a, script, |it| (&CloneProbe(it)).probe());
            }))),
            _ => None,
        }
    };
}

impl<E: Elem, const CAP: usize> Cont for InlineVec<E, CAP> {
    const TRACKED: bool = E::TRACKED;
    fn config() -> String {
        format!("ivec {CAP}")
    }
    fn fresh() -> Self {
        InlineVec::new()
    }
    fn len_(&self) -> usize {
        self.len()
    }
    fn cap_(&self) -> usize {
        self.capacity()
    }
    fn ids_(&self) -> Vec<Option<u64>> {
        // never read beyond the capacity, whatever the length claims
        let n = self.len().min(self.capacity());
        unsafe { std::slice::from_raw_parts(self.as_ptr(), n) }.iter().map(|e| e.raw()).collect()
    }
    fn apply(slot: &mut Option<Self>, op: &Op) -> Ret {
        let Some(v) = slot.as_mut() else { return Ret::Na };
        if let Some(r) = common_ops!(v, op, E) {
            return r;
        }
        match op {
            Op::TryPush => {
                let x = E::new();
                match armed(|| v.try_push(x)) {
                    Ok(Ok(())) => Ret::Ok,
                    Ok(Err(x)) => Ret::ErrFull(give(x)),
                    Err(()) => Ret::Panic,
                }
            }
            Op::TryInsert(i) => {
                let x = E::new();
                match armed(|| v.try_insert(*i, x)) {
                    Ok(Ok(())) => Ret::Ok,
                    Ok(Err(e)) => {
                        let full = e.kind == hipstr::vecs::inline::InsertErrorKind::Full;
                        let id = give(e.value);
                        if full {
                            Ret::ErrFull(id)
                        } else {
                            Ret::ErrOob(id)
                        }
                    }
                    Err(()) => Ret::Panic,
                }
            }
            Op::ResizeWith(n) => unit(armed(|| v.resize_with(*n, || E::gen()))),
            Op::PopIf(ans) => match armed(|| {
                v.pop_if(|_| {
                    tick();
                    *ans
                })
            }) {
                Ok(None) => Ret::None,
                Ok(Some(e)) => Ret::Some(give(e)),
                Err(()) => Ret::Panic,
            },
            Op::FromIter(h, n, hi) => unit(armed(|| {
                let t = <InlineVec<E, CAP> as FromIterator<E>>::from_iter(GenIterable::<E>::new(*h, *n, *hi));
                check_temp(&Some(t));
            })),
            Op::Clone => unit(armed(|| {
                let c = v.clone();
                drop(c);
            })),
            Op::Append(n) => {
                if *n > CAP {
                    panic!("harness: append {n} does not fit the source InlineVec<_, {CAP}>");
                }
                let mut o = InlineVec::<E, CAP>::new();
                for _ in 0..*n {
                    o.push(E::new());
                }
                let r = armed(|| v.append(&mut o));
                drop(o);
                unit(r)
            }
            Op::IntoIter(script) => {
                let v = slot.take().unwrap();
                let r = armed(move || {
                    let n = v.len();
                    let it = v.into_iter();
                    run_iter(it, n, script, |it| (&CloneProbe(it)).probe());
                });
                *slot = Some(InlineVec::new());
                unit(r)
            }
            Op::Roundtrip => {
                let v = slot.take().unwrap();
                let r = armed(move || {
                    let t: thin::ThinVec<E, Reserved> = v.into();
                    let i: InlineVec<E, CAP> = t.into();
                    i
                });
                match r {
                    Ok(i) => {
                        *slot = Some(i);
                        Ret::Ok
                    }
                    Err(()) => {
                        *slot = Some(InlineVec::new());
                        Ret::Panic
                    }
                }
            }
            Op::Drop => {
                let v = slot.take().unwrap();
                unit(armed(move || drop(v)))
            }
            Op::Reserve(_) | Op::ShrinkFit => Ret::Na,
            _ => unreachable!(),
        }
    }
}

trait PrefixKind: Default + 'static {
    const NAME: &'static str;
}
impl PrefixKind for Reserved {
    const NAME: &'static str = "reserved";
}
impl PrefixKind for Pfx {
    const NAME: &'static str = "tracked";
}

const RT_CAP: usize = 16;

impl<E: Elem, P: PrefixKind> Cont for thin::ThinVec<E, P> {
    const TRACKED: bool = E::TRACKED;
    fn config() -> String {
        if E::TRACKED {
            format!("tvec {} {}", E::SIZE, P::NAME)
        } else {
            format!("tvec-plain {} {}", E::NAME, P::NAME)
        }
    }
    fn fresh() -> Self {
        thin::ThinVec::new()
    }
    fn len_(&self) -> usize {
        self.len()
    }
    fn cap_(&self) -> usize {
        self.capacity()
    }
    fn ids_(&self) -> Vec<Option<u64>> {
        // never read beyond the capacity, whatever the length claims
        let n = self.len().min(self.capacity());
        unsafe { std::slice::from_raw_parts(self.as_ptr(), n) }.iter().map(|e| e.raw()).collect()
    }
    fn apply(slot: &mut Option<Self>, op: &Op) -> Ret {
        let Some(v) = slot.as_mut() else { return Ret::Na };
        if let Some(r) = common_ops!(v, op, E) {
            return r;
        }
        match op {
            Op::TryPush | Op::TryInsert(_) | Op::ResizeWith(_) | Op::IntoIter(_) | Op::PopIf(_) => {
                Ret::Na
            }
            Op::FromIter(h, n, hi) => unit(armed(|| {
                let t = <thin::ThinVec<E, P> as FromIterator<E>>::from_iter(GenIterable::<E>::new(*h, *n, *hi));
                check_temp(&Some(t));
            })),
            Op::Clone => unit(armed(|| {
                let c: thin::ThinVec<E, P> = thin::ThinVec::from(v.as_slice());
                drop(c);
            })),
            Op::Append(n) => {
                let mut o: thin::ThinVec<E, Reserved> = thin::ThinVec::with_capacity(*n);
                for _ in 0..*n {
                    o.push(E::new());
                }
                let r = armed(|| v.append(&mut o));
                drop(o);
                unit(r)
            }
            Op::Reserve(n) => unit(armed(|| v.reserve(*n))),
            Op::ShrinkFit => unit(armed(|| v.shrink_to_fit())),
            Op::Roundtrip => {
                if v.len() > RT_CAP {
                    return Ret::Na;
                }
                let v = slot.take().unwrap();
                let r = armed(move || {
                    let i: InlineVec<E, RT_CAP> = v.into();
                    let t: thin::ThinVec<E, P> = i.into();
                    t
                });
                match r {
                    Ok(t) => {
                        *slot = Some(t);
                        Ret::Ok
                    }
                    Err(()) => {
                        *slot = Some(thin::ThinVec::new());
                        Ret::Panic
                    }
                }
            }
            Op::Drop => {
                let v = slot.take().unwrap();
                unit(armed(move || drop(v)))
            }
            _ => unreachable!(),
        }
    }
}

// ---------------------------------------------------------------------------------------------
// talking to the Lean driver (batched: all lines of a case are written, then all answers read)

struct Driver {
    child: std::process::Child,
    stdin: std::process::ChildStdin,
    stdout: std::io::BufReader<std::process::ChildStdout>,
}

impl Driver {
    fn spawn(path: &str) -> std::io::Result<Self> {
        use std::process::{Command, Stdio};
        let mut child = Command::new(path)
            .stdin(Stdio::piped())
            .stdout(Stdio::piped())
            .stderr(Stdio::inherit())
            .spawn()?;
        let stdin = child.stdin.take().unwrap();
        let stdout = std::io::BufReader::new(child.stdout.take().unwrap());
        Ok(Driver { child, stdin, stdout })
    }
    fn batch(&mut self, lines: &[String]) -> std::io::Result<Vec<String>> {
        use std::io::{BufRead, Write};
        let mut buf = String::new();
        for l in lines {
            buf.push_str(l);
            buf.push('\n');
        }
        self.stdin.write_all(buf.as_bytes())?;
        self.stdin.flush()?;
        let mut out = Vec::with_capacity(lines.len());
        for _ in lines {
            let mut s = String::new();
            if self.stdout.read_line(&mut s)? == 0 {
                return Err(std::io::Error::new(
                    std::io::ErrorKind::UnexpectedEof,
                    "lean driver closed its output",
                ));
            }
            while s.ends_with('\n') || s.ends_with('\r') {
                s.pop();
            }
            out.push(s);
        }
        Ok(out)
    }
}

impl Drop for Driver {
    fn drop(&mut self) {
        let _ = self.child.kill();
        let _ = self.child.wait();
    }
}

// ---------------------------------------------------------------------------------------------
// one case = config + history of (fault, op)

type Hist = Vec<(Option<u64>, Op)>;

#[derive(Default)]
struct Canon(std::collections::HashMap<u64, usize>);
impl Canon {
    fn id(&mut self, raw: u64) -> usize {
        let n = self.0.len();
        *self.0.entry(raw).or_insert(n)
    }
}

fn impl_line(
    c: &mut Canon,
    ret: &Ret,
    len: usize,
    cap: usize,
    ids: &[Option<u64>],
    calls: u64,
    evs: &[Ev],
) -> String {
    let r = match ret {
        Ret::Ok => "ok".to_string(),
        Ret::None => "none".to_string(),
        Ret::Some(a) => format!("some:{}", c.id(*a)),
        Ret::ErrFull(a) => format!("err:full:{}", c.id(*a)),
        Ret::ErrOob(a) => format!("err:oob:{}", c.id(*a)),
        Ret::Panic => "panic".to_string(),
        Ret::Na => "na".to_string(),
    };
    let es: Vec<String> = evs
        .iter()
        .map(|e| match e {
            Ev::Mk(a) => format!("mk {}", c.id(*a)),
            Ev::Cl(a, b) => {
                let x = c.id(*a);
                format!("cl {}>{}", x, c.id(*b))
            }
            Ev::Dr(a) => format!("dr {}", c.id(*a)),
            Ev::Rt(a) => format!("rt {}", c.id(*a)),
        })
        .collect();
    let is: Vec<String> = ids
        .iter()
        .map(|i| match i {
            Some(a) => c.id(*a).to_string(),
            None => "U".to_string(),
        })
        .collect();
    format!(
        "{r} | len={len} | cap={cap} | ids={} | calls={calls} | trace: {}",
        if is.is_empty() { "-".to_string() } else { is.join(",") },
        if es.is_empty() { "-".to_string() } else { es.join(" ; ") }
    )
}

/// model line without the buffer events (the harness has no allocator hook)
fn strip_model(line: &str) -> String {
    match line.split_once(" | trace: ") {
        Some((head, tr)) => {
            let es: Vec<&str> = tr
                .split(" ; ")
                .filter(|e| *e != "-" && !e.starts_with("alloc ") && !e.starts_with("free "))
                .collect();
            format!("{head} | trace: {}", if es.is_empty() { "-".to_string() } else { es.join(" ; ") })
        }
        None => line.to_string(),
    }
}

#[derive(Clone)]
struct Bad {
    kind: &'static str,
    /// index of the line (0 = configuration) at which it was observed
    at: usize,
    expected: String,
    observed: String,
    note: Option<String>,
}

#[derive(Clone)]
struct CaseOut {
    /// callback invocations of every executed operation (implementation side)
    calls: Vec<u64>,
    panicked: bool,
    /// at most one entry of kind "monitor" (the run stops there) and one "impl-vs-model"
    /// (the first differing line; the run continues so that the monitors see the rest)
    bads: Vec<Bad>,
    clone_probes: u64,
}

impl CaseOut {
    fn has(&self, kind: &str) -> bool {
        self.bads.iter().any(|b| b.kind == kind)
    }
}

const LAYOUT_MSG: &str =
    "layout mismatch: realloc/dealloc called with a layout (size, align) other than the one the block was allocated with";
const RED_MSG: &str = "write beyond the end of a heap allocation (red zone damaged)";

/// the two lines differ only in the order of their drop events
fn order_only(model: &str, imp: &str) -> bool {
    let split = |l: &str| -> Option<(String, Vec<String>)> {
        let (h, t) = l.split_once(" | trace: ")?;
        let mut e: Vec<String> = t.split(" ; ").map(|x| x.to_string()).collect();
        e.sort();
        Some((h.to_string(), e))
    };
    match (split(model), split(imp)) {
        (Some(a), Some(b)) => a == b && model != imp,
        _ => false,
    }
}

/// Property monitors on the implementation's state after an operation (normal return or caught
/// panic): `len <= capacity`; every slot below `len` holds a live tracked element, each once.
fn state_violations<C: Cont>(slot: &Option<C>) -> Vec<String> {
    let mut v = vec![];
    let Some(c) = slot else { return v };
    let (len, cap) = (c.len_(), c.cap_());
    if len > cap {
        v.push(format!("len {len} exceeds capacity {cap}"));
    }
    if C::TRACKED {
        let ids = c.ids_();
        let mut seen = std::collections::HashSet::new();
        for (i, id) in ids.iter().enumerate() {
            match id {
                None => v.push(format!("slot {i} below len {len} is uninitialised")),
                Some(id) => {
                    let st = mon(|m| m.state.get(*id as usize).copied().unwrap_or(0));
                    if st != 1 {
                        v.push(format!(
                            "slot {i} below len {len} holds the dead (dropped/returned) id #{id}"
                        ));
                    }
                    if !seen.insert(*id) {
                        v.push(format!("id #{id} occurs twice below len {len}"));
                    }
                }
            }
        }
    }
    v
}

fn run_case<C: Cont>(drv: &mut Driver, hist: &Hist) -> Result<CaseOut, String> {
    // model side: everything in one batch (tracked elements only)
    let mut model = Vec::new();
    if C::TRACKED {
        let mut lines = vec![C::config()];
        for (k, op) in hist {
            if let Some(k) = k {
                lines.push(format!("panic_at {k}"));
            }
            lines.push(op.line());
        }
        let answers = drv.batch(&lines).map_err(|e| e.to_string())?;
        for (l, a) in lines.iter().zip(answers.iter()) {
            if l.starts_with("panic_at") {
                if a != "ok" {
                    return Err(format!("driver answered `{a}` to `{l}`"));
                }
            } else {
                if a.starts_with("error") {
                    return Err(format!("driver answered `{a}` to `{l}`"));
                }
                model.push(strip_model(a));
            }
        }
    }

    // implementation side
    reset_monitor();
    take_red_hits();
    take_layout_hits();
    let mut canon = Canon::default();
    let mut slot: Option<C> = Some(C::fresh());
    let mut out = CaseOut { calls: vec![], panicked: false, bads: vec![], clone_probes: 0 };
    let obs = |slot: &Option<C>| match slot {
        Some(v) => (v.len_(), v.cap_(), v.ids_()),
        None => (0, 0, vec![]),
    };
    let monitor = |out: &mut CaseOut, at: usize, viol: Vec<String>| {
        out.bads.push(Bad {
            kind: "monitor",
            at,
            expected: "no property violation on the implementation".into(),
            observed: viol.join("; "),
            note: None,
        });
    };
    let mismatch = |out: &mut CaseOut, at: usize, model: &str, line: String| {
        if !out.has("impl-vs-model") {
            let note = order_only(model, &line)
                .then(|| "only the order of the drop events differs".to_string());
            out.bads.push(Bad {
                kind: "impl-vs-model",
                at,
                expected: model.to_string(),
                observed: line,
                note,
            });
        }
    };
    {
        let (len, cap, ids) = obs(&slot);
        let evs = mon(|m| std::mem::take(&mut m.events));
        let first = impl_line(&mut canon, &Ret::Ok, len, cap, &ids, 0, &evs);
        if C::TRACKED && first != model[0] {
            mismatch(&mut out, 0, &model[0], first);
        }
        let viol = state_violations(&slot);
        if !viol.is_empty() {
            monitor(&mut out, 0, viol);
        }
    }
    let mut dropped_cap = 0;
    for (i, (k, op)) in hist.iter().enumerate() {
        if out.has("monitor") {
            break;
        }
        mon(|m| {
            m.panic_at = *k;
            m.calls = 0;
            m.events.clear();
        });
        if let Some(v) = &slot {
            dropped_cap = v.cap_();
        }
        let ret = C::apply(&mut slot, op);
        mon(|m| m.panic_at = None);
        if matches!(ret, Ret::Panic) {
            out.panicked = true;
        }
        let (len, mut cap, ids) = obs(&slot);
        if slot.is_none() {
            cap = dropped_cap; // the model keeps the dead container's slot array
        }
        let (evs, calls, mut viol) =
            mon(|m| (std::mem::take(&mut m.events), m.calls, std::mem::take(&mut m.violations)));
        out.clone_probes += mon(|m| std::mem::take(&mut m.clone_probes));
        if take_red_hits() > 0 {
            viol.push(RED_MSG.into());
        }
        if take_layout_hits() > 0 {
            viol.push(LAYOUT_MSG.into());
        }
        viol.extend(state_violations(&slot));
        out.calls.push(calls);
        let line = impl_line(&mut canon, &ret, len, cap, &ids, calls, &evs);
        if C::TRACKED && line != model[i + 1] {
            mismatch(&mut out, i + 1, &model[i + 1], line);
        }
        if !viol.is_empty() {
            monitor(&mut out, i + 1, viol);
        }
    }
    // C14 exactly-once on the implementation side: no leak op, no injected fault, container
    // dropped: every id ever created (elements, prefixes) has been dropped or returned
    if !out.has("monitor")
        && slot.is_none()
        && !hist.iter().any(|(k, op)| k.is_some() || op.leaks())
    {
        let live: Vec<usize> =
            mon(|m| m.state.iter().enumerate().filter(|(_, s)| **s == 1).map(|(i, _)| i).collect());
        if !live.is_empty() {
            out.bads.push(Bad {
                kind: "monitor",
                at: hist.len(),
                expected: "every element and prefix value ever created has been dropped or returned once the vector is dropped (no leak op, no fault)".into(),
                observed: format!("never dropped: ids {live:?}"),
                note: None,
            });
        }
    }
    drop(slot);
    let mut viol = mon(|m| std::mem::take(&mut m.violations));
    if take_red_hits() > 0 {
        viol.push(RED_MSG.into());
    }
    if take_layout_hits() > 0 {
        viol.push(LAYOUT_MSG.into());
    }
    if !out.has("monitor") && !viol.is_empty() {
        monitor(&mut out, hist.len(), viol);
    }
    Ok(out)
}

// ---------------------------------------------------------------------------------------------
// configurations

#[derive(Clone, Copy, Debug, PartialEq)]
enum Cfg {
    I(usize),
    T(usize, bool),
    /// ThinVec with a drop-tracked prefix and plain elements: 0 = u8, 1 = u64, 2 = ()
    /// (implementation-side monitors only; the Lean model has tracked elements)
    P(usize),
}

impl Cfg {
    fn name(&self) -> String {
        match self {
            Cfg::I(c) => format!("ivec {c}"),
            Cfg::T(e, p) => format!("tvec {e} {}", if *p { "tracked" } else { "reserved" }),
            Cfg::P(k) => format!("tvec-plain {} tracked", ["u8", "u64", "unit"][*k]),
        }
    }
    fn parse(s: &str) -> Option<Cfg> {
        let w: Vec<&str> = s.split_whitespace().collect();
        match w.as_slice() {
            ["ivec", c] => Some(Cfg::I(c.parse().ok()?)),
            ["tvec", e, "tracked"] => Some(Cfg::T(e.parse().ok()?, true)),
            ["tvec", e, "reserved"] => Some(Cfg::T(e.parse().ok()?, false)),
            ["tvec-plain", "u8", "tracked"] => Some(Cfg::P(0)),
            ["tvec-plain", "u64", "tracked"] => Some(Cfg::P(1)),
            ["tvec-plain", "unit", "tracked"] => Some(Cfg::P(2)),
            _ => None,
        }
    }
    fn is_thin(&self) -> bool {
        matches!(self, Cfg::T(..) | Cfg::P(_))
    }
    /// capacity of a fresh container
    fn cap0(&self) -> usize {
        match self {
            Cfg::I(c) => *c,
            Cfg::T(e, _) => match *e {
                64.. => 1,
                32.. => 3,
                n => 32 / n,
            },
            // only a scale for the operation arguments (u8: 32, u64: 4, (): usize::MAX)
            Cfg::P(_) => 4,
        }
    }
}

fn run_cfg(cfg: Cfg, drv: &mut Driver, hist: &Hist) -> Result<CaseOut, String> {
    match cfg {
        Cfg::I(1) => run_case::<InlineVec<El8, 1>>(drv, hist),
        Cfg::I(2) => run_case::<InlineVec<El8, 2>>(drv, hist),
        Cfg::I(3) => run_case::<InlineVec<El8, 3>>(drv, hist),
        Cfg::I(4) => run_case::<InlineVec<El8, 4>>(drv, hist),
        Cfg::I(6) => run_case::<InlineVec<El16, 6>>(drv, hist),
        Cfg::T(4, false) => run_case::<thin::ThinVec<El4, Reserved>>(drv, hist),
        Cfg::T(4, true) => run_case::<thin::ThinVec<El4, Pfx>>(drv, hist),
        Cfg::T(8, false) => run_case::<thin::ThinVec<El8, Reserved>>(drv, hist),
        Cfg::T(8, true) => run_case::<thin::ThinVec<El8, Pfx>>(drv, hist),
        Cfg::T(16, false) => run_case::<thin::ThinVec<El16, Reserved>>(drv, hist),
        Cfg::T(16, true) => run_case::<thin::ThinVec<El16, Pfx>>(drv, hist),
        Cfg::T(32, false) => run_case::<thin::ThinVec<El32, Reserved>>(drv, hist),
        Cfg::T(32, true) => run_case::<thin::ThinVec<El32, Pfx>>(drv, hist),
        Cfg::T(64, false) => run_case::<thin::ThinVec<El64, Reserved>>(drv, hist),
        Cfg::T(64, true) => run_case::<thin::ThinVec<El64, Pfx>>(drv, hist),
        Cfg::P(0) => run_case::<thin::ThinVec<u8, Pfx>>(drv, hist),
        Cfg::P(1) => run_case::<thin::ThinVec<u64, Pfx>>(drv, hist),
        Cfg::P(2) => run_case::<thin::ThinVec<(), Pfx>>(drv, hist),
        _ => Err(format!("unsupported configuration {cfg:?}")),
    }
}

// ---------------------------------------------------------------------------------------------
// generation

/// operation instances used by the exhaustive depth-3 enumeration (arguments around `fill`)
fn alphabet(cfg: Cfg, fill: usize) -> Vec<Op> {
    let cap = cfg.cap0();
    let f = fill;
    let mut a = vec![
        Op::Push,
        Op::Pop,
        Op::Insert(f.min(1)),
        Op::Remove(0),
        Op::SwapRemove(0),
        Op::Truncate(1),
        Op::Clear,
        Op::Resize(f + 2),
        Op::Resize(1),
        Op::ExtSlice(2),
        Op::ExtWithin(0, f.max(1)),
        Op::ExtIter(1, 2, Hi::None),
        Op::FromIter(1, 2, Hi::Plus(1)),
        Op::FromIter(cap, cap + 2, Hi::Exact),
        Op::Clone,
        Op::Append(2.min(cap)),
        Op::SplitOff(1),
        Op::Drain(0, 2, "nd".into()),
        Op::Drain(1, 2, "d".into()),
        Op::Drain(0, 1, "bl".into()),
        // items taken from the back, then the drain is dropped
        Op::Drain(0, 2, "bd".into()),
        Op::Drain(0, 2, "N1d".into()),
        Op::Drain(0, 2, "F".into()),
        Op::Roundtrip,
    ];
    if cfg.is_thin() {
        a.push(Op::ShrinkFit);
        // under-reporting iterator (size hint < number of items) on a vector whose capacity is
        // exactly len + hint: the item number `hint` needs the per-item reserve
        let h = cap.saturating_sub(f);
        a.push(Op::ExtIter(h, h + 1, Hi::Exact));
        if h != 0 {
            a.push(Op::ExtIter(0, 2, Hi::None));
        }
    } else {
        a.extend([
            Op::TryPush,
            Op::TryInsert(0),
            Op::ResizeWith(f + 2),
            Op::PopIf(true),
            Op::PopIf(false),
            Op::IntoIter("nd".into()),
            Op::IntoIter("bl".into()),
            Op::IntoIter("s1L".into()),
        ]);
    }
    a
}

fn random_op(rng: &mut Rng, cfg: Cfg, len: usize) -> Op {
    let cap = cfg.cap0();
    let hi = len.max(cap) + 2;
    let idx = |rng: &mut Rng| if rng.chance(1, 8) { rng.below(hi + 1) } else { rng.below(len + 1) };
    let script = |rng: &mut Rng| {
        let n = rng.below(4);
        let mut s = String::new();
        for _ in 0..n {
            let k = rng.below(3);
            match rng.below(10) {
                0 | 1 | 2 => s.push('n'),
                3 | 4 => s.push('b'),
                5 => s.push_str(&format!("N{k}")),
                6 => s.push_str(&format!("M{k}")),
                7 => s.push_str(&format!("s{k}")),
                8 => s.push_str(&format!("t{}", k + 1)),
                _ => s.push('r'),
            }
        }
        s.push(*rng.pick(&['d', 'd', 'd', 'l', 'L', 'C', 'F', 'R']));
        s
    };
    let small = |rng: &mut Rng| rng.below(if cfg.is_thin() { 2 * cap + 3 } else { cap + 2 });
    loop {
        let op = match rng.below(24) {
            0 | 1 | 2 => Op::Push,
            3 => Op::Pop,
            4 => Op::Insert(idx(rng)),
            5 => Op::Remove(idx(rng)),
            6 => Op::SwapRemove(idx(rng)),
            7 => Op::Truncate(idx(rng)),
            8 => {
                if rng.chance(1, 3) {
                    Op::Clear
                } else {
                    Op::Pop
                }
            }
            9 => Op::Resize(small(rng)),
            10 => Op::ExtSlice(rng.below(cap + 2)),
            11 => {
                let a = idx(rng);
                let b = idx(rng);
                if rng.chance(7, 8) {
                    Op::ExtWithin(a.min(b), a.max(b))
                } else {
                    Op::ExtWithin(a, b)
                }
            }
            12 => {
                let n = rng.below(cap + 2);
                Op::ExtIter(rng.below(n + 2), n, *rng.pick(&[Hi::None, Hi::Exact, Hi::Plus(2)]))
            }
            13 => Op::Clone,
            14 => Op::Append(rng.below(cap.min(4) + 1)),
            15 => Op::SplitOff(idx(rng)),
            16 | 17 => {
                let a = idx(rng);
                let b = idx(rng);
                Op::Drain(a.min(b), a.max(b), script(rng))
            }
            18 => {
                if rng.chance(1, 2) {
                    Op::Roundtrip
                } else {
                    let n = rng.below(cap + 2);
                    Op::FromIter(rng.below(n + 2), n, *rng.pick(&[Hi::None, Hi::Exact, Hi::Plus(2)]))
                }
            }
            19 if cfg.is_thin() => Op::ShrinkFit,
            20 if cfg.is_thin() => Op::Reserve(rng.below(2 * cap + 2)),
            19 => {
                if rng.chance(1, 2) {
                    Op::TryPush
                } else {
                    Op::PopIf(rng.chance(1, 2))
                }
            }
            20 => Op::TryInsert(idx(rng)),
            21 if !cfg.is_thin() => Op::ResizeWith(small(rng)),
            22 if !cfg.is_thin() => Op::IntoIter(script(rng)),
            _ => continue,
        };
        return op;
    }
}

/// what the C15 brief asks for after a fault: two more operations and the final drop
fn tail() -> Vec<(Option<u64>, Op)> {
    vec![(None, Op::Push), (None, Op::Truncate(1)), (None, Op::Drop)]
}

// ---------------------------------------------------------------------------------------------
// bookkeeping

#[derive(Default)]
struct Stats {
    evaluations: u64,
    nontrivial: u64,
    faulted: u64,
    panics: u64,
    per_op: std::collections::BTreeMap<String, u64>,
    per_cfg: std::collections::BTreeMap<String, u64>,
    /// iterator pulls / terminals, size-hint shapes
    per_mode: std::collections::BTreeMap<String, u64>,
    samples: Vec<serde_json::Value>,
    /// kind "monitor" (listed first, own cap) and kind "impl-vs-model"
    monitors: Vec<serde_json::Value>,
    mismatches: Vec<serde_json::Value>,
}

const CAP_PER_KIND: usize = 20;

impl Stats {
    fn merge(&mut self, o: Stats) {
        self.evaluations += o.evaluations;
        self.nontrivial += o.nontrivial;
        self.faulted += o.faulted;
        self.panics += o.panics;
        for (k, v) in o.per_op {
            *self.per_op.entry(k).or_default() += v;
        }
        for (k, v) in o.per_cfg {
            *self.per_cfg.entry(k).or_default() += v;
        }
        for (k, v) in o.per_mode {
            *self.per_mode.entry(k).or_default() += v;
        }
        if self.samples.len() < 6 {
            self.samples.extend(o.samples.into_iter().take(2));
        }
        for d in o.monitors {
            if self.monitors.len() < CAP_PER_KIND && !self.monitors.contains(&d) {
                self.monitors.push(d);
            }
        }
        for d in o.mismatches {
            if self.mismatches.len() < CAP_PER_KIND && !self.mismatches.contains(&d) {
                self.mismatches.push(d);
            }
        }
    }
    fn disagreements(&self) -> Vec<serde_json::Value> {
        self.monitors.iter().chain(self.mismatches.iter()).cloned().collect()
    }
}

fn hist_lines(cfg: Cfg, hist: &Hist) -> Vec<String> {
    let mut v = vec![cfg.name()];
    for (k, op) in hist {
        if let Some(k) = k {
            v.push(format!("panic_at {k}"));
        }
        v.push(op.line());
    }
    v
}

fn parse_hist(lines: &[String]) -> Option<(Cfg, Hist)> {
    let cfg = Cfg::parse(lines.first()?)?;
    let mut h = Hist::new();
    let mut k = None;
    for l in &lines[1..] {
        if let Some(r) = l.strip_prefix("panic_at ") {
            k = Some(r.trim().parse().ok()?);
        } else {
            h.push((k.take(), Op::parse(l)?));
        }
    }
    Some((cfg, h))
}

/// `VERIF_TRACE=<path>`: crash localisation — the history about to run is written to `<path>`
static TRACE: std::sync::OnceLock<Option<String>> = std::sync::OnceLock::new();

fn trace_path() -> Option<&'static str> {
    TRACE.get_or_init(|| std::env::var("VERIF_TRACE").ok().filter(|p| !p.is_empty())).as_deref()
}

/// One history, with the harness' own bookkeeping guarded: a panic anywhere while the history
/// runs (registry checks included) becomes a "monitor" disagreement carrying the history.
fn run_guarded(cfg: Cfg, drv: &mut Driver, hist: &Hist) -> Result<CaseOut, String> {
    if let Some(path) = trace_path() {
        use std::io::{Seek, Write};
        static FILE: std::sync::Mutex<Option<std::fs::File>> = std::sync::Mutex::new(None);
        let mut line = hist_lines(cfg, hist).join(" ; ");
        line.push('\n');
        if let Ok(mut g) = FILE.lock() {
            if g.is_none() {
                *g = std::fs::File::create(path).ok();
            }
            if let Some(f) = g.as_mut() {
                // the file always holds exactly one line: the history about to run
                let _ = f.rewind();
                let _ = f.write_all(line.as_bytes());
                let _ = f.set_len(line.len() as u64);
            }
        }
    }
    match catch_unwind(AssertUnwindSafe(|| run_cfg(cfg, drv, hist))) {
        Ok(r) => r,
        Err(payload) => {
            let msg = payload
                .downcast_ref::<String>()
                .cloned()
                .or_else(|| payload.downcast_ref::<&str>().map(|s| s.to_string()))
                .unwrap_or_else(|| "non-string panic payload".into());
            mon(|m| m.armed = false);
            Ok(CaseOut {
                calls: vec![],
                panicked: false,
                clone_probes: 0,
                bads: vec![Bad {
                    kind: "monitor",
                    at: 0,
                    expected: "the history runs to completion".into(),
                    observed: format!(
                        "panic outside the guarded operation while running this history: {msg}"
                    ),
                    note: None,
                }],
            })
        }
    }
}

/// delete operations / lower arguments while the same kind of disagreement persists
fn shrink(cfg: Cfg, drv: &mut Driver, hist: &Hist, kind: &str) -> Hist {
    let fails = |drv: &mut Driver, h: &Hist| -> bool {
        matches!(run_guarded(cfg, drv, h), Ok(out) if out.has(kind))
    };
    let mut cur = hist.clone();
    let mut progress = true;
    while progress {
        progress = false;
        let mut i = 0;
        while i < cur.len() {
            let mut cand = cur.clone();
            cand.remove(i);
            if fails(drv, &cand) {
                cur = cand;
                progress = true;
            } else {
                i += 1;
            }
        }
        for i in 0..cur.len() {
            if let Some(k) = cur[i].0 {
                // first without the fault at all, then with an earlier one
                let mut cand = cur.clone();
                cand[i].0 = None;
                if fails(drv, &cand) {
                    cur = cand;
                    progress = true;
                    continue;
                }
                for k2 in 0..k {
                    let mut cand = cur.clone();
                    cand[i].0 = Some(k2);
                    if fails(drv, &cand) {
                        cur = cand;
                        progress = true;
                        break;
                    }
                }
            }
        }
    }
    cur
}

struct Worker {
    drv: Driver,
    stats: Stats,
    profile: &'static str,
}

impl Worker {
    /// runs one history; returns the callback counts of its operations
    fn eval(&mut self, cfg: Cfg, hist: &Hist) -> Result<Vec<u64>, String> {
        let out = run_guarded(cfg, &mut self.drv, hist)?;
        self.stats.evaluations += 1;
        *self.stats.per_cfg.entry(cfg.name()).or_default() += 1;
        if out.calls.iter().any(|c| *c > 0) {
            self.stats.nontrivial += 1;
        }
        if hist.iter().any(|(k, _)| k.is_some()) {
            self.stats.faulted += 1;
        }
        if out.panicked {
            self.stats.panics += 1;
        }
        if out.clone_probes > 0 {
            *self.stats.per_mode.entry("clone probe: the iterator is Clone".into()).or_default() +=
                out.clone_probes;
        }
        for (_, op) in hist {
            let l = op.line();
            let name = l.split(' ').next().unwrap().to_string();
            *self.stats.per_op.entry(name).or_default() += 1;
            for m in op.modes() {
                *self.stats.per_mode.entry(m).or_default() += 1;
            }
        }
        if self.stats.samples.len() < 3 && hist.len() >= 3 && self.stats.evaluations % 97 == 5 {
            self.stats.samples.push(serde_json::json!(hist_lines(cfg, hist)));
        }
        for kind in ["monitor", "impl-vs-model"] {
            let Some(first) = out.bads.iter().find(|b| b.kind == kind) else { continue };
            let full = if kind == "monitor" {
                self.stats.monitors.len() >= CAP_PER_KIND
            } else {
                self.stats.mismatches.len() >= CAP_PER_KIND
            };
            if full {
                continue;
            }
            let small = shrink(cfg, &mut self.drv, hist, kind);
            let again = run_guarded(cfg, &mut self.drv, &small)?;
            let b = again.bads.iter().find(|b| b.kind == kind).unwrap_or(first).clone();
            let mut v = serde_json::json!({
                "kind": b.kind,
                "input": hist_lines(cfg, &small),
                "at_op": b.at,
                "expected": b.expected,
                "observed": b.observed,
                "profile": self.profile,
            });
            if let Some(n) = &b.note {
                v["note"] = serde_json::json!(n);
            }
            let list = if kind == "monitor" {
                &mut self.stats.monitors
            } else {
                &mut self.stats.mismatches
            };
            if !list.contains(&v) {
                list.push(v);
            }
        }
        Ok(out.calls)
    }

    /// base run, then every fault position × every k below the predicted invocation count
    fn eval_all_faults(&mut self, cfg: Cfg, setup: &Hist, body: &[Op]) -> Result<(), String> {
        let mut base = setup.clone();
        base.extend(body.iter().map(|op| (None, op.clone())));
        let mut with_drop = base.clone();
        with_drop.push((None, Op::Drop));
        let calls = self.eval(cfg, &with_drop)?;
        for i in setup.len()..base.len() {
            // a disagreement in the base run cuts it short: no callback counts beyond that point
            for k in 0..calls.get(i).copied().unwrap_or(0) {
                let mut h: Hist = base[..=i].to_vec();
                h[i].0 = Some(k);
                // the rest of the body still runs after the fault, then the fixed tail
                h.extend(base[i + 1..].iter().cloned());
                h.extend(tail());
                self.eval(cfg, &h)?;
            }
        }
        Ok(())
    }
}

/// all bodies of length 1..=depth over the alphabet, numbered; a worker takes those with
/// index ≡ its id (mod workers)
fn exhaustive(
    w: &mut Worker,
    cfg: Cfg,
    fill: usize,
    depth: usize,
    me: usize,
    workers: usize,
) -> Result<(), String> {
    let alpha = alphabet(cfg, fill);
    let setup: Hist = (0..fill).map(|_| (None, Op::Push)).collect();
    let mut counter = 0usize;
    for d in 1..=depth {
        let total = alpha.len().pow(d as u32);
        for n in 0..total {
            counter += 1;
            if counter % workers != me {
                continue;
            }
            let mut body = Vec::with_capacity(d);
            let mut x = n;
            for _ in 0..d {
                body.push(alpha[x % alpha.len()].clone());
                x /= alpha.len();
            }
            w.eval_all_faults(cfg, &setup, &body)?;
        }
    }
    Ok(())
}

/// ThinVec capacity boundaries: lengths across the minimal capacity, every doubling,
/// shrink_to_fit then grow, reserve
fn boundaries(w: &mut Worker, cfg: Cfg) -> Result<(), String> {
    let c0 = cfg.cap0();
    let mut h: Hist = vec![];
    for _ in 0..(4 * c0 + 2) {
        h.push((None, Op::Push));
    }
    h.push((None, Op::ShrinkFit));
    h.push((None, Op::Push));
    h.push((None, Op::Truncate(c0 + 1)));
    h.push((None, Op::ShrinkFit));
    h.push((None, Op::ExtWithin(0, c0 + 1)));
    h.push((None, Op::Clear));
    h.push((None, Op::ShrinkFit));
    h.push((None, Op::Push));
    h.push((None, Op::Push));
    h.push((None, Op::Reserve(3 * c0)));
    h.push((None, Op::ExtSlice(3 * c0)));
    h.push((None, Op::ExtWithin(0, 3 * c0 + 2)));
    h.push((None, Op::Drop));
    w.eval(cfg, &h)?;
    // every length l: fill to l, shrink, then each growing operation with every fault
    for l in 0..=(2 * c0 + 1) {
        let mut setup: Hist = (0..l).map(|_| (None, Op::Push)).collect();
        setup.push((None, Op::ShrinkFit));
        for op in [
            Op::Push,
            Op::Insert(0),
            Op::Resize(l + 2),
            Op::ExtSlice(2),
            Op::ExtWithin(0, l),
            Op::ExtIter(0, 2, Hi::Exact),
            Op::ExtIter(3, 2, Hi::None),
            Op::Append(2),
            Op::SplitOff(l / 2),
            Op::Clone,
            Op::Roundtrip,
        ] {
            w.eval_all_faults(cfg, &setup, &[op])?;
        }
    }
    Ok(())
}

/// Every iterator script of at most two pulls, followed by each terminal, on `Drain` over three
/// ranges and (InlineVec) on `IntoIter`, with every fault position: element drops, fold closure.
fn iterator_scripts(w: &mut Worker, cfg: Cfg, fill: usize, me: usize, workers: usize) -> Result<(), String> {
    let pulls = ["n", "b", "N0", "N1", "N2", "M0", "M1", "s1", "s2", "t1", "t2", "r"];
    let mut bodies: Vec<String> = vec![String::new()];
    for a in pulls {
        bodies.push(a.to_string());
        for b in pulls {
            bodies.push(format!("{a}{b}"));
        }
    }
    let setup: Hist = (0..fill).map(|_| (None, Op::Push)).collect();
    let mut ranges = vec![(0, fill), (1.min(fill), fill), (0, fill.saturating_sub(1))];
    ranges.dedup();
    let mut counter = 0usize;
    for body in &bodies {
        for fin in ["d", "l", "L", "C", "F", "R"] {
            counter += 1;
            if counter % workers != me {
                continue;
            }
            let sc = format!("{body}{fin}");
            for (a, b) in &ranges {
                w.eval_all_faults(cfg, &setup, &[Op::Drain(*a, *b, sc.clone())])?;
            }
            if matches!(cfg, Cfg::I(_)) {
                w.eval_all_faults(cfg, &setup, &[Op::IntoIter(sc.clone())])?;
            }
        }
    }
    Ok(())
}

/// Scripted size hints (lo, hi) of the caller's iterator in `extend` / `from_iter`: hi ∈ {None,
/// Some(lo), Some(lo + k)}; delivered count below / equal / above lo and hi; every fault position.
fn iterator_hints(w: &mut Worker, cfg: Cfg, me: usize, workers: usize) -> Result<(), String> {
    let c0 = cfg.cap0();
    let mut fills = vec![0, 1, c0.saturating_sub(1), c0];
    fills.sort();
    fills.dedup();
    let mut counter = 0usize;
    for fill in fills {
        let setup: Hist = (0..fill).map(|_| (None, Op::Push)).collect();
        let room = c0.saturating_sub(fill);
        let mut los = vec![0, 1, 2, room, room + 1, c0, c0 + 1];
        los.sort();
        los.dedup();
        for lo in los {
            for hi in [Hi::None, Hi::Exact, Hi::Plus(1), Hi::Plus(2)] {
                let mut ns = vec![0, lo.saturating_sub(1), lo, lo + 1, lo + 2, lo + 3];
                ns.sort();
                ns.dedup();
                for n in ns {
                    counter += 1;
                    if counter % workers != me {
                        continue;
                    }
                    w.eval_all_faults(cfg, &setup, &[Op::ExtIter(lo, n, hi)])?;
                    if fill <= 1 {
                        w.eval_all_faults(cfg, &setup, &[Op::FromIter(lo, n, hi)])?;
                    }
                }
            }
        }
    }
    Ok(())
}

fn random_cases(w: &mut Worker, cfg: Cfg, rng: &mut Rng, count: usize, maxlen: usize) -> Result<(), String> {
    for _ in 0..count {
        let n = 4 + rng.below(maxlen - 3);
        let mut est = 0usize; // rough length estimate to pick mostly valid arguments
        let mut body: Hist = vec![];
        for _ in 0..n {
            let op = random_op(rng, cfg, est);
            est = match &op {
                Op::Push | Op::Insert(_) => est + 1,
                Op::Pop | Op::Remove(_) | Op::SwapRemove(_) => est.saturating_sub(1),
                Op::Truncate(k) => est.min(*k),
                Op::Clear | Op::IntoIter(_) => 0,
                Op::Resize(k) | Op::ResizeWith(k) => *k,
                Op::ExtSlice(k) | Op::Append(k) | Op::ExtIter(_, k, _) => est + k,
                Op::ExtWithin(a, b) => est + b.saturating_sub(*a),
                Op::SplitOff(k) => est.min(*k),
                Op::Drain(a, b, _) => est.saturating_sub(b.saturating_sub(*a)),
                _ => est,
            };
            if !cfg.is_thin() {
                est = est.min(cfg.cap0());
            }
            body.push((None, op));
        }
        let mut base = body.clone();
        base.push((None, Op::Drop));
        let calls = w.eval(cfg, &base)?;
        // sampled faults
        let cands: Vec<(usize, u64)> = (0..body.len())
            .flat_map(|i| (0..calls.get(i).copied().unwrap_or(0)).map(move |k| (i, k)))
            .collect();
        if cands.is_empty() {
            continue;
        }
        for _ in 0..3 {
            let (i, k) = *rng.pick(&cands);
            let mut h = body.clone();
            h[i].0 = Some(k);
            // sometimes a second fault later on
            if rng.chance(1, 3) {
                let j = rng.below(body.len());
                if j > i {
                    h[j].0 = Some(rng.below(4) as u64);
                }
            }
            h.extend(tail());
            w.eval(cfg, &h)?;
        }
    }
    Ok(())
}

// ---------------------------------------------------------------------------------------------

/// the monitor must see a deliberate double drop and a drop of uninitialised memory
fn selftest() -> i32 {
    reset_monitor();
    let mut v: thin::ThinVec<El8, Pfx> = thin::ThinVec::new();
    v.push(El8::new());
    let dup = unsafe { std::ptr::read(v.as_ptr()) };
    drop(dup);
    drop(v);
    let double = mon(|m| std::mem::take(&mut m.violations));
    let mut w: InlineVec<El8, 3> = InlineVec::new();
    w.push(El8::new());
    unsafe {
        // poison the spare slot so that the outcome does not depend on stack garbage
        w.as_mut_ptr().add(1).cast::<u64>().write(0x1234);
        w.set_len(2);
    }
    drop(w);
    let uninit = mon(|m| std::mem::take(&mut m.violations));
    println!("selftest: double drop -> {double:?}; uninit drop -> {uninit:?}");
    let ok = double.len() == 1
        && double[0].contains("already dropped")
        && uninit.len() == 1
        && uninit[0].contains("never initialised");
    if ok {
        0
    } else {
        1
    }
}

fn main() {
    let cli = parse_cli();
    std::panic::set_hook(Box::new(|info| {
        // injected faults and the vectors' own assertion panics are expected
        if info.payload().downcast_ref::<Injected>().is_none() {
            let msg = info
                .payload()
                .downcast_ref::<String>()
                .cloned()
                .or_else(|| info.payload().downcast_ref::<&str>().map(|s| s.to_string()))
                .unwrap_or_default();
            if msg.starts_with("harness:") {
                eprintln!("{msg}");
            }
        }
    }));
    if cli.extra.iter().any(|a| a == "--selftest") {
        std::process::exit(selftest());
    }
    let Some(lean) = cli.lean.clone() else {
        eprintln!("slotdrive: --lean <path to slot_driver> is required");
        std::process::exit(2);
    };
    let profile = if cfg!(debug_assertions) { "debug" } else { "release" };
    let mut total = Stats::default();
    let mut exhaustive_flag = true;

    if let Some(path) = &cli.replay {
        let run = || -> Result<Stats, String> {
            let text = std::fs::read_to_string(path).map_err(|e| e.to_string())?;
            let v: serde_json::Value = serde_json::from_str(&text).map_err(|e| e.to_string())?;
            let input = v.get("input").unwrap_or(&v);
            let lines: Vec<String> = input
                .as_array()
                .ok_or("replay file: expected an array of lines or {\"input\": [...]}")?
                .iter()
                .filter_map(|x| x.as_str().map(|s| s.to_string()))
                .collect();
            let (cfg, hist) = parse_hist(&lines).ok_or("replay file: unparsable line")?;
            let mut w = Worker { drv: Driver::spawn(&lean).map_err(|e| e.to_string())?, stats: Stats::default(), profile };
            w.eval(cfg, &hist)?;
            Ok(w.stats)
        };
        match run() {
            Ok(s) => total.merge(s),
            Err(e) => {
                eprintln!("slotdrive: {e}");
                std::process::exit(2);
            }
        }
        exhaustive_flag = false;
    } else {
        let thorough = cli.tier == "thorough";
        let workers = 8usize;
        // (config, fill, depth) jobs of the exhaustive part
        let mut jobs: Vec<(Cfg, usize, usize)> = vec![
            (Cfg::I(3), 2, 3),
            (Cfg::I(2), 1, 3),
            (Cfg::I(4), 4, 3),
            (Cfg::T(8, true), 2, 3),
            (Cfg::T(8, true), 4, 3),
            (Cfg::T(64, true), 1, 3),
            (Cfg::T(16, false), 2, 3),
            (Cfg::T(4, true), 7, 2),
            (Cfg::I(1), 0, 2),
            (Cfg::I(6), 3, 2),
            (Cfg::T(8, false), 4, 2),
            (Cfg::T(32, false), 3, 2),
            (Cfg::T(32, true), 2, 2),
            (Cfg::T(4, false), 8, 2),
            (Cfg::T(16, true), 1, 2),
            (Cfg::T(64, false), 0, 2),
            // tracked prefix, plain elements (no Lean line: implementation-side monitors)
            (Cfg::P(0), 0, 3),
            (Cfg::P(0), 2, 2),
            (Cfg::P(1), 0, 2),
            (Cfg::P(1), 2, 3),
            (Cfg::P(2), 0, 2),
            (Cfg::P(2), 2, 3),
        ];
        if thorough {
            jobs.extend([
                (Cfg::I(4), 2, 3),
                (Cfg::I(3), 0, 3),
                (Cfg::I(6), 3, 3),
                (Cfg::T(4, false), 2, 3),
                (Cfg::T(4, true), 8, 3),
                (Cfg::T(32, true), 3, 3),
                (Cfg::T(16, true), 0, 3),
            ]);
        }
        // (config, fill) jobs of the iterator-script part
        let mut iter_jobs: Vec<(Cfg, usize)> = vec![
            (Cfg::I(4), 3),
            (Cfg::I(4), 4),
            (Cfg::I(2), 2),
            (Cfg::T(8, true), 3),
            (Cfg::T(4, false), 4),
            (Cfg::P(1), 3),
        ];
        if thorough {
            iter_jobs.extend([(Cfg::I(6), 5), (Cfg::I(3), 1), (Cfg::T(16, true), 5), (Cfg::T(8, false), 2), (Cfg::P(0), 4), (Cfg::P(2), 3)]);
        }
        let all_cfgs = [
            Cfg::I(1),
            Cfg::I(2),
            Cfg::I(3),
            Cfg::I(4),
            Cfg::I(6),
            Cfg::T(4, false),
            Cfg::T(4, true),
            Cfg::T(8, false),
            Cfg::T(8, true),
            Cfg::T(16, false),
            Cfg::T(16, true),
            Cfg::T(32, false),
            Cfg::T(32, true),
            Cfg::T(64, false),
            Cfg::T(64, true),
            Cfg::P(0),
            Cfg::P(1),
            Cfg::P(2),
        ];
        let seed = cli.seed;
        let job = |me: usize| -> Result<Stats, String> {
            let mut w = Worker {
                drv: Driver::spawn(&lean).map_err(|e| e.to_string())?,
                stats: Stats::default(),
                profile,
            };
            for (cfg, fill, depth) in &jobs {
                exhaustive(&mut w, *cfg, *fill, *depth, me, workers)?;
            }
            for (cfg, fill) in &iter_jobs {
                iterator_scripts(&mut w, *cfg, *fill, me, workers)?;
            }
            for cfg in &all_cfgs {
                iterator_hints(&mut w, *cfg, me, workers)?;
            }
            let mut rng = Rng::new(seed.wrapping_mul(1000).wrapping_add(me as u64));
            for (n, cfg) in all_cfgs.iter().enumerate() {
                if cfg.is_thin() && n % workers == me {
                    boundaries(&mut w, *cfg)?;
                }
                let count = if thorough { 3000 } else { 300 };
                random_cases(&mut w, *cfg, &mut rng, count, if thorough { 24 } else { 14 })?;
            }
            Ok(w.stats)
        };
        let results: Vec<Result<Stats, String>> = if trace_path().is_some() {
            // crash localisation: the same cases, worker after worker, on this thread
            (0..workers).map(|me| job(me)).collect()
        } else {
            std::thread::scope(|sc| {
                let handles: Vec<_> = (0..workers).map(|me| sc.spawn(move || job(me))).collect();
                handles
                    .into_iter()
                    .map(|h| h.join().unwrap_or_else(|_| Err("worker panicked".into())))
                    .collect()
            })
        };
        for r in results {
            match r {
                Ok(s) => total.merge(s),
                Err(e) => {
                    eprintln!("slotdrive: {e}");
                    std::process::exit(2);
                }
            }
        }
    }

    let stats = serde_json::json!({
        "evaluations": total.evaluations,
        "distinct_nontrivial": total.nontrivial,
        "rule": "kind monitor (implementation alone, after every op incl. caught panics): len <= capacity; every slot below len holds a live tracked element exactly once; no id dropped/returned twice; no drop/clone of a dead or uninitialised element; no write beyond a heap allocation (red zones); every realloc/dealloc is called with the layout (size and align) the block was allocated with; the vector built by from_iter satisfies the same state monitors before it is dropped; Drain/IntoIter: size_hint() = (len(), Some(len())) = the number of elements left before every pull and after the script, nth/nth_back/skip/step_by/rev/last/count/fold/rfold return Some/None and visit as many elements as that number says; if the iterator type is Clone (autoref probe) a clone of the partially consumed iterator is made and dropped under the element registry; after the final drop of fault-free leak-free histories every element and prefix value ever created has been dropped or returned. kind impl-vs-model (tracked-element configurations): per operation ret, len, capacity, ids (canonical), number of user-callback invocations and the mk/cl/dr/rt trace equal the L0 model's (a difference in the order of drop events only is flagged by a note); the model derives nth, nth_back, skip, step_by, rev, last, count, fold, rfold from next/next_back as std's default implementations do, so an override that behaves differently shows here; the caller's iterator in extend/from_iter reports a scripted size_hint (lo, hi) with hi in {None, Some(lo), Some(lo+k)} and delivers fewer, as many or more items. tvec-plain configurations (tracked prefix, u8/u64/() elements) are monitor-only",
        "exhaustive": exhaustive_flag,
        "distribution": {
            "faulted_histories": total.faulted,
            "histories_with_panic": total.panics,
            "per_config": total.per_cfg,
            "per_op": total.per_op,
            "per_mode": total.per_mode,
        },
        "samples": total.samples,
        "disagreements": total.disagreements(),
    });
    if let Some(out) = &cli.out {
        if let Err(e) = std::fs::write(out, serde_json::to_string_pretty(&stats).unwrap()) {
            eprintln!("slotdrive: cannot write {out}: {e}");
            std::process::exit(2);
        }
    }
    println!(
        "slotdrive: {} histories ({} faulted, {} with a panic), {} disagreement(s)",
        total.evaluations,
        total.faulted,
        total.panics,
        total.disagreements().len()
    );
    for d in &total.disagreements() {
        println!("  {}", d);
    }
    std::process::exit(if total.disagreements().is_empty() { 0 } else { 1 });
}
