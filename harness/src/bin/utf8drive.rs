//! Differential check of the Lean UTF-8 model (lean/HipVerif/Model/Utf8.lean, driver
//! `utf8_driver`) against rustc's `core::str` (property C06, tie (i)).
//!
//! Oracle side (std, executed in-process):
//!   `core::str::from_utf8` (+ `Utf8Error::valid_up_to`, `error_len`), `str::is_char_boundary`,
//!   `char::encode_utf8`, `char::from_u32`, `chars().next()`, `char_indices().next_back()`,
//!   `make_ascii_lowercase/uppercase`, `String::from_utf8_lossy`.
//! Model side: one op per query, batched `;`-separated on one driver line.
//! Additionally `HipStr::from_utf8` is compared with `core::str::from_utf8` (impl-vs-oracle).
//!
//! CLI: see CONVENTIONS.md.  `--replay <file.json>` re-runs the op lines found in the `input`
//! arrays of a previous stats file (or a plain JSON array of op lines).

use hipverif_harness::util::{hex, parse_cli, unhex, LeanDriver, Rng};
use std::collections::{BTreeMap, HashSet};
use std::hash::{Hash, Hasher};

const BATCH: usize = 512;

/// Class-boundary representatives of Table 3-7.
const REPS: [u8; 24] = [
    0x00, 0x7F, 0x80, 0x8F, 0x90, 0x9F, 0xA0, 0xBF, 0xC0, 0xC1, 0xC2, 0xDF, 0xE0, 0xE1, 0xEC, 0xED,
    0xEE, 0xEF, 0xF0, 0xF1, 0xF3, 0xF4, 0xF5, 0xFF,
];

/// One representative per ill-formed class (and per truncation point).
const ILL_FORMED: &[&[u8]] = &[
    // lone continuation bytes
    &[0x80],
    &[0xBF],
    &[0x80, 0x80],
    // bytes that never appear / overlong 2-byte leads
    &[0xC0],
    &[0xC1],
    &[0xC0, 0x80],
    &[0xC1, 0xBF],
    &[0xF5],
    &[0xF8],
    &[0xFE],
    &[0xFF],
    // truncated / broken 2-byte
    &[0xC2],
    &[0xDF],
    &[0xC2, 0x41],
    &[0xC2, 0xC2],
    &[0xDF, 0xC0],
    // overlong 3-byte
    &[0xE0, 0x80, 0x80],
    &[0xE0, 0x9F, 0xBF],
    // surrogates
    &[0xED, 0xA0, 0x80],
    &[0xED, 0xBF, 0xBF],
    // truncated 3-byte
    &[0xE0],
    &[0xE1],
    &[0xED],
    &[0xEF],
    &[0xE0, 0xA0],
    &[0xE1, 0x80],
    &[0xED, 0x80],
    &[0xED, 0x9F],
    &[0xEF, 0xBF],
    // 3-byte with a bad second / third byte
    &[0xE1, 0x41, 0x80],
    &[0xE1, 0xC0, 0x80],
    &[0xE1, 0x80, 0x41],
    &[0xE1, 0x80, 0xC0],
    &[0xEE, 0x80, 0xFF],
    // overlong 4-byte
    &[0xF0, 0x80, 0x80, 0x80],
    &[0xF0, 0x8F, 0xBF, 0xBF],
    // above U+10FFFF
    &[0xF4, 0x90, 0x80, 0x80],
    &[0xF4, 0xBF, 0xBF, 0xBF],
    &[0xF5, 0x80, 0x80, 0x80],
    &[0xF7, 0xBF, 0xBF, 0xBF],
    // truncated 4-byte
    &[0xF0],
    &[0xF1],
    &[0xF4],
    &[0xF0, 0x90],
    &[0xF1, 0x80],
    &[0xF4, 0x8F],
    &[0xF0, 0x90, 0x80],
    &[0xF1, 0x80, 0x80],
    &[0xF4, 0x8F, 0xBF],
    // 4-byte with a bad second / third / fourth byte
    &[0xF1, 0x41, 0x80, 0x80],
    &[0xF1, 0x80, 0x41, 0x80],
    &[0xF1, 0x80, 0x80, 0x41],
    &[0xF1, 0x80, 0x80, 0xC0],
    &[0xF3, 0xBF, 0xFF, 0xBF],
    // 5/6-byte forms of RFC 2279
    &[0xF8, 0x88, 0x80, 0x80, 0x80],
    &[0xFC, 0x84, 0x80, 0x80, 0x80, 0x80],
];

/// Carrier: six scalars of encoded lengths 1, 2, 3, 4, 2 (combining mark), 1.
const CARRIER: &str = "a\u{e9}\u{20ac}\u{1f980}\u{301}Z";

/// Alphabet for the valid-string enumeration (1–4-byte scalars incl. the encoding-length and
/// surrogate-gap boundaries).
const ALPHABET: [char; 15] = [
    'a', '\u{0}', '\u{7f}', '\u{80}', '\u{e9}', '\u{301}', '\u{7ff}', '\u{800}', '\u{20ac}', '\u{d7ff}',
    '\u{e000}', '\u{ffff}', '\u{10000}', '\u{1f980}', '\u{10ffff}',
];

#[derive(Clone, Debug, PartialEq, Eq, Hash)]
enum Q {
    Valid(Vec<u8>),
    Upto(Vec<u8>),
    ErrLen(Vec<u8>),
    Boundary(Vec<u8>, usize),
    Last(Vec<u8>),
    First(Vec<u8>),
    Decode(Vec<u8>),
    Lower(Vec<u8>),
    Upper(Vec<u8>),
    Lossy(Vec<u8>),
    Encode(u32),
    Scalar(u32),
}

impl Q {
    fn name(&self) -> &'static str {
        match self {
            Q::Valid(_) => "valid",
            Q::Upto(_) => "upto",
            Q::ErrLen(_) => "errlen",
            Q::Boundary(..) => "boundary",
            Q::Last(_) => "last",
            Q::First(_) => "first",
            Q::Decode(_) => "decode",
            Q::Lower(_) => "lower",
            Q::Upper(_) => "upper",
            Q::Lossy(_) => "lossy",
            Q::Encode(_) => "encode",
            Q::Scalar(_) => "scalar",
        }
    }

    fn line(&self) -> String {
        match self {
            Q::Boundary(b, i) => format!("boundary {} {}", hex(b), i),
            Q::Encode(c) => format!("encode {c}"),
            Q::Scalar(c) => format!("scalar {c}"),
            Q::Valid(b) | Q::Upto(b) | Q::ErrLen(b) | Q::Last(b) | Q::First(b) | Q::Decode(b)
            | Q::Lower(b) | Q::Upper(b) | Q::Lossy(b) => format!("{} {}", self.name(), hex(b)),
        }
    }

    fn parse(line: &str) -> Option<Q> {
        let w: Vec<&str> = line.split_whitespace().collect();
        Some(match w.as_slice() {
            ["valid", h] => Q::Valid(unhex(h)?),
            ["upto", h] => Q::Upto(unhex(h)?),
            ["errlen", h] => Q::ErrLen(unhex(h)?),
            ["boundary", h, i] => Q::Boundary(unhex(h)?, i.parse().ok()?),
            ["last", h] => Q::Last(unhex(h)?),
            ["first", h] => Q::First(unhex(h)?),
            ["decode", h] => Q::Decode(unhex(h)?),
            ["lower", h] => Q::Lower(unhex(h)?),
            ["upper", h] => Q::Upper(unhex(h)?),
            ["lossy", h] => Q::Lossy(unhex(h)?),
            ["encode", c] => Q::Encode(c.parse().ok()?),
            ["scalar", c] => Q::Scalar(c.parse().ok()?),
            _ => return None,
        })
    }

    fn bytes(&self) -> Option<&Vec<u8>> {
        match self {
            Q::Boundary(b, _) => Some(b),
            Q::Valid(b) | Q::Upto(b) | Q::ErrLen(b) | Q::Last(b) | Q::First(b) | Q::Decode(b)
            | Q::Lower(b) | Q::Upper(b) | Q::Lossy(b) => Some(b),
            Q::Encode(_) | Q::Scalar(_) => None,
        }
    }

    fn with_bytes(&self, nb: Vec<u8>) -> Q {
        match self {
            Q::Valid(_) => Q::Valid(nb),
            Q::Upto(_) => Q::Upto(nb),
            Q::ErrLen(_) => Q::ErrLen(nb),
            Q::Boundary(_, i) => Q::Boundary(nb, *i),
            Q::Last(_) => Q::Last(nb),
            Q::First(_) => Q::First(nb),
            Q::Decode(_) => Q::Decode(nb),
            Q::Lower(_) => Q::Lower(nb),
            Q::Upper(_) => Q::Upper(nb),
            Q::Lossy(_) => Q::Lossy(nb),
            Q::Encode(c) => Q::Encode(*c),
            Q::Scalar(c) => Q::Scalar(*c),
        }
    }

    /// What rustc's std answers; `None` when std has no answer for this input (the query is
    /// then not part of the comparison).
    fn expected(&self) -> Option<String> {
        let bit = |b: bool| if b { "1" } else { "0" }.to_string();
        match self {
            Q::Valid(b) => Some(bit(core::str::from_utf8(b).is_ok())),
            Q::Upto(b) => Some(match core::str::from_utf8(b) {
                Ok(_) => b.len().to_string(),
                Err(e) => e.valid_up_to().to_string(),
            }),
            Q::ErrLen(b) => match core::str::from_utf8(b) {
                Ok(_) => None,
                Err(e) => Some(match e.error_len() {
                    None => "none".to_string(),
                    Some(k) => k.to_string(),
                }),
            },
            // `is_char_boundary` exists on `str` only: real std answer for well-formed input.
            Q::Boundary(b, i) => core::str::from_utf8(b).ok().map(|s| bit(s.is_char_boundary(*i))),
            Q::Last(b) => {
                let s = core::str::from_utf8(b).ok()?;
                Some(s.char_indices().next_back()?.0.to_string())
            }
            Q::First(b) => match core::str::from_utf8(b) {
                Ok(s) => Some(s.chars().next().map_or(0, |c| c.len_utf8()).to_string()),
                Err(e) => {
                    // the first scalar of the longest valid prefix, 0 if that prefix is empty
                    let s = core::str::from_utf8(&b[..e.valid_up_to()]).unwrap();
                    Some(s.chars().next().map_or(0, |c| c.len_utf8()).to_string())
                }
            },
            Q::Decode(b) => {
                let s = core::str::from_utf8(b).ok()?;
                Some((s.chars().next()? as u32).to_string())
            }
            Q::Lower(b) => {
                let mut v = b.clone();
                match core::str::from_utf8_mut(&mut v) {
                    Ok(s) => s.make_ascii_lowercase(),
                    Err(_) => v.make_ascii_lowercase(),
                }
                Some(hex(&v))
            }
            Q::Upper(b) => {
                let mut v = b.clone();
                match core::str::from_utf8_mut(&mut v) {
                    Ok(s) => s.make_ascii_uppercase(),
                    Err(_) => v.make_ascii_uppercase(),
                }
                Some(hex(&v))
            }
            Q::Lossy(b) => Some(hex(String::from_utf8_lossy(b).as_bytes())),
            Q::Encode(c) => {
                let ch = char::from_u32(*c)?;
                let mut buf = [0u8; 4];
                Some(hex(ch.encode_utf8(&mut buf).as_bytes()))
            }
            Q::Scalar(c) => Some(bit(char::from_u32(*c).is_some())),
        }
    }
}

#[derive(Debug)]
struct Disagreement {
    kind: &'static str,
    input: Vec<String>,
    expected: String,
    observed: String,
}

struct Runner {
    lean: LeanDriver,
    pending: Vec<(Q, String)>,
    evaluations: u64,
    seen: HashSet<u64>,
    nontrivial: u64,
    dist: BTreeMap<String, u64>,
    samples: Vec<String>,
    disagreements: Vec<Disagreement>,
    section: &'static str,
}

impl Runner {
    fn bump(&mut self, key: &str, n: u64) {
        *self.dist.entry(key.to_string()).or_insert(0) += n;
    }

    fn push(&mut self, q: Q) -> Result<(), String> {
        let Some(exp) = q.expected() else { return Ok(()) };
        let mut h = std::collections::hash_map::DefaultHasher::new();
        q.hash(&mut h);
        if self.seen.insert(h.finish()) {
            let trivial = matches!(q.bytes(), Some(b) if b.is_empty());
            if !trivial {
                self.nontrivial += 1;
            }
        }
        self.bump(&format!("op:{}", q.name()), 1);
        self.bump(&format!("section:{}", self.section), 1);
        self.pending.push((q, exp));
        if self.pending.len() >= BATCH {
            self.flush()?;
        }
        Ok(())
    }

    fn ask_one(&mut self, q: &Q) -> Result<String, String> {
        self.lean.ask(&q.line()).map_err(|e| format!("lean driver: {e}"))
    }

    fn flush(&mut self) -> Result<(), String> {
        if self.pending.is_empty() {
            return Ok(());
        }
        let batch = std::mem::take(&mut self.pending);
        let line = batch.iter().map(|(q, _)| q.line()).collect::<Vec<_>>().join(";");
        let ans = self.lean.ask(&line).map_err(|e| format!("lean driver: {e}"))?;
        let parts: Vec<&str> = ans.split(';').collect();
        if parts.len() != batch.len() {
            return Err(format!("driver answered {} fields for {} ops", parts.len(), batch.len()));
        }
        for ((q, exp), got) in batch.into_iter().zip(parts) {
            self.evaluations += 1;
            if self.samples.len() < 12 && self.evaluations % 7919 == 1 {
                self.samples.push(format!("{} -> {}", q.line(), got));
            }
            if exp != got {
                let (q, exp, got) = self.shrink(q, exp, got.to_string())?;
                // keep a few per operation so that the report shows every affected op
                let per_op = self
                    .disagreements
                    .iter()
                    .filter(|d| d.input[0].split(' ').next() == Some(q.name()))
                    .count();
                if per_op < 6 && self.disagreements.len() < 80 {
                    self.disagreements.push(Disagreement {
                        kind: "impl-vs-model",
                        input: vec![q.line()],
                        expected: exp,
                        observed: got,
                    });
                }
                self.bump("disagreements", 1);
            }
        }
        Ok(())
    }

    /// Delete bytes while std and the model keep disagreeing.
    fn shrink(&mut self, q: Q, exp: String, got: String) -> Result<(Q, String, String), String> {
        let mut cur = (q, exp, got);
        loop {
            let Some(b) = cur.0.bytes().cloned() else { return Ok(cur) };
            let mut improved = false;
            for k in 0..b.len() {
                let mut nb = b.clone();
                nb.remove(k);
                let cand = cur.0.with_bytes(nb);
                if let Some(e) = cand.expected() {
                    let g = self.ask_one(&cand)?;
                    if g != e {
                        cur = (cand, e, g);
                        improved = true;
                        break;
                    }
                }
            }
            if !improved {
                return Ok(cur);
            }
        }
    }

    /// Everything std can say about one byte string, all cut positions 0..=len+1.
    fn check_bytes(&mut self, b: &[u8], cuts: bool) -> Result<(), String> {
        let v = b.to_vec();
        let ok = core::str::from_utf8(b).is_ok();
        self.bump(if ok { "input:well-formed" } else { "input:ill-formed" }, 1);
        self.push(Q::Valid(v.clone()))?;
        self.push(Q::Upto(v.clone()))?;
        self.push(Q::ErrLen(v.clone()))?;
        self.push(Q::First(v.clone()))?;
        self.push(Q::Lossy(v.clone()))?;
        if ok {
            self.push(Q::Last(v.clone()))?;
            self.push(Q::Decode(v.clone()))?;
        }
        if cuts {
            self.push(Q::Lower(v.clone()))?;
            self.push(Q::Upper(v.clone()))?;
            for i in 0..=b.len() + 1 {
                self.push(Q::Boundary(v.clone(), i))?;
            }
            // a prefix that std accepts gives real `is_char_boundary` answers for cut
            // positions of an ill-formed string too
            if let Err(e) = core::str::from_utf8(b) {
                let p = b[..e.valid_up_to()].to_vec();
                for i in 0..=p.len() + 1 {
                    self.push(Q::Boundary(p.clone(), i))?;
                }
            }
        }
        // HipStr::from_utf8 against core (impl-vs-oracle)
        let hb = hipstr::HipByt::from(b);
        let (exp_ok, exp_upto) = match core::str::from_utf8(b) {
            Ok(_) => (true, b.len()),
            Err(e) => (false, e.valid_up_to()),
        };
        let (got_ok, got_upto, same) = match hipstr::HipStr::from_utf8(hb) {
            Ok(s) => (true, s.len(), s.as_bytes() == b),
            Err(e) => (false, e.utf8_error().valid_up_to(), e.as_bytes() == b),
        };
        self.bump("op:hipstr_from_utf8", 1);
        self.evaluations += 1;
        if (exp_ok, exp_upto, true) != (got_ok, got_upto, same) {
            self.bump("disagreements", 1);
            if self.disagreements.len() < 50 {
                self.disagreements.push(Disagreement {
                    kind: "impl-vs-oracle",
                    input: vec![format!("from_utf8 {}", hex(b))],
                    expected: format!("{exp_ok} {exp_upto} bytes-preserved"),
                    observed: format!("{got_ok} {got_upto} preserved={same}"),
                });
            }
        }
        Ok(())
    }

    fn check_scalar(&mut self, c: u32) -> Result<(), String> {
        self.push(Q::Scalar(c))?;
        self.push(Q::Encode(c))?;
        if let Some(ch) = char::from_u32(c) {
            let mut buf = [0u8; 4];
            let enc = ch.encode_utf8(&mut buf).as_bytes().to_vec();
            self.push(Q::Valid(enc.clone()))?;
            self.push(Q::First(enc.clone()))?;
            self.push(Q::Decode(enc.clone()))?;
            self.push(Q::Last(enc))?;
        }
        Ok(())
    }
}

fn random_bytes(rng: &mut Rng, max_units: usize) -> Vec<u8> {
    let units = 1 + rng.below(max_units);
    let mut v = Vec::new();
    for _ in 0..units {
        match rng.below(10) {
            0..=5 => {
                // a random scalar of a random encoded length
                let c = loop {
                    let c = match rng.below(4) {
                        0 => rng.below(0x80),
                        1 => 0x80 + rng.below(0x800 - 0x80),
                        2 => 0x800 + rng.below(0x10000 - 0x800),
                        _ => 0x10000 + rng.below(0x110000 - 0x10000),
                    } as u32;
                    if let Some(ch) = char::from_u32(c) {
                        break ch;
                    }
                };
                let mut buf = [0u8; 4];
                v.extend_from_slice(c.encode_utf8(&mut buf).as_bytes());
            }
            6 => v.push(*rng.pick(&REPS)),
            7 => v.push(rng.below(256) as u8),
            8 => v.extend_from_slice(rng.pick(ILL_FORMED)),
            _ => {
                // truncate what we have inside a sequence
                if !v.is_empty() {
                    v.pop();
                }
            }
        }
    }
    v
}

fn run(r: &mut Runner, thorough: bool, seed: u64) -> Result<(), String> {
    // 1. every byte string of length <= 2 (thorough: <= 3)
    r.section = "exhaustive-short";
    r.check_bytes(&[], true)?;
    for a in 0..=255u8 {
        r.check_bytes(&[a], true)?;
    }
    for a in 0..=255u8 {
        for b in 0..=255u8 {
            r.check_bytes(&[a, b], true)?;
        }
    }
    // 2. all 3- and 4-byte strings over the class-boundary representatives
    r.section = "representatives-3";
    for &a in &REPS {
        for &b in &REPS {
            for &c in &REPS {
                r.check_bytes(&[a, b, c], true)?;
            }
        }
    }
    r.section = "representatives-4";
    for &a in &REPS {
        for &b in &REPS {
            for &c in &REPS {
                for &d in &REPS {
                    let s = [a, b, c, d];
                    r.check_bytes(&s, true)?;
                }
            }
        }
    }
    // 3. every ill-formed class at every offset of the carrier
    r.section = "ill-formed-in-carrier";
    let carrier = CARRIER.as_bytes();
    r.check_bytes(carrier, true)?;
    for bad in ILL_FORMED {
        r.check_bytes(bad, true)?;
        for off in 0..=carrier.len() {
            let mut s = carrier[..off].to_vec();
            s.extend_from_slice(bad);
            s.extend_from_slice(&carrier[off..]);
            r.check_bytes(&s, true)?;
            // overwrite instead of insert
            let mut s = carrier.to_vec();
            for (k, x) in bad.iter().enumerate() {
                if off + k < s.len() {
                    s[off + k] = *x;
                }
            }
            r.check_bytes(&s, true)?;
        }
    }
    // every truncation / window of the carrier
    for a in 0..=carrier.len() {
        for b in a..=carrier.len() {
            r.check_bytes(&carrier[a..b], true)?;
        }
    }
    // 4. well-formed strings over the scalar alphabet, all cut positions
    r.section = "valid-alphabet";
    let maxlen = if thorough { 4 } else { 3 };
    let mut stack: Vec<String> = vec![String::new()];
    while let Some(s) = stack.pop() {
        r.check_bytes(s.as_bytes(), true)?;
        if s.chars().count() < maxlen {
            for c in ALPHABET {
                let mut t = s.clone();
                t.push(c);
                stack.push(t);
            }
        }
    }
    // 5. scalar values
    r.section = "scalars";
    let edges: [u32; 13] = [
        0, 0x7F, 0x80, 0x7FF, 0x800, 0xFFF, 0x1000, 0xD7FF, 0xE000, 0xFFFF, 0x10000, 0x10FFFF, 0x110000,
    ];
    for e in edges {
        for d in -3i64..=3 {
            let c = e as i64 + d;
            if c >= 0 {
                r.check_scalar(c as u32)?;
            }
        }
    }
    for c in 0xD7F0..=0xE010u32 {
        r.check_scalar(c)?;
    }
    for c in [0x3FFFF, 0x40000, 0xFFFFF, 0x100000, 0x200000, 0xFFFF_FFFF, 0x3F, 0x40, 0xFC0, 0x3FFFF + 1] {
        r.check_scalar(c)?;
    }
    if thorough {
        for c in 0..0x110100u32 {
            r.push(Q::Scalar(c))?;
            r.push(Q::Encode(c))?;
            if let Some(ch) = char::from_u32(c) {
                let mut buf = [0u8; 4];
                let enc = ch.encode_utf8(&mut buf).as_bytes().to_vec();
                r.push(Q::Valid(enc.clone()))?;
                r.push(Q::Decode(enc))?;
            }
        }
    } else {
        for c in 0..0x1000u32 {
            r.check_scalar(c)?;
        }
        let mut c = 0x1000u32;
        while c < 0x110100 {
            r.check_scalar(c)?;
            c += 251;
        }
    }
    // 6. random longer strings
    r.section = "random";
    let mut rng = Rng::new(seed);
    let n = if thorough { 200_000 } else { 4_000 };
    for _ in 0..n {
        let s = random_bytes(&mut rng, 24);
        r.check_bytes(&s, true)?;
    }
    if thorough {
        // 7. every byte string of length 3 whose first byte is >= 0x80 or a representative
        r.section = "exhaustive-3-nonascii-lead";
        for a in 0x7F..=0xFFu8 {
            for b in 0..=255u8 {
                for c in 0..=255u8 {
                    r.check_bytes(&[a, b, c], false)?;
                }
            }
        }
    }
    r.flush()
}

fn replay(r: &mut Runner, path: &str) -> Result<(), String> {
    let text = std::fs::read_to_string(path).map_err(|e| format!("{path}: {e}"))?;
    let v: serde_json::Value = serde_json::from_str(&text).map_err(|e| format!("{path}: {e}"))?;
    let mut lines: Vec<String> = vec![];
    fn collect(v: &serde_json::Value, out: &mut Vec<String>) {
        match v {
            serde_json::Value::String(s) => out.push(s.clone()),
            serde_json::Value::Array(a) => a.iter().for_each(|x| collect(x, out)),
            serde_json::Value::Object(o) => {
                if let Some(i) = o.get("input") {
                    collect(i, out);
                } else if let Some(d) = o.get("disagreements") {
                    collect(d, out);
                }
            }
            _ => {}
        }
    }
    collect(&v, &mut lines);
    r.section = "replay";
    for l in lines {
        if let Some(rest) = l.strip_prefix("from_utf8 ") {
            let b = unhex(rest.trim()).ok_or_else(|| format!("bad replay line {l:?}"))?;
            r.check_bytes(&b, true)?;
            continue;
        }
        let q = Q::parse(&l).ok_or_else(|| format!("bad replay line {l:?}"))?;
        r.push(q)?;
    }
    r.flush()
}

fn main() {
    let cli = parse_cli();
    let Some(lean) = cli.lean.clone() else {
        eprintln!("utf8drive: --lean <driver exe> is required");
        std::process::exit(2);
    };
    let thorough = match cli.tier.as_str() {
        "quick" => false,
        "thorough" => true,
        t => {
            eprintln!("utf8drive: unknown tier {t}");
            std::process::exit(2);
        }
    };
    let driver = match LeanDriver::spawn(&lean, &[]) {
        Ok(d) => d,
        Err(e) => {
            eprintln!("utf8drive: cannot start {lean}: {e}");
            std::process::exit(2);
        }
    };
    let mut r = Runner {
        lean: driver,
        pending: vec![],
        evaluations: 0,
        seen: HashSet::new(),
        nontrivial: 0,
        dist: BTreeMap::new(),
        samples: vec![],
        disagreements: vec![],
        section: "init",
    };
    // the protocol itself: unknown operations are answered, not swallowed
    match r.lean.ask("frobnicate 00") {
        Ok(a) if a == "bad-op" => {}
        other => {
            eprintln!("utf8drive: driver protocol check failed: {other:?}");
            std::process::exit(2);
        }
    }
    let res = match &cli.replay {
        Some(p) => replay(&mut r, p),
        None => run(&mut r, thorough, cli.seed),
    };
    if let Err(e) = res {
        eprintln!("utf8drive: internal error: {e}");
        std::process::exit(2);
    }
    let profile = if cfg!(debug_assertions) { "debug" } else { "release" };
    let n_dis = r.dist.get("disagreements").copied().unwrap_or(0);
    let stats = serde_json::json!({
        "evaluations": r.evaluations,
        "distinct_nontrivial": r.nontrivial,
        "rule": "exhaustive: all byte strings of length <= 2; all 3- and 4-byte strings over the 24 \
Table 3-7 class-boundary bytes; every ill-formed class inserted/overwritten at every offset of a \
6-scalar carrier (1,2,3,4,2,1-byte scalars) and every window of the carrier; all strings of <= 3 \
(thorough 4) scalars over a 15-scalar alphabet; all cut positions 0..=len+1; scalars at every \
encoding-length/surrogate edge (thorough: all of 0..0x110100); plus seeded random strings of up to \
24 units mixing scalars, boundary bytes and ill-formed classes. Oracle = core::str / char / \
String::from_utf8_lossy; model = lean utf8_driver.",
        "exhaustive": true,
        "tier": cli.tier,
        "seed": cli.seed,
        "distribution": r.dist,
        "samples": r.samples,
        "disagreements": r.disagreements.iter().map(|d| serde_json::json!({
            "kind": d.kind,
            "input": d.input,
            "expected": d.expected,
            "observed": d.observed,
            "profile": profile,
        })).collect::<Vec<_>>(),
    });
    let text = serde_json::to_string_pretty(&stats).unwrap();
    match &cli.out {
        Some(p) => {
            if let Err(e) = std::fs::write(p, &text) {
                eprintln!("utf8drive: cannot write {p}: {e}");
                std::process::exit(2);
            }
        }
        None => println!("{text}"),
    }
    eprintln!(
        "utf8drive: {} evaluations, {} distinct non-trivial, {} disagreement(s)",
        r.evaluations, r.nontrivial, n_dis
    );
    std::process::exit(if n_dis == 0 { 0 } else { 1 });
}
