//! C11 correspondence: every inherited `str` method of `HipStr` against std's method on `as_str()`,
//! item by item, plus self-sufficiency of every yielded piece.
//!
//! Haystacks: ALL strings of at most 4 (quick) / 6 (thorough) units over
//! `{a, b, ' ', '\n', "\r\n", é, €, 🦀}` — as inline and as borrowed sources — plus random longer
//! ones (heap, heap offset-slice of a bigger buffer, borrowed, inline), on the backends Arc, Rc, Unique.
//! Patterns: `char`, `&str` (incl. empty and overlapping), `&&str`, `&String`, `&[char]`, `&[char; N]`,
//! closures (incl. a stateful `FnMut`), `char::is_whitespace`; `n ∈ 0..4` for `splitn`/`rsplitn`;
//! iteration forward, backward and mixed front/back wherever std's iterator is double-ended.
//!
//! Per call: the items (strings AND indices / tuple halves / `Option`) are compared with std in
//! lockstep; after exhaustion one more `next`/`next_back` must give `None` on both sides.
//! Per yielded piece (kind `monitor` when violated):
//!  (a) `is_borrowed()` exactly when the source was borrowed, and then its pointer IS std's piece
//!      pointer (i.e. it aliases the original borrowed data, not a copy);
//!  (b) after the source has been mutated in place (`make_ascii_uppercase`, `push_str`) and after it
//!      has been dropped, the piece still reads the same string (freed memory is poisoned with 0xDD by
//!      this bin's allocator, so a dangling piece is visible);
//!  (c) `from_utf8(piece.as_bytes())` is `Ok`, and the representation is normalised.
//! Allocating functions (`to_lowercase`, `to_uppercase`, `to_ascii_*case`, `repeat`, `from_utf16`,
//! `from_utf16_lossy`) are compared with std on a case-sensitive alphabet / on all short `u16` sequences
//! with lone surrogates.
//!
//! Op lines (`input` of a disagreement, accepted back by `--replay`):
//!   `hay <hex> <inline|borrowed|heap|heapslice> <Arc|Rc|Unique>`   then   `call <label>`
//! A disagreement found on a long haystack is shrunk by deleting characters while it reproduces.
//! `--lean <wiring_driver>` (optional): asks `rows`; anything but `none` is an `impl-vs-model` report.

use std::alloc::{GlobalAlloc, Layout, System};
use std::collections::BTreeMap;
use std::panic::{catch_unwind, AssertUnwindSafe};

use hipstr::string::HipStr;
use hipstr::{Arc, Backend, Rc, Unique};
use hipverif_harness::util::{hex, parse_cli, unhex, LeanDriver, Rng};

// ---------------------------------------------------------------------------------------------
// allocator: poison on free

struct PoisonAlloc;
unsafe impl GlobalAlloc for PoisonAlloc {
    unsafe fn alloc(&self, l: Layout) -> *mut u8 {
        unsafe { System.alloc(l) }
    }
    unsafe fn dealloc(&self, p: *mut u8, l: Layout) {
        unsafe {
            std::ptr::write_bytes(p, 0xDD, l.size());
            System.dealloc(p, l)
        }
    }
    unsafe fn realloc(&self, p: *mut u8, l: Layout, n: usize) -> *mut u8 {
        // never in place: the old block is poisoned and freed
        unsafe {
            let q = System.alloc(Layout::from_size_align_unchecked(n, l.align()));
            if !q.is_null() {
                std::ptr::copy_nonoverlapping(p, q, l.size().min(n));
                std::ptr::write_bytes(p, 0xDD, l.size());
                System.dealloc(p, l);
            }
            q
        }
    }
}
#[global_allocator]
static A: PoisonAlloc = PoisonAlloc;

const INLINE_CAP: usize = 23;

// ---------------------------------------------------------------------------------------------
// items

trait Item {
    fn idx(&self) -> Option<usize>;
    fn text(&self) -> &str;
}
impl Item for &str {
    fn idx(&self) -> Option<usize> {
        None
    }
    fn text(&self) -> &str {
        self
    }
}
impl Item for (usize, &str) {
    fn idx(&self) -> Option<usize> {
        Some(self.0)
    }
    fn text(&self) -> &str {
        self.1
    }
}
impl<B: Backend> Item for HipStr<'_, B> {
    fn idx(&self) -> Option<usize> {
        None
    }
    fn text(&self) -> &str {
        self.as_str()
    }
}
impl<B: Backend> Item for (usize, HipStr<'_, B>) {
    fn idx(&self) -> Option<usize> {
        Some(self.0)
    }
    fn text(&self) -> &str {
        self.1.as_str()
    }
}
trait HipItem<'h, B: Backend>: Item {
    fn into_hip(self) -> HipStr<'h, B>;
}
impl<'h, B: Backend> HipItem<'h, B> for HipStr<'h, B> {
    fn into_hip(self) -> HipStr<'h, B> {
        self
    }
}
impl<'h, B: Backend> HipItem<'h, B> for (usize, HipStr<'h, B>) {
    fn into_hip(self) -> HipStr<'h, B> {
        self.1
    }
}

fn show_item<T: Item>(t: &T) -> String {
    match t.idx() {
        Some(i) => format!("{i}:{}", hex(t.text().as_bytes())),
        None => hex(t.text().as_bytes()),
    }
}
fn show_list<T: Item>(v: &[T]) -> String {
    format!("[{}]", v.iter().map(show_item).collect::<Vec<_>>().join(","))
}

#[derive(Clone, Copy, PartialEq, Debug)]
enum Dir {
    Fwd,
    Back,
    Mixed,
}
impl Dir {
    fn name(self) -> &'static str {
        match self {
            Dir::Fwd => "fwd",
            Dir::Back => "back",
            Dir::Mixed => "mixed",
        }
    }
}
/// which end the i-th pull of a mixed iteration takes (F B B F B F F B …)
fn mixed_front(i: usize) -> bool {
    (0x96u32 >> (i % 8)) & 1 == 0
}

fn collect_de<I: DoubleEndedIterator>(mut it: I, dir: Dir) -> Vec<I::Item> {
    let mut v = vec![];
    let mut i = 0;
    loop {
        let x = match dir {
            Dir::Fwd => it.next(),
            Dir::Back => it.next_back(),
            Dir::Mixed => {
                if mixed_front(i) {
                    it.next()
                } else {
                    it.next_back()
                }
            }
        };
        i += 1;
        match x {
            Some(x) if v.len() < 64 => v.push(x),
            _ => return v,
        }
    }
}
fn collect_fwd<I: Iterator>(it: I) -> Vec<I::Item> {
    it.take(64).collect()
}

// ---------------------------------------------------------------------------------------------
// per-source context

struct Fail {
    kind: &'static str,
    label: String,
    expected: String,
    observed: String,
}

struct Piece<'h, B: Backend> {
    p: HipStr<'h, B>,
    off: u32,
    len: u32,
    /// index into `Cx::labels` (which call produced it)
    call: u32,
}

struct Cx<'h, 'f, B: Backend> {
    h: &'h str,
    src_borrowed: bool,
    pieces: Vec<Piece<'h, B>>,
    fails: Vec<Fail>,
    filter: Option<&'f str>,
    /// (method, pattern, n, dir) of every call that yielded at least one piece
    calls_meta: Vec<(&'static str, &'static str, Option<usize>, Dir)>,
    cur: (&'static str, &'static str, Option<usize>, Dir),
    cur_pushed: bool,
    calls: u64,
    nontrivial: u64,
    pieces_total: u64,
    repr_counts: [u64; 3],
    per_method: BTreeMap<&'static str, u64>,
    want_sample: bool,
    /// index of the call after which the next iterator call is recorded as a sample
    sample_at: Option<u64>,
    samples: Vec<String>,
}

fn label(m: &str, pat: &str, n: Option<usize>, dir: Dir) -> String {
    match n {
        Some(n) => format!("{m}[n={n}] pat={pat} dir={}", dir.name()),
        None => format!("{m} pat={pat} dir={}", dir.name()),
    }
}

impl<'h, 'f, B: Backend> Cx<'h, 'f, B> {
    fn new(h: &'h str, src_borrowed: bool, filter: Option<&'f str>) -> Self {
        Cx {
            h,
            src_borrowed,
            pieces: vec![],
            fails: vec![],
            filter,
            calls_meta: vec![],
            cur: ("", "", None, Dir::Fwd),
            cur_pushed: false,
            calls: 0,
            nontrivial: 0,
            pieces_total: 0,
            repr_counts: [0; 3],
            per_method: BTreeMap::new(),
            want_sample: false,
            sample_at: None,
            samples: vec![],
        }
    }

    /// starts a call; false = filtered out
    fn begin(&mut self, m: &'static str, pat: &'static str, n: Option<usize>, dir: Dir) -> bool {
        if let Some(f) = self.filter {
            if label(m, pat, n, dir) != f {
                return false;
            }
        }
        self.cur = (m, pat, n, dir);
        self.cur_pushed = false;
        if self.sample_at == Some(self.calls) {
            self.want_sample = true;
        }
        self.calls += 1;
        *self.per_method.entry(m).or_insert(0) += 1;
        true
    }

    fn cur_label(&self) -> String {
        label(self.cur.0, self.cur.1, self.cur.2, self.cur.3)
    }

    fn fail(&mut self, kind: &'static str, expected: String, observed: String) {
        // one report per (kind/check, method) and source is enough: the first one
        let prefix = self.cur.0;
        let dup = self.fails.iter().any(|f| {
            f.kind == kind && f.label.split(|c| c == ' ' || c == '[').next() == Some(prefix)
        });
        if !dup && self.fails.len() < 512 {
            let label = self.cur_label();
            self.fails.push(Fail { kind, label, expected, observed });
        }
    }

    /// checks (a) and (c) now, records the piece for (b)
    fn piece(&mut self, p: HipStr<'h, B>, std_piece: &str) {
        self.pieces_total += 1;
        let base = self.h.as_ptr() as usize;
        let sp = std_piece.as_ptr() as usize;
        let (off, len) = if sp >= base && sp + std_piece.len() <= base + self.h.len() {
            (sp - base, std_piece.len())
        } else if std_piece.is_empty() {
            (0, 0)
        } else {
            self.fail("monitor:std-contract", "std piece inside the haystack".into(), "std piece outside the haystack".into());
            return;
        };
        // (a)
        if p.is_borrowed() != self.src_borrowed {
            self.fail(
                "monitor:borrowed-flag",
                format!("piece {} is_borrowed={}", hex(std_piece.as_bytes()), self.src_borrowed),
                format!("is_borrowed={}", p.is_borrowed()),
            );
        } else if self.src_borrowed && p.as_ptr() as usize != sp {
            self.fail(
                "monitor:alias",
                format!("borrowed piece {} aliases the original data at offset {off}", hex(std_piece.as_bytes())),
                format!("pointer offset {}", (p.as_ptr() as usize).wrapping_sub(base) as isize),
            );
        }
        // (c)
        if std::str::from_utf8(p.as_bytes()).is_err() {
            self.fail("monitor:utf8", "valid UTF-8".into(), format!("bytes {}", hex(p.as_bytes())));
        }
        let normalized = p.is_inline() || p.is_borrowed() || p.len() > INLINE_CAP;
        if !normalized {
            self.fail("monitor:normalised", "normalised representation".into(), format!("allocated with len {}", p.len()));
        }
        self.repr_counts[if p.is_inline() {
            0
        } else if p.is_borrowed() {
            1
        } else {
            2
        }] += 1;
        if !self.cur_pushed {
            self.calls_meta.push(self.cur);
            self.cur_pushed = true;
        }
        let call = (self.calls_meta.len() - 1) as u32;
        self.pieces.push(Piece { p, off: off as u32, len: len as u32, call });
    }

    /// (b): every recorded piece still reads the std piece
    fn verify(&mut self, stage: &'static str, kind: &'static str) {
        let mut bad: Vec<(u32, String, String)> = vec![];
        for pc in &self.pieces {
            let want = &self.h.as_bytes()[pc.off as usize..(pc.off + pc.len) as usize];
            let got = pc.p.as_bytes();
            if got != want {
                bad.push((
                    pc.call,
                    format!("piece {} {stage}", hex(want)),
                    format!("{} is_borrowed={}", hex(got), pc.p.is_borrowed()),
                ));
                if bad.len() >= 8 {
                    break;
                }
            }
        }
        for (call, e, o) in bad {
            self.cur = self.calls_meta[call as usize];
            self.fail(kind, e, o);
        }
    }
}

/// lockstep comparison of one pull
fn pair<'h, B: Backend, H: HipItem<'h, B>, S: Item>(cx: &mut Cx<'h, '_, B>, a: Option<H>, b: Option<S>) -> Result<bool, ()> {
    match (a, b) {
        (None, None) => Ok(false),
        (Some(x), Some(y)) => {
            if x.idx() != y.idx() || x.text() != y.text() {
                return Err(());
            }
            // the std piece pointer: `y.text()` points into the haystack
            let sp: &str = y.text();
            let sp: &str = unsafe { std::str::from_utf8_unchecked(std::slice::from_raw_parts(sp.as_ptr(), sp.len())) };
            cx.piece(x.into_hip(), sp);
            Ok(true)
        }
        _ => Err(()),
    }
}

fn lock_fwd<'h, B, HI, SI>(cx: &mut Cx<'h, '_, B>, mut hi: HI, mut si: SI) -> Result<usize, ()>
where
    B: Backend,
    HI: Iterator,
    HI::Item: HipItem<'h, B>,
    SI: Iterator,
    SI::Item: Item,
{
    let mut n = 0;
    while pair(cx, hi.next(), si.next())? {
        n += 1;
        if n > 4096 {
            return Err(());
        }
    }
    // exhausted: stays exhausted on both sides
    if pair(cx, hi.next(), si.next())? {
        return Err(());
    }
    Ok(n)
}

fn lock_de<'h, B, HI, SI>(cx: &mut Cx<'h, '_, B>, mut hi: HI, mut si: SI, dir: Dir) -> Result<usize, ()>
where
    B: Backend,
    HI: DoubleEndedIterator,
    HI::Item: HipItem<'h, B>,
    SI: DoubleEndedIterator,
    SI::Item: Item,
{
    let mut n = 0;
    loop {
        let front = match dir {
            Dir::Fwd => true,
            Dir::Back => false,
            Dir::Mixed => mixed_front(n),
        };
        let more = if front { pair(cx, hi.next(), si.next())? } else { pair(cx, hi.next_back(), si.next_back())? };
        if !more {
            break;
        }
        n += 1;
        if n > 4096 {
            return Err(());
        }
    }
    if pair(cx, hi.next(), si.next())? || pair(cx, hi.next_back(), si.next_back())? {
        return Err(());
    }
    Ok(n)
}

fn caught<T>(f: impl FnOnce() -> T) -> Option<T> {
    catch_unwind(AssertUnwindSafe(f)).ok()
}

static AB: [char; 2] = ['a', 'b'];
static SP_NL: [char; 2] = [' ', '\n'];
static E_CRAB: [char; 2] = ['é', '🦀'];
static ONLY_A: [char; 1] = ['a'];
static ONLY_SP: [char; 1] = [' '];
static NONE: [char; 0] = [];


// ----- call-site macros; `$c` = `[cx src h]` (the three locals of the enclosing fn)

/// iterator-valued method, one direction
macro_rules! it_dir {
    ([$cx:ident $src:ident $h:ident], $name:literal, $pat:expr, $n:expr, $dir:expr, $lock:ident, $collect:ident, [$($extra:expr),*], $m:ident ( $($a:expr),* )) => {
        if $cx.begin($name, $pat, $n, $dir) {
            let r = caught(|| $lock($cx, $src.$m($($a),*), $h.$m($($a),*) $(, $extra)*));
            match r {
                Some(Ok(k)) => {
                    if k >= 2 {
                        $cx.nontrivial += 1;
                    }
                    if $cx.want_sample {
                        $cx.want_sample = false;
                        let e = show_list(&$collect($h.$m($($a),*) $(, $extra)*));
                        let l = $cx.cur_label();
                        $cx.samples.push(format!("hay {} {l} -> {e}", hex($h.as_bytes())));
                    }
                }
                other => {
                    let e = show_list(&$collect($h.$m($($a),*) $(, $extra)*));
                    let o = match caught(|| show_list(&$collect($src.$m($($a),*) $(, $extra)*))) {
                        Some(o) if other.is_some() => o,
                        _ => "panic".to_string(),
                    };
                    $cx.fail("impl-vs-oracle", e, o);
                }
            }
        }
    };
}
macro_rules! it_fwd {
    ($c:tt, $name:literal, $pat:expr, $n:expr, $m:ident ( $($a:expr),* )) => {
        it_dir!($c, $name, $pat, $n, Dir::Fwd, lock_fwd, collect_fwd, [], $m($($a),*));
    };
}
macro_rules! it_de {
    ($c:tt, $name:literal, $pat:expr, $m:ident ( $($a:expr),* )) => {
        it_dir!($c, $name, $pat, None, Dir::Fwd, lock_de, collect_de, [Dir::Fwd], $m($($a),*));
        it_dir!($c, $name, $pat, None, Dir::Back, lock_de, collect_de, [Dir::Back], $m($($a),*));
        it_dir!($c, $name, $pat, None, Dir::Mixed, lock_de, collect_de, [Dir::Mixed], $m($($a),*));
    };
}

fn show_opt(e: Option<&str>) -> String {
    e.map_or("none".to_string(), |e| format!("some({})", hex(e.as_bytes())))
}
fn show_opt2(e: Option<(&str, &str)>) -> String {
    e.map_or("none".to_string(), |(a, b)| format!("some({}|{})", hex(a.as_bytes()), hex(b.as_bytes())))
}

/// `&str`-valued method
macro_rules! one {
    ([$cx:ident $src:ident $h:ident], $name:literal, $pat:expr, $m:ident ( $($a:expr),* )) => {
        if $cx.begin($name, $pat, None, Dir::Fwd) {
            let e: &'h str = $h.$m($($a),*);
            match caught(|| $src.$m($($a),*)) {
                Some(o) if o.as_str() == e => {
                    if e.len() != $h.len() {
                        $cx.nontrivial += 1;
                    }
                    $cx.piece(o, e);
                }
                Some(o) => $cx.fail("impl-vs-oracle", hex(e.as_bytes()), hex(o.as_bytes())),
                None => $cx.fail("impl-vs-oracle", hex(e.as_bytes()), "panic".into()),
            }
        }
    };
}
/// `Option<&str>`-valued method
macro_rules! opt {
    ([$cx:ident $src:ident $h:ident], $name:literal, $pat:expr, $m:ident ( $($a:expr),* )) => {
        if $cx.begin($name, $pat, None, Dir::Fwd) {
            let e: Option<&'h str> = $h.$m($($a),*);
            match caught(|| $src.$m($($a),*)) {
                Some(o) if o.as_ref().map(|o| o.as_str()) == e => {
                    if let (Some(o), Some(e)) = (o, e) {
                        $cx.nontrivial += 1;
                        $cx.piece(o, e);
                    }
                }
                Some(o) => $cx.fail("impl-vs-oracle", show_opt(e), show_opt(o.as_ref().map(|o| o.as_str()))),
                None => $cx.fail("impl-vs-oracle", show_opt(e), "panic".into()),
            }
        }
    };
}
/// `Option<(&str, &str)>`-valued method
macro_rules! opt2 {
    ([$cx:ident $src:ident $h:ident], $name:literal, $pat:expr, $m:ident ( $($a:expr),* )) => {
        if $cx.begin($name, $pat, None, Dir::Fwd) {
            let e: Option<(&'h str, &'h str)> = $h.$m($($a),*);
            match caught(|| $src.$m($($a),*)) {
                Some(o) if o.as_ref().map(|(a, b)| (a.as_str(), b.as_str())) == e => {
                    if let (Some((oa, ob)), Some((ea, eb))) = (o, e) {
                        $cx.nontrivial += 1;
                        $cx.piece(oa, ea);
                        $cx.piece(ob, eb);
                    }
                }
                Some(o) => $cx.fail(
                    "impl-vs-oracle",
                    show_opt2(e),
                    show_opt2(o.as_ref().map(|(a, b)| (a.as_str(), b.as_str()))),
                ),
                None => $cx.fail("impl-vs-oracle", show_opt2(e), "panic".into()),
            }
        }
    };
}
/// everything that takes a pattern besides the 9 unbounded iterators; `$p` is re-evaluated per call
macro_rules! common {
    ($c:tt, $pat:expr, $p:expr) => {
        for n in 0..4usize {
            it_fwd!($c, "splitn", $pat, Some(n), splitn(n, $p));
            it_fwd!($c, "rsplitn", $pat, Some(n), rsplitn(n, $p));
        }
        opt2!($c, "split_once", $pat, split_once($p));
        opt2!($c, "rsplit_once", $pat, rsplit_once($p));
        one!($c, "trim_start_matches", $pat, trim_start_matches($p));
        one!($c, "trim_end_matches", $pat, trim_end_matches($p));
        opt!($c, "strip_prefix", $pat, strip_prefix($p));
        opt!($c, "strip_suffix", $pat, strip_suffix($p));
    };
}
/// pattern whose std searcher is not double-ended (the `&str` family)
macro_rules! pat_rev {
    ($c:tt, $pat:expr, $p:expr) => {
        it_fwd!($c, "split", $pat, None, split($p));
        it_fwd!($c, "split_inclusive", $pat, None, split_inclusive($p));
        it_fwd!($c, "split_terminator", $pat, None, split_terminator($p));
        it_fwd!($c, "rsplit", $pat, None, rsplit($p));
        it_fwd!($c, "rsplit_terminator", $pat, None, rsplit_terminator($p));
        it_fwd!($c, "matches", $pat, None, matches($p));
        it_fwd!($c, "rmatches", $pat, None, rmatches($p));
        it_fwd!($c, "match_indices", $pat, None, match_indices($p));
        it_fwd!($c, "rmatch_indices", $pat, None, rmatch_indices($p));
        common!($c, $pat, $p);
    };
}
/// pattern whose std searcher is double-ended: every iterator also backwards and mixed
macro_rules! pat_de_iter {
    ($c:tt, $pat:expr, $p:expr) => {
        it_de!($c, "split", $pat, split($p));
        it_de!($c, "split_inclusive", $pat, split_inclusive($p));
        it_de!($c, "split_terminator", $pat, split_terminator($p));
        it_de!($c, "rsplit", $pat, rsplit($p));
        it_de!($c, "rsplit_terminator", $pat, rsplit_terminator($p));
        it_de!($c, "matches", $pat, matches($p));
        it_de!($c, "rmatches", $pat, rmatches($p));
        it_de!($c, "match_indices", $pat, match_indices($p));
        it_de!($c, "rmatch_indices", $pat, rmatch_indices($p));
        common!($c, $pat, $p);
    };
}

// ----- one (non-inlined) function per pattern TYPE; hipstr's pattern traits are sealed, so each
// function is written against one concrete std pattern type (closures: the blanket impl)

#[inline(never)]
fn run_nopat<'h, B: Backend>(src: &HipStr<'h, B>, h: &'h str, cx: &mut Cx<'h, '_, B>) {
    one!([cx src h], "trim", "-", trim());
    one!([cx src h], "trim_start", "-", trim_start());
    one!([cx src h], "trim_end", "-", trim_end());
    it_de!([cx src h], "split_whitespace", "-", split_whitespace());
    it_de!([cx src h], "split_ascii_whitespace", "-", split_ascii_whitespace());
    it_de!([cx src h], "lines", "-", lines());
}
#[inline(never)]
fn run_char<'h, B: Backend>(src: &HipStr<'h, B>, h: &'h str, cx: &mut Cx<'h, '_, B>, pat: &'static str, p: char) {
    pat_de_iter!([cx src h], pat, p);
    one!([cx src h], "trim_matches", pat, trim_matches(p));
}
#[inline(never)]
fn run_str<'h, B: Backend>(src: &HipStr<'h, B>, h: &'h str, cx: &mut Cx<'h, '_, B>, pat: &'static str, p: &str) {
    pat_rev!([cx src h], pat, p);
}
#[inline(never)]
fn run_refstr<'h, B: Backend>(src: &HipStr<'h, B>, h: &'h str, cx: &mut Cx<'h, '_, B>, pat: &'static str, p: &&str) {
    pat_rev!([cx src h], pat, p);
}
#[inline(never)]
fn run_string<'h, B: Backend>(src: &HipStr<'h, B>, h: &'h str, cx: &mut Cx<'h, '_, B>, pat: &'static str, p: &String) {
    pat_rev!([cx src h], pat, p);
}
#[inline(never)]
fn run_slice<'h, B: Backend>(src: &HipStr<'h, B>, h: &'h str, cx: &mut Cx<'h, '_, B>, pat: &'static str, p: &[char]) {
    pat_de_iter!([cx src h], pat, p);
    one!([cx src h], "trim_matches", pat, trim_matches(p));
}
/// `&[char; N]`: std's searcher is double-ended, hipstr registers the type as `reverse` (no `trim_matches`)
#[inline(never)]
fn run_array<'h, B: Backend, const N: usize>(
    src: &HipStr<'h, B>,
    h: &'h str,
    cx: &mut Cx<'h, '_, B>,
    pat: &'static str,
    p: &[char; N],
) {
    pat_de_iter!([cx src h], pat, p);
}
#[inline(never)]
fn run_fn<'h, B: Backend, F: FnMut(char) -> bool + Clone>(
    src: &HipStr<'h, B>,
    h: &'h str,
    cx: &mut Cx<'h, '_, B>,
    pat: &'static str,
    p: F,
) {
    pat_de_iter!([cx src h], pat, p.clone());
    one!([cx src h], "trim_matches", pat, trim_matches(p.clone()));
}

/// Runs every inherited piece-returning method with every pattern on one source.
fn run_all<'h, B: Backend>(src: &HipStr<'h, B>, h: &'h str, cx: &mut Cx<'h, '_, B>) {
    run_nopat(src, h, cx);
    // char
    run_char(src, h, cx, "char:a", 'a');
    run_char(src, h, cx, "char:b", 'b');
    run_char(src, h, cx, "char:space", ' ');
    run_char(src, h, cx, "char:nl", '\n');
    run_char(src, h, cx, "char:cr", '\r');
    run_char(src, h, cx, "char:e-acute", 'é');
    run_char(src, h, cx, "char:euro", '€');
    run_char(src, h, cx, "char:crab", '🦀');
    // &str (incl. empty and overlapping)
    run_str(src, h, cx, "str:", "");
    run_str(src, h, cx, "str:a", "a");
    run_str(src, h, cx, "str:aa", "aa");
    run_str(src, h, cx, "str:ab", "ab");
    run_str(src, h, cx, "str:ba", "ba");
    run_str(src, h, cx, "str:space", " ");
    run_str(src, h, cx, "str:nl", "\n");
    run_str(src, h, cx, "str:crnl", "\r\n");
    run_str(src, h, cx, "str:e-acute", "é");
    run_str(src, h, cx, "str:euro-a", "€a");
    run_str(src, h, cx, "str:crab", "🦀");
    run_str(src, h, cx, "str:a-space", "a ");
    // &&str
    run_refstr(src, h, cx, "refstr:a", &"a");
    run_refstr(src, h, cx, "refstr:", &"");
    // &String
    let s_aa = String::from("aa");
    let s_empty = String::new();
    let s_e = String::from("é");
    run_string(src, h, cx, "string:aa", &s_aa);
    run_string(src, h, cx, "string:", &s_empty);
    run_string(src, h, cx, "string:e-acute", &s_e);
    // &[char]
    run_slice(src, h, cx, "slice:", &NONE[..]);
    run_slice(src, h, cx, "slice:a", &ONLY_A[..]);
    run_slice(src, h, cx, "slice:ab", &AB[..]);
    run_slice(src, h, cx, "slice:space-nl", &SP_NL[..]);
    run_slice(src, h, cx, "slice:e-acute-crab", &E_CRAB[..]);
    // &[char; N]
    run_array(src, h, cx, "array:ab", &AB);
    run_array(src, h, cx, "array:space", &ONLY_SP);
    run_array(src, h, cx, "array:", &NONE);
    // closures and fn items
    run_fn(src, h, cx, "fn:eq-a", |c: char| c == 'a');
    run_fn(src, h, cx, "fn:alphabetic", |c: char| c.is_alphabetic());
    run_fn(src, h, cx, "fn:non-ascii", |c: char| !c.is_ascii());
    run_fn(src, h, cx, "fn:is_whitespace", char::is_whitespace);
    run_fn(src, h, cx, "fn:true", |_c: char| true);
    run_fn(src, h, cx, "fn:false", |_c: char| false);
    let mut k = 0u32;
    run_fn(src, h, cx, "fn:stateful-every-2nd", move |_c: char| {
        k += 1;
        k % 2 == 0
    });
}

// ---------------------------------------------------------------------------------------------
// sources

#[derive(Clone, Copy, PartialEq, Debug)]
enum Kind {
    Inline,
    Borrowed,
    Heap,
    HeapSlice,
}
impl Kind {
    fn name(self) -> &'static str {
        match self {
            Kind::Inline => "inline",
            Kind::Borrowed => "borrowed",
            Kind::Heap => "heap",
            Kind::HeapSlice => "heapslice",
        }
    }
    fn parse(s: &str) -> Option<Kind> {
        Some(match s {
            "inline" => Kind::Inline,
            "borrowed" => Kind::Borrowed,
            "heap" => Kind::Heap,
            "heapslice" => Kind::HeapSlice,
            _ => return None,
        })
    }
}

#[derive(Clone, Copy, PartialEq, Debug)]
enum Bk {
    Arc,
    Rc,
    Unique,
}
impl Bk {
    fn name(self) -> &'static str {
        match self {
            Bk::Arc => "Arc",
            Bk::Rc => "Rc",
            Bk::Unique => "Unique",
        }
    }
    fn parse(s: &str) -> Option<Bk> {
        Some(match s {
            "Arc" => Bk::Arc,
            "Rc" => Bk::Rc,
            "Unique" => Bk::Unique,
            _ => return None,
        })
    }
}

#[derive(Default)]
struct Stats {
    evaluations: u64,
    nontrivial: u64,
    pieces: u64,
    sources: u64,
    dist: BTreeMap<String, u64>,
    samples: Vec<String>,
    /// key = kind + label  →  (haystack, source kind, backend, fail); the shortest haystack wins
    found: BTreeMap<String, (String, Kind, Bk, Fail)>,
    total_fails: u64,
    internal: Vec<String>,
}
impl Stats {
    fn hit(&mut self, k: &str, n: u64) {
        *self.dist.entry(k.to_string()).or_insert(0) += n;
    }
}

/// Builds the source, runs everything, then mutates and drops the source and re-reads every piece.
fn run_source<B: Backend>(h: &str, kind: Kind, filter: Option<&str>, sample: Option<u64>) -> (Vec<Fail>, SrcStats) {
    // heapslice: the haystack sits at an offset inside a bigger heap buffer
    let big: String = format!("0123456789-{h}-9876543210");
    let src: HipStr<'_, B> = match kind {
        Kind::Inline | Kind::Heap => HipStr::from(h),
        Kind::Borrowed => HipStr::borrowed(h),
        Kind::HeapSlice => {
            let b: HipStr<'_, B> = HipStr::from(big.as_str());
            b.slice(11..11 + h.len())
            // `b` dropped here: the slice is the only owner of the big buffer
        }
    };
    let mut cx: Cx<'_, '_, B> = Cx::new(h, src.is_borrowed(), filter);
    cx.sample_at = sample;
    let src_class = if src.is_inline() {
        "inline"
    } else if src.is_borrowed() {
        "borrowed"
    } else {
        "allocated"
    };
    let expected_class = match kind {
        Kind::Borrowed => "borrowed",
        _ if h.len() <= INLINE_CAP => "inline",
        _ => "allocated",
    };
    if src_class != expected_class {
        cx.cur = ("source", "-", None, Dir::Fwd);
        cx.fail("monitor:source", format!("source representation {expected_class}"), src_class.to_string());
    }
    run_all(&src, h, &mut cx);
    // (b) mutate the source in place, then drop it
    let mut src = src;
    let mutated = caught(AssertUnwindSafe(|| {
        src.make_ascii_uppercase();
        src.push_str("Xa b\u{e9}");
        src.len()
    }));
    if mutated != Some(h.len() + 6) {
        cx.cur = ("source", "-", None, Dir::Fwd);
        cx.fail("monitor:source", format!("mutated source of len {}", h.len() + 6), format!("{mutated:?}"));
    }
    cx.verify("after-source-mutation", "monitor:after-source-mutation");
    drop(src);
    cx.verify("after-source-drop", "monitor:after-source-drop");
    let st = SrcStats {
        calls: cx.calls,
        nontrivial: cx.nontrivial,
        pieces: cx.pieces_total,
        repr: cx.repr_counts,
        per_method: std::mem::take(&mut cx.per_method),
        samples: std::mem::take(&mut cx.samples),
        src_class,
    };
    let fails = std::mem::take(&mut cx.fails);
    if fails.iter().any(|f| f.kind.starts_with("monitor")) {
        // a broken share count must not take the report down with a double free
        std::mem::forget(std::mem::take(&mut cx.pieces));
    }
    drop(cx);
    (fails, st)
}

struct SrcStats {
    calls: u64,
    nontrivial: u64,
    pieces: u64,
    repr: [u64; 3],
    per_method: BTreeMap<&'static str, u64>,
    samples: Vec<String>,
    src_class: &'static str,
}

fn run_dyn(h: &str, kind: Kind, bk: Bk, filter: Option<&str>, sample: Option<u64>) -> (Vec<Fail>, SrcStats) {
    match bk {
        Bk::Arc => run_source::<Arc>(h, kind, filter, sample),
        Bk::Rc => run_source::<Rc>(h, kind, filter, sample),
        Bk::Unique => run_source::<Unique>(h, kind, filter, sample),
    }
}

fn account(st: &mut Stats, h: &str, kind: Kind, bk: Bk, sample: Option<u64>) {
    let (fails, ss) = run_dyn(h, kind, bk, None, sample);
    st.evaluations += ss.calls;
    st.nontrivial += ss.nontrivial;
    st.pieces += ss.pieces;
    st.sources += 1;
    st.hit(&format!("source {} {}", ss.src_class, bk.name()), 1);
    st.hit("piece inline", ss.repr[0]);
    st.hit("piece borrowed", ss.repr[1]);
    st.hit("piece allocated", ss.repr[2]);
    for (m, n) in ss.per_method {
        st.hit(&format!("method {m}"), n);
    }
    for s in ss.samples {
        if st.samples.len() < 12 {
            st.samples.push(format!("{s} [{} {}]", kind.name(), bk.name()));
        }
    }
    for f in fails {
        st.total_fails += 1;
        // one report per (impl-vs-oracle, method): the shortest haystack, first pattern in enumeration order
        // (monitor checks: one per check class)
        let method = f.label.split(|c| c == ' ' || c == '[').next().unwrap_or("");
        let key = if f.kind.starts_with("monitor") { f.kind.to_string() } else { format!("{} {method}", f.kind) };
        let better = st.found.get(&key).map_or(true, |(old, ..)| h.len() < old.len());
        if better {
            st.found.insert(key, (h.to_string(), kind, bk, f));
        }
    }
}

/// deletes characters from the haystack while the same (kind, label) disagreement reproduces
fn shrink(h: &str, kind: Kind, bk: Bk, f: Fail) -> (String, Fail) {
    let mut cur = h.to_string();
    let mut cur_fail = f;
    let mut rounds = 0;
    'outer: loop {
        rounds += 1;
        if rounds > 200 {
            break;
        }
        let chars: Vec<char> = cur.chars().collect();
        for i in 0..chars.len() {
            let cand: String = chars.iter().enumerate().filter(|(j, _)| *j != i).map(|(_, c)| *c).collect();
            // a heap source needs more than 23 bytes: keep the source kind meaningful
            if matches!(kind, Kind::Heap | Kind::HeapSlice) && cand.len() <= INLINE_CAP {
                continue;
            }
            let (fails, _) = run_dyn(&cand, kind, bk, Some(&cur_fail.label), None);
            if let Some(nf) = fails.into_iter().find(|x| x.kind == cur_fail.kind && x.label == cur_fail.label) {
                cur = cand;
                cur_fail = nf;
                continue 'outer;
            }
        }
        break;
    }
    (cur, cur_fail)
}

// ---------------------------------------------------------------------------------------------
// allocating functions

fn owned_checks(st: &mut Stats, thorough: bool, rng: &mut Rng) {
    fn check<B: Backend>(st: &mut Stats, bk: Bk, what: &str, input: &str, got: Option<HipStr<'_, B>>, want: &str) {
        st.evaluations += 1;
        st.hit(&format!("method {what}"), 1);
        let ok = match &got {
            Some(g) => {
                g.as_bytes() == want.as_bytes()
                    && std::str::from_utf8(g.as_bytes()).is_ok()
                    && (g.is_inline() || g.is_borrowed() || g.len() > INLINE_CAP)
            }
            None => false,
        };
        if want != input {
            st.nontrivial += 1;
        }
        if !ok {
            st.total_fails += 1;
            let key = format!("impl-vs-oracle {what}");
            let better = st.found.get(&key).map_or(true, |(old, ..)| input.len() < old.len());
            if better {
                let observed = match &got {
                    Some(g) => format!("{} normalized={}", hex(g.as_bytes()), g.is_inline() || g.is_borrowed() || g.len() > INLINE_CAP),
                    None => "panic".into(),
                };
                st.found.insert(
                    key,
                    (
                        input.to_string(),
                        Kind::Inline,
                        bk,
                        Fail { kind: "impl-vs-oracle", label: what.to_string(), expected: hex(want.as_bytes()), observed },
                    ),
                );
            }
        }
    }
    fn case_all<B: Backend>(st: &mut Stats, bk: Bk, h: &str) {
        for borrowed in [false, true] {
            let src: HipStr<'_, B> = if borrowed { HipStr::borrowed(h) } else { HipStr::from(h) };
            check::<B>(st, bk, "to_lowercase", h, caught(|| src.to_lowercase()), &h.to_lowercase());
            check::<B>(st, bk, "to_uppercase", h, caught(|| src.to_uppercase()), &h.to_uppercase());
            check::<B>(st, bk, "to_ascii_lowercase", h, caught(|| src.to_ascii_lowercase()), &h.to_ascii_lowercase());
            check::<B>(st, bk, "to_ascii_uppercase", h, caught(|| src.to_ascii_uppercase()), &h.to_ascii_uppercase());
            for n in [0usize, 1, 2, 3, 7] {
                check::<B>(st, bk, "repeat", h, caught(|| src.repeat(n)), &h.repeat(n));
            }
            // the source is untouched by the copies
            if src.as_str() != h {
                st.internal.push(format!("source changed by a to_*case/repeat call: {}", hex(h.as_bytes())));
            }
        }
    }
    // case-sensitive alphabet: ASCII both cases, ß (→ SS), İ (→ i̇), Σ/σ (final sigma), ǅ (title case), ﬁ (→ FI), é
    let alpha: [&str; 8] = ["a", "Z", "ß", "İ", "Σ", "ǅ", "ﬁ", "É"];
    let max = if thorough { 4 } else { 3 };
    let mut all: Vec<String> = vec![String::new()];
    let mut frontier = vec![String::new()];
    for _ in 0..max {
        let mut next = vec![];
        for f in &frontier {
            for a in alpha {
                next.push(format!("{f}{a}"));
            }
        }
        all.extend(next.iter().cloned());
        frontier = next;
    }
    for _ in 0..(if thorough { 2000 } else { 200 }) {
        let n = 5 + rng.below(30);
        all.push((0..n).map(|_| *rng.pick(&alpha)).collect());
    }
    for (i, h) in all.iter().enumerate() {
        match i % 3 {
            _ if thorough || h.chars().count() <= 2 => {
                case_all::<Arc>(st, Bk::Arc, h);
                case_all::<Rc>(st, Bk::Rc, h);
                case_all::<Unique>(st, Bk::Unique, h);
            }
            0 => case_all::<Arc>(st, Bk::Arc, h),
            1 => case_all::<Rc>(st, Bk::Rc, h),
            _ => case_all::<Unique>(st, Bk::Unique, h),
        }
    }

    // from_utf16 / from_utf16_lossy: units incl. a surrogate pair (🦀 = D83E DD80) and lone surrogates
    fn utf16<B: Backend>(st: &mut Stats, bk: Bk, v: &[u16]) {
        let input: String = v.iter().map(|u| format!("{u:04x}")).collect::<Vec<_>>().join(" ");
        st.evaluations += 2;
        st.hit("method from_utf16", 1);
        st.hit("method from_utf16_lossy", 1);
        let want = String::from_utf16(v);
        let got = caught(|| HipStr::<'static, B>::from_utf16(v));
        let show = |r: &Result<String, ()>| match r {
            Ok(s) => format!("ok({})", hex(s.as_bytes())),
            Err(()) => "err".to_string(),
        };
        let w = want.map_err(|_| ());
        let g = match &got {
            Some(Ok(g)) => Some(Ok(g.as_str().to_string())),
            Some(Err(_)) => Some(Err(())),
            None => None,
        };
        let norm = |g: &HipStr<'_, B>| g.is_inline() || g.is_borrowed() || g.len() > INLINE_CAP;
        let ok = g.as_ref() == Some(&w) && !matches!(&got, Some(Ok(g)) if !norm(g));
        if w.is_err() {
            st.nontrivial += 1;
        }
        let mut report = |what: &str, expected: String, observed: String| {
            st.total_fails += 1;
            let key = format!("impl-vs-oracle {what}");
            let better = st.found.get(&key).map_or(true, |(old, ..)| input.len() < old.len());
            if better {
                st.found.insert(
                    key,
                    (input.clone(), Kind::Inline, bk, Fail { kind: "impl-vs-oracle", label: what.to_string(), expected, observed }),
                );
            }
        };
        if !ok {
            report("from_utf16", show(&w), g.as_ref().map_or("panic".to_string(), show));
        }
        let want_l = String::from_utf16_lossy(v);
        let got_l = caught(|| HipStr::<'static, B>::from_utf16_lossy(v));
        let ok_l = matches!(&got_l, Some(g) if g.as_str() == want_l && norm(g));
        if !ok_l {
            report(
                "from_utf16_lossy",
                hex(want_l.as_bytes()),
                got_l.map_or("panic".to_string(), |g| hex(g.as_bytes())),
            );
        }
    }
    let units: [u16; 8] = [0x0061, 0x00E9, 0x20AC, 0xD83E, 0xDD80, 0xD800, 0xDC00, 0x0000];
    let max = if thorough { 5 } else { 4 };
    let mut all: Vec<Vec<u16>> = vec![vec![]];
    let mut frontier: Vec<Vec<u16>> = vec![vec![]];
    for _ in 0..max {
        let mut next = vec![];
        for f in &frontier {
            for u in units {
                let mut g = f.clone();
                g.push(u);
                next.push(g);
            }
        }
        all.extend(next.iter().cloned());
        frontier = next;
    }
    for _ in 0..(if thorough { 5000 } else { 500 }) {
        let n = 5 + rng.below(40);
        all.push((0..n).map(|_| *rng.pick(&units)).collect());
    }
    for (i, v) in all.iter().enumerate() {
        match i % 3 {
            0 => utf16::<Arc>(st, Bk::Arc, v),
            1 => utf16::<Rc>(st, Bk::Rc, v),
            _ => utf16::<Unique>(st, Bk::Unique, v),
        }
    }
}

// ---------------------------------------------------------------------------------------------

const UNITS: [&str; 8] = ["a", "b", " ", "\n", "\r\n", "é", "€", "🦀"];

fn parse_ops(lines: &[String]) -> Option<(String, Kind, Bk, Option<String>)> {
    let mut hay = None;
    let mut call = None;
    for l in lines {
        let w: Vec<&str> = l.split(' ').collect();
        match w.as_slice() {
            ["hay", hx, k, b] => {
                let bytes = unhex(hx)?;
                hay = Some((String::from_utf8(bytes).ok()?, Kind::parse(k)?, Bk::parse(b)?));
            }
            ["call", ..] => call = Some(l["call ".len()..].to_string()),
            _ => return None,
        }
    }
    let (h, k, b) = hay?;
    Some((h, k, b, call))
}

fn main() {
    let cli = parse_cli();
    std::panic::set_hook(Box::new(|_| {}));
    let thorough = cli.tier == "thorough";
    let mut st = Stats::default();
    let mut rng = Rng::new(cli.seed);
    let profile = if cfg!(debug_assertions) { "debug" } else { "release" };
    let mut model_reports: Vec<serde_json::Value> = vec![];

    // optional: the wiring table must have no falsifying row
    if let Some(path) = &cli.lean {
        match LeanDriver::spawn(path, &[]).and_then(|mut d| d.ask("rows")) {
            Ok(ans) if ans == "none" => st.hit("lean wiring rows ok", 1),
            Ok(ans) => model_reports.push(serde_json::json!({
                "kind": "impl-vs-model", "input": ["rows"], "expected": "none", "observed": ans, "profile": profile,
            })),
            Err(e) => {
                eprintln!("patdrive: lean driver: {e}");
                std::process::exit(2);
            }
        }
    }

    if let Some(path) = &cli.replay {
        // a disagreement object, a stats file with `disagreements`, or `{"input":[…]}`
        let text = std::fs::read_to_string(path).unwrap_or_else(|e| {
            eprintln!("patdrive: {path}: {e}");
            std::process::exit(2)
        });
        let v: serde_json::Value = serde_json::from_str(&text).unwrap_or_else(|e| {
            eprintln!("patdrive: {path}: {e}");
            std::process::exit(2)
        });
        let cases: Vec<serde_json::Value> = match v.get("disagreements").and_then(|d| d.as_array()) {
            Some(a) => a.clone(),
            None => vec![v.clone()],
        };
        for c in cases {
            let lines: Vec<String> = c
                .get("input")
                .and_then(|i| i.as_array())
                .map(|a| a.iter().filter_map(|x| x.as_str().map(str::to_string)).collect())
                .unwrap_or_default();
            let Some((h, k, b, call)) = parse_ops(&lines) else {
                if lines == ["rows"] {
                    continue;
                }
                eprintln!("patdrive: cannot parse replay input {lines:?}");
                std::process::exit(2);
            };
            let (fails, ss) = run_dyn(&h, k, b, call.as_deref(), None);
            st.evaluations += ss.calls;
            st.pieces += ss.pieces;
            st.sources += 1;
            for f in fails {
                st.total_fails += 1;
                st.found.insert(format!("{} {} {}", f.kind, f.label, hex(h.as_bytes())), (h.clone(), k, b, f));
            }
        }
    } else {
        // ---- exhaustive part: all strings of at most `max_units` units
        let max_units = if thorough { 6 } else { 4 };
        // every backend up to this many units; above, the backend rotates with the haystack index
        let all_backends_upto = if thorough { 5 } else { 4 };
        let mut idx: Vec<usize> = vec![];
        let mut count = 0u64;
        let mut h = String::new();
        loop {
            h.clear();
            for &i in &idx {
                h.push_str(UNITS[i]);
            }
            count += 1;
            let sample = if count % 467 == 1 { Some(count * 37 % 1300) } else { None };
            let kinds: &[Kind] = if h.len() <= INLINE_CAP { &[Kind::Inline, Kind::Borrowed] } else { &[Kind::Heap, Kind::HeapSlice, Kind::Borrowed] };
            let bks: Vec<Bk> = if idx.len() <= all_backends_upto {
                vec![Bk::Arc, Bk::Rc, Bk::Unique]
            } else {
                vec![[Bk::Arc, Bk::Rc, Bk::Unique][(count % 3) as usize]]
            };
            for &k in kinds {
                for &b in &bks {
                    account(&mut st, &h, k, b, if k == Kind::Inline && b == bks[0] { sample } else { None });
                }
            }
            // next index vector (shortlex)
            let mut pos = idx.len();
            loop {
                if pos == 0 {
                    idx = vec![0; idx.len() + 1];
                    break;
                }
                pos -= 1;
                if idx[pos] + 1 < UNITS.len() {
                    idx[pos] += 1;
                    for x in idx.iter_mut().skip(pos + 1) {
                        *x = 0;
                    }
                    break;
                }
            }
            if idx.len() > max_units {
                break;
            }
        }
        st.hit("haystacks enumerated", count);

        // ---- random longer haystacks: heap, heap offset slices, borrowed (and inline when short)
        let n_random = if thorough { 6000 } else { 600 };
        for r in 0..n_random {
            let n = if r % 4 == 0 { 5 + rng.below(6) } else { 8 + rng.below(40) };
            // skewed alphabets so that long matches / separators runs occur
            let skew = rng.below(4);
            let mut h = String::new();
            for _ in 0..n {
                let u = match skew {
                    0 => rng.below(8),
                    1 => [0, 0, 0, 1, 2, 5][rng.below(6)],
                    2 => [2, 3, 4, 0, 2, 7][rng.below(6)],
                    _ => [0, 1, 5, 6, 7, 4][rng.below(6)],
                };
                h.push_str(UNITS[u]);
            }
            let kinds: &[Kind] = if h.len() <= INLINE_CAP { &[Kind::Inline, Kind::Borrowed] } else { &[Kind::Heap, Kind::HeapSlice, Kind::Borrowed] };
            for &k in kinds {
                for b in [Bk::Arc, Bk::Rc, Bk::Unique] {
                    account(&mut st, &h, k, b, if r % 50 == 0 && k == Kind::HeapSlice && b == Bk::Arc { Some(r as u64 * 7 % 1300) } else { None });
                }
            }
        }
        st.hit("haystacks random", n_random as u64);

        owned_checks(&mut st, thorough, &mut rng);
    }

    // ---- report
    let mut disagreements: Vec<serde_json::Value> = model_reports;
    let found = std::mem::take(&mut st.found);
    for (_, (h, kind, bk, f)) in found.into_iter().take(40) {
        let is_piece_method = f.label.contains(" pat=");
        let (h, f) = if is_piece_method && cli.replay.is_none() { shrink(&h, kind, bk, f) } else { (h, f) };
        let input = if is_piece_method {
            vec![format!("hay {} {} {}", hex(h.as_bytes()), kind.name(), bk.name()), format!("call {}", f.label)]
        } else {
            vec![format!("{} {} {}", f.label, bk.name(), if f.label.starts_with("from_utf16") { h.clone() } else { hex(h.as_bytes()) })]
        };
        let (kind, check) = f.kind.split_once(':').unwrap_or((f.kind, ""));
        let expected = if check.is_empty() { f.expected.clone() } else { format!("[{check}] {}", f.expected) };
        disagreements.push(serde_json::json!({
            "kind": kind, "input": input, "expected": expected, "observed": f.observed, "profile": profile,
        }));
    }
    let n_dis = disagreements.len();
    let stats = serde_json::json!({
        "evaluations": st.evaluations,
        "distinct_nontrivial": st.nontrivial,
        "rule": "every inherited str method of HipStr yields item for item (strings, indices, tuple halves, Option) what std yields on as_str(), forward/backward/mixed; every piece is borrowed iff the source is (aliasing the original data), valid UTF-8, normalised, and unchanged after the source is mutated and after it is dropped",
        "exhaustive": cli.replay.is_none(),
        "distribution": st.dist,
        "pieces_checked": st.pieces,
        "sources": st.sources,
        "failing_checks_total": st.total_fails,
        "samples": st.samples,
        "disagreements": disagreements,
        "internal_errors": st.internal,
    });
    let text = serde_json::to_string_pretty(&stats).unwrap();
    match &cli.out {
        Some(p) => std::fs::write(p, &text).expect("write stats"),
        None => println!("{text}"),
    }
    eprintln!(
        "patdrive[{profile}/{}]: {} calls, {} pieces, {} sources, {} disagreement(s)",
        cli.tier, st.evaluations, st.pieces, st.sources, n_dis
    );
    if !st.internal.is_empty() {
        std::process::exit(2);
    }
    std::process::exit(if n_dis == 0 { 0 } else { 1 });
}
