//! C11 correspondence: every inherited `str` method of `HipStr` against std's method on `as_str()`,
//! item by item, plus self-sufficiency of every yielded piece.
//!
//! Haystacks: ALL strings of at most 4 (quick) / 6 (thorough) units over
//! `{a, b, ' ', '\n', "\r\n", é, €, 🦀}` — as inline and as borrowed sources — plus random longer
//! ones (heap, heap offset-slice of a bigger buffer, borrowed, inline), on the backends Arc, Rc, Unique.
//! CLASS alphabet (second exhaustive sweep, for the methods whose std semantics depend on Unicode
//! properties — `trim*`, `split_whitespace` vs `split_ascii_whitespace`, `lines`, char-predicate patterns
//! `char::is_whitespace` / `is_alphanumeric` / `is_numeric` / ASCII whitespace / `is_control` in
//! `split`/`matches`/`rmatches`/`match_indices`/`trim_*matches`/`strip_*`): all strings of at most 3
//! (thorough: 4) units over `CLASS_UNITS` = TAB, LF, VT, FF, CR, U+001C..U+001F (controls that are NOT
//! White_Space), SPACE, NEL U+0085, NBSP U+00A0, U+1680, U+2003, LS U+2028, PS U+2029, U+202F, U+205F,
//! U+3000, U+FEFF (NOT whitespace), `a`, `é`, `1`; every such haystack runs the class methods
//! exhaustively (inline and borrowed; three backends up to 2 units, rotating above in quick), every 53rd
//! also the full pattern grid; random
//! longer ones give heap sources. The alphabet and the per-method hit counts are in `distribution`
//! (`classes unit …`, `classes method …`).
//! Patterns: `char`, `&str` (incl. empty and overlapping), `&&str`, `&String`, `&[char]`, `&[char; N]`,
//! closures (incl. a stateful `FnMut`), `char::is_whitespace`; `n ∈ 0..4` for `splitn`/`rsplitn`;
//! iteration forward, backward and mixed front/back wherever std's iterator is double-ended.
//!
//! Per call: the items (strings AND indices / tuple halves / `Option`) are compared with std in
//! lockstep; after exhaustion one more `next`/`next_back` must give `None` on both sides.
//!
//! Consumption modes of every iterator-valued method (label `dir=<mode>`), each run on BOTH sides and
//! compared item by item, the pieces going through the same piece checks:
//!   `fwd` / `back` / `mixed`   `next` / `next_back` pulls in lock-step; before every pull `size_hint()`
//!                              is checked as a CONTRACT (lower <= items actually remaining <= upper) and
//!                              against std's when the wiring table says it is forwarded;
//!   `nth` `nth_back` `nth_mixed`  repeated `nth(k)` / `nth_back(k)`, k cycling 0,1,2 (front, back, mixed ends);
//!   `last` `count` `fold` `for_each` `rfold`;
//!   `rev` (`.rev()` + `next`), `rev_nth` (`.rev().nth(k)`);
//!   `skip1` `skip2` `step_by2` `step_by3` `rev_skip1` `rev_step_by2`  the std adaptors, which call
//!                              `nth` / `nth_back` of the wrapped iterator internally.
//! `fwd` (and `back`, `mixed` for double-ended iterators) run at every call site; of the other modes ALL
//! run on haystacks of at most 2 characters and in filtered re-runs (shrinking, `--replay`), and ONE, in
//! rotation, at every other call site otherwise. The hit count of every (method x mode) pair is in
//! `distribution` (`mode <method> <mode>`); a pair that was never exercised is an internal error.
//! Per yielded piece (kind `monitor` when violated):
//!  (a) `is_borrowed()` exactly when the source was borrowed, and then its pointer IS std's piece
//!      pointer (i.e. it aliases the original borrowed data, not a copy);
//!  (b) after the source has been mutated in place (`make_ascii_uppercase`, `push_str`) and after it
//!      has been dropped, the piece still reads the same string. Before a heap piece is read at those
//!      stages its `as_ptr()..+len` is looked up in the allocator's block table: a piece that views a
//!      freed (quarantined) or unknown block is reported ("piece views freed memory") instead of read;
//!  (c) `from_utf8(piece.as_bytes())` is `Ok`, and the representation is normalised.
//! Allocating functions (`to_lowercase`, `to_uppercase`, `to_ascii_*case`, `repeat`, `from_utf16`,
//! `from_utf16_lossy`, and the in-place `make_ascii_*case`) are compared with std on a case-sensitive
//! alphabet (ß → SS, İ, final sigma at a word end, ǅ, ﬁ) and on the short class haystacks / on all short
//! `u16` sequences with lone surrogates, after a NAMED corpus (`UTF16_CORPUS`: unpaired high surrogate
//! followed by a non-surrogate unit, by another high surrogate, …).
//!
//! Op lines (`input` of a disagreement, accepted back by `--replay`):
//!   `hay <hex> <inline|borrowed|heap|heapslice> <Arc|Rc|Unique>`   then   `call <label>`
//! A disagreement found on a long haystack is shrunk by deleting characters while it reproduces.
//! `--lean <wiring_driver>` (optional): asks `rows`; anything but `none` is an `impl-vs-model` report.
//!
//! Robustness against memory-unsafety of the implementation under test:
//!  * the global allocator is `hipverif_harness::alloc::Tracking`: every source is run inside a TRACK
//!    window in which freed blocks are poisoned and quarantined (never reused, never handed back to the
//!    system before the end of the window); a second free, a free of an unknown / poisoned-looking /
//!    misaligned address is SWALLOWED and recorded; red zones and the poison of freed blocks are verified
//!    and blocks still allocated are reported at the end of the window. All of these are `monitor`
//!    disagreements (`[alloc:double-free]`, …) attributed to the stage (`@mutate-source`, `@drop-source`,
//!    `@drop-pieces`, `@end`) of the haystack at hand;
//!  * `stats.json` is rewritten atomically (tmp + rename, `"complete": false`) whenever a new
//!    disagreement is recorded and at the end (`"complete": true`); the run stops after 20 distinct
//!    disagreements, and at once — remaining handles are `mem::forget`-ed, no shrinking — when a
//!    memory-safety monitor fired (the heap may be corrupted): exit code 1;
//!  * `VERIF_TRACE=<path>`: `<path>` is overwritten (one padded line) before every haystack×method case
//!    and every stage, so that after a crash it names the case that was running.

use std::collections::BTreeMap;
use std::panic::{catch_unwind, AssertUnwindSafe};
use std::sync::atomic::{AtomicBool, AtomicU8, Ordering};
use std::sync::OnceLock;

use hipstr::string::HipStr;
use hipstr::{Arc, Backend, Rc, Unique};
use hipverif_harness::alloc;
use hipverif_harness::util::{hex, parse_cli, unhex, LeanDriver, Rng};

// ---------------------------------------------------------------------------------------------
// allocator (shared with coredrive): header + red zones, poison + quarantine of freed blocks while
// tracking, block table, swallowed bad frees

#[global_allocator]
static GLOBAL: alloc::Tracking = alloc::Tracking;

/// mirror of `alloc::MAX_ENTRIES`: once that many blocks are registered, later ones are not tracked
const TABLE_CAP: usize = 1 << 14;

fn alloc_kind(k: u8) -> &'static str {
    match k {
        alloc::V_FREE_UNKNOWN => "monitor:alloc:free-of-unknown-address",
        alloc::V_DOUBLE_FREE => "monitor:alloc:double-free",
        alloc::V_LAYOUT => "monitor:alloc:dealloc-layout-differs-from-alloc-layout",
        alloc::V_REDZONE => "monitor:alloc:red-zone-damaged",
        alloc::V_POISON => "monitor:alloc:write-into-freed-block",
        alloc::V_LEAK => "monitor:leak",
        _ => "monitor:alloc:other",
    }
}

/// monitors after which the heap cannot be trusted any more
fn is_memory_safety(kind: &str) -> bool {
    kind.starts_with("monitor:alloc")
        || kind == "monitor:freed-memory"
        || kind == "monitor:after-source-mutation"
        || kind == "monitor:after-source-drop"
}

// ---------------------------------------------------------------------------------------------
// crash localisation

static TRACE_ON: AtomicBool = AtomicBool::new(false);
static TRACE_FILE: OnceLock<std::fs::File> = OnceLock::new();

fn trace_on() -> bool {
    TRACE_ON.load(Ordering::Relaxed)
}

/// overwrites the trace file with one line (padded to 1024 bytes: a single `pwrite`, no truncation)
fn trace(line: &str) {
    if let Some(f) = TRACE_FILE.get() {
        use std::os::unix::fs::FileExt;
        let mut buf = [b' '; 1024];
        let n = line.len().min(1023);
        buf[..n].copy_from_slice(&line.as_bytes()[..n]);
        buf[1023] = b'\n';
        let _ = f.write_at(&buf, 0);
    }
}

const INLINE_CAP: usize = 23;

// ---------------------------------------------------------------------------------------------
// items

trait Item {
    fn idx(&self) -> Option<usize>;
    fn text(&self) -> &str;
}
impl Item for &str {
    fn idx(&self) -> Option<usize> {
        None
    }
    fn text(&self) -> &str {
        self
    }
}
impl Item for (usize, &str) {
    fn idx(&self) -> Option<usize> {
        Some(self.0)
    }
    fn text(&self) -> &str {
        self.1
    }
}
impl<B: Backend> Item for HipStr<'_, B> {
    fn idx(&self) -> Option<usize> {
        None
    }
    fn text(&self) -> &str {
        self.as_str()
    }
}
impl<B: Backend> Item for (usize, HipStr<'_, B>) {
    fn idx(&self) -> Option<usize> {
        Some(self.0)
    }
    fn text(&self) -> &str {
        self.1.as_str()
    }
}
trait HipItem<'h, B: Backend>: Item {
    fn into_hip(self) -> HipStr<'h, B>;
}
impl<'h, B: Backend> HipItem<'h, B> for HipStr<'h, B> {
    fn into_hip(self) -> HipStr<'h, B> {
        self
    }
}
impl<'h, B: Backend> HipItem<'h, B> for (usize, HipStr<'h, B>) {
    fn into_hip(self) -> HipStr<'h, B> {
        self.1
    }
}

fn show_item<T: Item>(t: &T) -> String {
    match t.idx() {
        Some(i) => format!("{i}:{}", hex(t.text().as_bytes())),
        None => hex(t.text().as_bytes()),
    }
}
fn show_list<T: Item>(v: &[T]) -> String {
    let more = if v.len() > 64 { ",…" } else { "" };
    format!("[{}{more}]", v.iter().take(64).map(show_item).collect::<Vec<_>>().join(","))
}

/// How an iterator is consumed. `Fwd`/`Back`/`Mixed` pull with `next`/`next_back` in lock-step with
/// std (allocation free, `size_hint` contract before every pull); the others are the remaining
/// consumption paths of `Iterator`/`DoubleEndedIterator` — the methods an implementation may override
/// (`nth`, `nth_back`, `last`, `count`, `fold`, `rfold`, …) and the std adaptors built on them
/// (`skip`/`step_by`/`rev`, which call `nth`/`nth_back` internally).
#[derive(Clone, Copy, PartialEq, Eq, PartialOrd, Ord, Debug)]
enum Dir {
    Fwd,
    Back,
    Mixed,
    // every iterator
    Nth,
    Last,
    Count,
    Fold,
    ForEach,
    Skip1,
    Skip2,
    StepBy2,
    StepBy3,
    // double-ended iterators only
    NthBack,
    NthMixed,
    Rev,
    RFold,
    RevNth,
    RevSkip1,
    RevStepBy2,
}
const FWD_EXTRA: [Dir; 9] =
    [Dir::Nth, Dir::Last, Dir::Count, Dir::Fold, Dir::ForEach, Dir::Skip1, Dir::Skip2, Dir::StepBy2, Dir::StepBy3];
const DE_EXTRA: [Dir; 16] = [
    Dir::Nth,
    Dir::NthBack,
    Dir::NthMixed,
    Dir::Last,
    Dir::Count,
    Dir::Fold,
    Dir::RFold,
    Dir::ForEach,
    Dir::Rev,
    Dir::RevNth,
    Dir::Skip1,
    Dir::RevSkip1,
    Dir::StepBy2,
    Dir::RevStepBy2,
    Dir::Skip2,
    Dir::StepBy3,
];
impl Dir {
    fn name(self) -> &'static str {
        match self {
            Dir::Fwd => "fwd",
            Dir::Back => "back",
            Dir::Mixed => "mixed",
            Dir::Nth => "nth",
            Dir::Last => "last",
            Dir::Count => "count",
            Dir::Fold => "fold",
            Dir::ForEach => "for_each",
            Dir::Skip1 => "skip1",
            Dir::Skip2 => "skip2",
            Dir::StepBy2 => "step_by2",
            Dir::StepBy3 => "step_by3",
            Dir::NthBack => "nth_back",
            Dir::NthMixed => "nth_mixed",
            Dir::Rev => "rev",
            Dir::RFold => "rfold",
            Dir::RevNth => "rev_nth",
            Dir::RevSkip1 => "rev_skip1",
            Dir::RevStepBy2 => "rev_step_by2",
        }
    }
}
/// which end the i-th pull of a mixed iteration takes (F B B F B F F B …)
fn mixed_front(i: usize) -> bool {
    (0x96u32 >> (i % 8)) & 1 == 0
}

const OBS_CAP: usize = 4096;

fn pull_all<I: Iterator>(it: &mut I, v: &mut Vec<I::Item>) {
    while v.len() < OBS_CAP {
        match it.next() {
            Some(x) => v.push(x),
            None => break,
        }
    }
    // exhausted stays exhausted
    if let Some(x) = it.next() {
        v.push(x);
    }
}
/// `nth(k)` with k cycling 0, 1, 2 until `None`, then one more `next`
fn pull_nth<I: Iterator>(it: &mut I, v: &mut Vec<I::Item>) {
    let mut i = 0;
    while v.len() < OBS_CAP {
        match it.nth(i % 3) {
            Some(x) => v.push(x),
            None => break,
        }
        i += 1;
    }
    if let Some(x) = it.next() {
        v.push(x);
    }
}

/// The items (and, for `count`, the number) a consumption mode observes.
/// An observation buffer. It is the harness's own memory: allocated outside the tracking window so
/// that it is neither quarantined nor poison-checked (a later growth is tracked like anything else).
fn obs_vec<T>() -> Vec<T> {
    let m = alloc::set_mode(alloc::OFF);
    let v = Vec::with_capacity(16);
    alloc::set_mode(m);
    v
}

fn observe_fwd<I: Iterator>(mut it: I, mode: Dir) -> (Vec<I::Item>, usize) {
    let mut v = obs_vec();
    let mut count = 0;
    match mode {
        Dir::Fwd => pull_all(&mut it, &mut v),
        Dir::Nth => pull_nth(&mut it, &mut v),
        Dir::Last => v.extend(it.last()),
        Dir::Count => count = it.count(),
        Dir::Fold => {
            v = it.fold(obs_vec(), |mut v, x| {
                v.push(x);
                v
            })
        }
        Dir::ForEach => it.for_each(|x| v.push(x)),
        Dir::Skip1 => pull_all(&mut it.skip(1), &mut v),
        Dir::Skip2 => pull_all(&mut it.skip(2), &mut v),
        Dir::StepBy2 => pull_all(&mut it.step_by(2), &mut v),
        Dir::StepBy3 => pull_all(&mut it.step_by(3), &mut v),
        _ => unreachable!("double-ended mode on a forward iterator"),
    }
    (v, count)
}
fn observe_de<I: DoubleEndedIterator>(mut it: I, mode: Dir) -> (Vec<I::Item>, usize) {
    let mut v = obs_vec();
    match mode {
        Dir::Back | Dir::Mixed | Dir::NthBack | Dir::NthMixed => {
            let mut i = 0;
            while v.len() < OBS_CAP {
                let x = match mode {
                    Dir::Back => it.next_back(),
                    Dir::Mixed => {
                        if mixed_front(i) {
                            it.next()
                        } else {
                            it.next_back()
                        }
                    }
                    Dir::NthBack => it.nth_back(i % 3),
                    _ => {
                        if mixed_front(i) {
                            it.nth(i % 3)
                        } else {
                            it.nth_back(i % 3)
                        }
                    }
                };
                match x {
                    Some(x) => v.push(x),
                    None => break,
                }
                i += 1;
            }
            v.extend(it.next());
            v.extend(it.next_back());
        }
        Dir::Rev => pull_all(&mut it.rev(), &mut v),
        Dir::RevNth => pull_nth(&mut it.rev(), &mut v),
        Dir::RFold => {
            v = it.rfold(obs_vec(), |mut v, x| {
                v.push(x);
                v
            })
        }
        Dir::RevSkip1 => pull_all(&mut it.rev().skip(1), &mut v),
        Dir::RevStepBy2 => pull_all(&mut it.rev().step_by(2), &mut v),
        _ => return observe_fwd(it, mode),
    }
    (v, 0)
}
fn show_obs<T: Item>(o: &(Vec<T>, usize), mode: Dir) -> String {
    if mode == Dir::Count {
        format!("count={}", o.1)
    } else {
        show_list(&o.0)
    }
}

// ---------------------------------------------------------------------------------------------
// per-source context

#[derive(Clone)]
struct Fail {
    kind: &'static str,
    label: String,
    expected: String,
    observed: String,
}

struct Piece<'h, B: Backend> {
    p: HipStr<'h, B>,
    off: u32,
    len: u32,
    /// index into `Cx::labels` (which call produced it)
    call: u32,
}

struct Cx<'h, 'f, B: Backend> {
    h: &'h str,
    src_borrowed: bool,
    src_allocated: bool,
    /// `hay <hex> <kind> <backend>` (only when tracing)
    trace_prefix: String,
    /// pieces equal to the whole haystack of an allocated source
    whole_heap: u64,
    pieces: Vec<Piece<'h, B>>,
    fails: Vec<Fail>,
    filter: Option<&'f str>,
    /// (method, pattern, n, dir) of every call that yielded at least one piece
    calls_meta: Vec<(&'static str, &'static str, Option<usize>, Dir)>,
    cur: (&'static str, &'static str, Option<usize>, Dir),
    cur_pushed: bool,
    calls: u64,
    nontrivial: u64,
    pieces_total: u64,
    repr_counts: [u64; 3],
    per_method: BTreeMap<(&'static str, Dir), u64>,
    /// all consumption modes at every site (short haystacks, filtered re-runs) instead of one sampled
    all_modes: bool,
    /// rotates the sampled extra mode from site to site
    tick: usize,
    want_sample: bool,
    /// index of the call after which the next iterator call is recorded as a sample
    sample_at: Option<u64>,
    samples: Vec<String>,
}

fn label(m: &str, pat: &str, n: Option<usize>, dir: Dir) -> String {
    match n {
        Some(n) => format!("{m}[n={n}] pat={pat} dir={}", dir.name()),
        None => format!("{m} pat={pat} dir={}", dir.name()),
    }
}

impl<'h, 'f, B: Backend> Cx<'h, 'f, B> {
    fn new(h: &'h str, src_borrowed: bool, filter: Option<&'f str>) -> Self {
        Cx {
            h,
            src_borrowed,
            src_allocated: false,
            trace_prefix: String::new(),
            whole_heap: 0,
            pieces: vec![],
            fails: vec![],
            filter,
            calls_meta: vec![],
            cur: ("", "", None, Dir::Fwd),
            cur_pushed: false,
            calls: 0,
            nontrivial: 0,
            pieces_total: 0,
            repr_counts: [0; 3],
            per_method: BTreeMap::new(),
            all_modes: false,
            tick: 0,
            want_sample: false,
            sample_at: None,
            samples: vec![],
        }
    }

    /// starts a call; false = filtered out
    fn begin(&mut self, m: &'static str, pat: &'static str, n: Option<usize>, dir: Dir) -> bool {
        if let Some(f) = self.filter {
            // a stage label (`@drop-source`, …) selects the whole run
            if !f.starts_with('@') && label(m, pat, n, dir) != f {
                return false;
            }
        }
        if trace_on() {
            trace(&format!("{} | call {}", self.trace_prefix, label(m, pat, n, dir)));
        }
        self.cur = (m, pat, n, dir);
        self.cur_pushed = false;
        if self.sample_at == Some(self.calls) {
            self.want_sample = true;
        }
        self.calls += 1;
        *self.per_method.entry((m, dir)).or_insert(0) += 1;
        true
    }

    /// the slice of `extra` to run at this site: everything, or one mode in rotation
    fn pick(&mut self, n_extra: usize) -> (usize, usize) {
        if self.all_modes || self.filter.is_some() {
            (0, n_extra)
        } else {
            // one extra mode at every other site
            self.tick += 1;
            if self.tick % 2 == 0 {
                return (0, 0);
            }
            let i = (self.tick / 2) % n_extra;
            (i, i + 1)
        }
    }

    fn cur_label(&self) -> String {
        label(self.cur.0, self.cur.1, self.cur.2, self.cur.3)
    }

    fn fail(&mut self, kind: &'static str, expected: String, observed: String) {
        // one report per (kind/check, method) and source is enough: the first one
        let prefix = self.cur.0;
        let dup = self.fails.iter().any(|f| {
            f.kind == kind && f.label.split(|c| c == ' ' || c == '[').next() == Some(prefix)
        });
        if !dup && self.fails.len() < 512 {
            let label = self.cur_label();
            self.fails.push(Fail { kind, label, expected, observed });
        }
    }

    /// checks (a) and (c) now, records the piece for (b)
    fn piece(&mut self, p: HipStr<'h, B>, std_piece: &str) {
        self.pieces_total += 1;
        let base = self.h.as_ptr() as usize;
        let sp = std_piece.as_ptr() as usize;
        let (off, len) = if sp >= base && sp + std_piece.len() <= base + self.h.len() {
            (sp - base, std_piece.len())
        } else if std_piece.is_empty() {
            (0, 0)
        } else {
            self.fail("monitor:std-contract", "std piece inside the haystack".into(), "std piece outside the haystack".into());
            return;
        };
        // (a)
        if p.is_borrowed() != self.src_borrowed {
            self.fail(
                "monitor:borrowed-flag",
                format!("piece {} is_borrowed={}", hex(std_piece.as_bytes()), self.src_borrowed),
                format!("is_borrowed={}", p.is_borrowed()),
            );
        } else if self.src_borrowed && p.as_ptr() as usize != sp {
            self.fail(
                "monitor:alias",
                format!("borrowed piece {} aliases the original data at offset {off}", hex(std_piece.as_bytes())),
                format!("pointer offset {}", (p.as_ptr() as usize).wrapping_sub(base) as isize),
            );
        }
        // (c)
        if std::str::from_utf8(p.as_bytes()).is_err() {
            self.fail("monitor:utf8", "valid UTF-8".into(), format!("bytes {}", hex(p.as_bytes())));
        }
        let normalized = p.is_inline() || p.is_borrowed() || p.len() > INLINE_CAP;
        if !normalized {
            self.fail("monitor:normalised", "normalised representation".into(), format!("allocated with len {}", p.len()));
        }
        self.repr_counts[if p.is_inline() {
            0
        } else if p.is_borrowed() {
            1
        } else {
            2
        }] += 1;
        if !self.cur_pushed {
            self.calls_meta.push(self.cur);
            self.cur_pushed = true;
        }
        let call = (self.calls_meta.len() - 1) as u32;
        if self.src_allocated && len == self.h.len() {
            self.whole_heap += 1;
        }
        self.pieces.push(Piece { p, off: off as u32, len: len as u32, call });
    }

    /// a stage of the source's life (`@mutate-source`, …): trace line + attribution of what follows
    fn stage(&mut self, name: &'static str) {
        if trace_on() {
            trace(&format!("{} | stage {name}", self.trace_prefix));
        }
        self.cur = (name, "-", None, Dir::Fwd);
    }

    /// allocator violations recorded since the last call, attributed to the current stage
    fn alloc_violations(&mut self, ignore_leaks: bool) {
        for (k, serial, size) in alloc::take_violations() {
            if k == alloc::V_TABLE_FULL || (k == alloc::V_LEAK && ignore_leaks) {
                continue;
            }
            self.fail(
                alloc_kind(k),
                "every block freed exactly once with its own layout, nothing written outside live blocks, nothing leaked".into(),
                format!("{} (block #{serial}, size {})", alloc::violation_name(k), size & 0xffff_ffff_ffff),
            );
        }
    }

    /// (b): every recorded piece still reads the std piece; a heap piece is first looked up in the
    /// allocator's block table and NOT read when it views freed or unknown memory
    fn verify(&mut self, stage: &'static str, kind: &'static str) {
        let mut bad: Vec<(u32, &'static str, String, String)> = vec![];
        let table_full = alloc::registered() >= TABLE_CAP;
        for pc in &self.pieces {
            let want = &self.h.as_bytes()[pc.off as usize..(pc.off + pc.len) as usize];
            // heap pieces, and "borrowed" pieces of a source that had nothing borrowed
            if pc.p.is_allocated() || (pc.p.is_borrowed() && !self.src_borrowed && pc.p.len() > 0) {
                let (ptr, len) = (pc.p.as_ptr() as usize, pc.p.len());
                let problem = match alloc::find(ptr) {
                    Some(b) if b.live && ptr + len <= b.start + b.size => None,
                    Some(b) if b.live => Some(format!("piece reaches beyond live block #{} (size {}): offset {} len {len}", b.serial, b.size, ptr - b.start)),
                    Some(b) => Some(format!("piece views freed memory: block #{} (size {}), offset {} len {len}", b.serial, b.size, ptr - b.start)),
                    None if table_full => None,
                    None => Some(format!("piece views memory outside every tracked block (len {len})")),
                };
                if let Some(o) = problem {
                    bad.push((pc.call, "monitor:freed-memory", format!("piece {} {stage} views a live block", hex(want)), o));
                    if bad.len() >= 8 {
                        break;
                    }
                    continue;
                }
            }
            let got = pc.p.as_bytes();
            if got != want {
                bad.push((pc.call, kind, format!("piece {} {stage}", hex(want)), format!("{} is_borrowed={}", hex(got), pc.p.is_borrowed())));
                if bad.len() >= 8 {
                    break;
                }
            }
        }
        for (call, kind, e, o) in bad {
            self.cur = self.calls_meta[call as usize];
            self.fail(kind, e, o);
        }
    }
}

/// lockstep comparison of one pull
fn pair<'h, B: Backend, H: HipItem<'h, B>, S: Item>(cx: &mut Cx<'h, '_, B>, a: Option<H>, b: Option<S>) -> Result<bool, ()> {
    match (a, b) {
        (None, None) => Ok(false),
        (Some(x), Some(y)) => {
            if x.idx() != y.idx() || x.text() != y.text() {
                return Err(());
            }
            // the std piece pointer: `y.text()` points into the haystack
            let sp: &str = y.text();
            let sp: &str = unsafe { std::str::from_utf8_unchecked(std::slice::from_raw_parts(sp.as_ptr(), sp.len())) };
            cx.piece(x.into_hip(), sp);
            Ok(true)
        }
        _ => Err(()),
    }
}

/// `size_hint` as a CONTRACT: at every pull `lower <= items actually remaining <= upper`; and equal
/// to std's when the wiring table says `size_hint` is forwarded (`--lean`, command `forwards`).
struct Hint {
    /// max over pulls of `lower + pulls so far` (must be <= total)
    lo: usize,
    /// min over pulls of `upper + pulls so far` (must be >= total)
    hi: usize,
    differs: Option<((usize, Option<usize>), (usize, Option<usize>))>,
}
impl Hint {
    fn new() -> Self {
        Hint { lo: 0, hi: usize::MAX, differs: None }
    }
    fn before_pull(&mut self, pulled: usize, h: (usize, Option<usize>), s: (usize, Option<usize>)) {
        self.lo = self.lo.max(h.0.saturating_add(pulled));
        if let Some(u) = h.1 {
            self.hi = self.hi.min(u.saturating_add(pulled));
        }
        if h != s && self.differs.is_none() && SIZE_HINT_FORWARDED.load(Ordering::Relaxed) {
            self.differs = Some((h, s));
        }
    }
    fn finish<B: Backend>(&self, cx: &mut Cx<'_, '_, B>, total: usize) {
        if self.lo > total || self.hi < total {
            cx.fail(
                "monitor:size-hint",
                format!("lower <= remaining <= upper before every pull ({total} items)"),
                format!("some pull had lower + pulled = {} / upper + pulled = {}", self.lo, self.hi),
            );
        }
        if let Some((h, s)) = self.differs {
            cx.fail("monitor:size-hint-forwarded", format!("size_hint {s:?} (std's: the table says it is forwarded)"), format!("{h:?}"));
        }
    }
}
static SIZE_HINT_FORWARDED: AtomicBool = AtomicBool::new(false);

/// What `tracked` runs on a source: the full method x pattern grid, the class methods, or both
/// (filtered re-runs always run both: the label selects).
static PLAN: AtomicU8 = AtomicU8::new(PLAN_FULL);
const PLAN_FULL: u8 = 0;
/// class methods, predicate patterns through the reduced method set
const PLAN_CLASSES: u8 = 1;
/// class methods, predicate patterns through every pattern-taking method
const PLAN_CLASSES_ALL: u8 = 2;
const PLAN_BOTH: u8 = 3;

fn lock_fwd<'h, B, HI, SI>(cx: &mut Cx<'h, '_, B>, mut hi: HI, mut si: SI) -> Result<usize, ()>
where
    B: Backend,
    HI: Iterator,
    HI::Item: HipItem<'h, B>,
    SI: Iterator,
    SI::Item: Item,
{
    let mut n = 0;
    let mut hint = Hint::new();
    loop {
        hint.before_pull(n, hi.size_hint(), si.size_hint());
        if !pair(cx, hi.next(), si.next())? {
            break;
        }
        n += 1;
        if n > OBS_CAP {
            return Err(());
        }
    }
    hint.finish(cx, n);
    // exhausted: stays exhausted on both sides
    if pair(cx, hi.next(), si.next())? {
        return Err(());
    }
    Ok(n)
}

fn lock_de<'h, B, HI, SI>(cx: &mut Cx<'h, '_, B>, mut hi: HI, mut si: SI, dir: Dir) -> Result<usize, ()>
where
    B: Backend,
    HI: DoubleEndedIterator,
    HI::Item: HipItem<'h, B>,
    SI: DoubleEndedIterator,
    SI::Item: Item,
{
    let mut n = 0;
    let mut hint = Hint::new();
    loop {
        let front = match dir {
            Dir::Fwd => true,
            Dir::Back => false,
            _ => mixed_front(n),
        };
        hint.before_pull(n, hi.size_hint(), si.size_hint());
        let more = if front { pair(cx, hi.next(), si.next())? } else { pair(cx, hi.next_back(), si.next_back())? };
        if !more {
            break;
        }
        n += 1;
        if n > OBS_CAP {
            return Err(());
        }
    }
    hint.finish(cx, n);
    if pair(cx, hi.next(), si.next())? || pair(cx, hi.next_back(), si.next_back())? {
        return Err(());
    }
    Ok(n)
}

/// both observations item by item (every piece goes through the piece checks)
fn cmp_obs<'h, B: Backend, H: HipItem<'h, B>, S: Item>(cx: &mut Cx<'h, '_, B>, ho: (Vec<H>, usize), so: (Vec<S>, usize)) -> Result<usize, ()> {
    if ho.1 != so.1 || ho.0.len() != so.0.len() {
        return Err(());
    }
    let n = ho.0.len();
    for (x, y) in ho.0.into_iter().zip(so.0) {
        pair(cx, Some(x), Some(y))?;
    }
    Ok(n.max(so.1))
}

#[inline(never)]
fn run_fwd<'h, B, HI, SI>(cx: &mut Cx<'h, '_, B>, hi: HI, si: SI, mode: Dir) -> Result<usize, ()>
where
    B: Backend,
    HI: Iterator,
    HI::Item: HipItem<'h, B>,
    SI: Iterator,
    SI::Item: Item,
{
    if mode == Dir::Fwd {
        lock_fwd(cx, hi, si)
    } else {
        let ho = observe_fwd(hi, mode);
        cmp_obs(cx, ho, observe_fwd(si, mode))
    }
}
#[inline(never)]
fn run_de<'h, B, HI, SI>(cx: &mut Cx<'h, '_, B>, hi: HI, si: SI, mode: Dir) -> Result<usize, ()>
where
    B: Backend,
    HI: DoubleEndedIterator,
    HI::Item: HipItem<'h, B>,
    SI: DoubleEndedIterator,
    SI::Item: Item,
{
    if matches!(mode, Dir::Fwd | Dir::Back | Dir::Mixed) {
        lock_de(cx, hi, si, mode)
    } else {
        let ho = observe_de(hi, mode);
        cmp_obs(cx, ho, observe_de(si, mode))
    }
}

/// outcome of one (site, mode): statistics, sample, or the disagreement with both observations
fn outcome<B: Backend>(
    cx: &mut Cx<'_, '_, B>,
    h: &str,
    r: Option<Result<usize, ()>>,
    expected: impl FnOnce() -> String,
    observed: impl FnOnce() -> Option<String>,
) {
    match r {
        Some(Ok(k)) => {
            if k >= 2 {
                cx.nontrivial += 1;
            }
            if cx.want_sample {
                cx.want_sample = false;
                let e = expected();
                let l = cx.cur_label();
                cx.samples.push(format!("hay {} {l} -> {e}", hex(h.as_bytes())));
            }
        }
        other => {
            let e = expected();
            let o = match observed() {
                Some(o) if other.is_some() => o,
                _ => "panic".to_string(),
            };
            cx.fail("impl-vs-oracle", e, o);
        }
    }
}

/// One iterator-valued call site whose iterator is forward only: `fwd` plus the sampled extra modes.
fn site_fwd<'h, B, HI, SI>(
    cx: &mut Cx<'h, '_, B>,
    h: &str,
    name: &'static str,
    pat: &'static str,
    n: Option<usize>,
    mk_h: impl Fn() -> HI,
    mk_s: impl Fn() -> SI,
) where
    B: Backend,
    HI: Iterator,
    HI::Item: HipItem<'h, B>,
    SI: Iterator,
    SI::Item: Item,
{
    let (a, b) = cx.pick(FWD_EXTRA.len());
    for mode in std::iter::once(Dir::Fwd).chain(FWD_EXTRA[a..b].iter().copied()) {
        if cx.begin(name, pat, n, mode) {
            let r = caught(|| run_fwd(cx, mk_h(), mk_s(), mode));
            outcome(
                cx,
                h,
                r,
                || show_obs(&observe_fwd(mk_s(), mode), mode),
                || caught(|| show_obs(&observe_fwd(mk_h(), mode), mode)),
            );
        }
    }
}
/// … whose iterator is double-ended: `fwd`, `back`, `mixed` plus the sampled extra modes.
fn site_de<'h, B, HI, SI>(
    cx: &mut Cx<'h, '_, B>,
    h: &str,
    name: &'static str,
    pat: &'static str,
    mk_h: impl Fn() -> HI,
    mk_s: impl Fn() -> SI,
) where
    B: Backend,
    HI: DoubleEndedIterator,
    HI::Item: HipItem<'h, B>,
    SI: DoubleEndedIterator,
    SI::Item: Item,
{
    let (a, b) = cx.pick(DE_EXTRA.len());
    for mode in [Dir::Fwd, Dir::Back, Dir::Mixed].into_iter().chain(DE_EXTRA[a..b].iter().copied()) {
        if cx.begin(name, pat, None, mode) {
            let r = caught(|| run_de(cx, mk_h(), mk_s(), mode));
            outcome(
                cx,
                h,
                r,
                || show_obs(&observe_de(mk_s(), mode), mode),
                || caught(|| show_obs(&observe_de(mk_h(), mode), mode)),
            );
        }
    }
}

fn caught<T>(f: impl FnOnce() -> T) -> Option<T> {
    catch_unwind(AssertUnwindSafe(f)).ok()
}

static AB: [char; 2] = ['a', 'b'];
static SP_NL: [char; 2] = [' ', '\n'];
static E_CRAB: [char; 2] = ['é', '🦀'];
static ONLY_A: [char; 1] = ['a'];
static ONLY_SP: [char; 1] = [' '];
static NONE: [char; 0] = [];
static NBSP_IDSP: [char; 2] = ['\u{a0}', '\u{3000}'];


// ----- call-site macros; `$c` = `[cx src h]` (the three locals of the enclosing fn)

/// iterator-valued method (`$a` are re-evaluated for every iterator that is built)
macro_rules! it_fwd {
    ([$cx:ident $src:ident $h:ident], $name:literal, $pat:expr, $n:expr, $m:ident ( $($a:expr),* )) => {
        site_fwd($cx, $h, $name, $pat, $n, || $src.$m($($a),*), || $h.$m($($a),*));
    };
}
macro_rules! it_de {
    ([$cx:ident $src:ident $h:ident], $name:literal, $pat:expr, $m:ident ( $($a:expr),* )) => {
        site_de($cx, $h, $name, $pat, || $src.$m($($a),*), || $h.$m($($a),*));
    };
}

fn show_opt(e: Option<&str>) -> String {
    e.map_or("none".to_string(), |e| format!("some({})", hex(e.as_bytes())))
}
fn show_opt2(e: Option<(&str, &str)>) -> String {
    e.map_or("none".to_string(), |(a, b)| format!("some({}|{})", hex(a.as_bytes()), hex(b.as_bytes())))
}

/// `&str`-valued method
macro_rules! one {
    ([$cx:ident $src:ident $h:ident], $name:literal, $pat:expr, $m:ident ( $($a:expr),* )) => {
        if $cx.begin($name, $pat, None, Dir::Fwd) {
            let e: &'h str = $h.$m($($a),*);
            match caught(|| $src.$m($($a),*)) {
                Some(o) if o.as_str() == e => {
                    if e.len() != $h.len() {
                        $cx.nontrivial += 1;
                    }
                    $cx.piece(o, e);
                }
                Some(o) => $cx.fail("impl-vs-oracle", hex(e.as_bytes()), hex(o.as_bytes())),
                None => $cx.fail("impl-vs-oracle", hex(e.as_bytes()), "panic".into()),
            }
        }
    };
}
/// `Option<&str>`-valued method
macro_rules! opt {
    ([$cx:ident $src:ident $h:ident], $name:literal, $pat:expr, $m:ident ( $($a:expr),* )) => {
        if $cx.begin($name, $pat, None, Dir::Fwd) {
            let e: Option<&'h str> = $h.$m($($a),*);
            match caught(|| $src.$m($($a),*)) {
                Some(o) if o.as_ref().map(|o| o.as_str()) == e => {
                    if let (Some(o), Some(e)) = (o, e) {
                        $cx.nontrivial += 1;
                        $cx.piece(o, e);
                    }
                }
                Some(o) => $cx.fail("impl-vs-oracle", show_opt(e), show_opt(o.as_ref().map(|o| o.as_str()))),
                None => $cx.fail("impl-vs-oracle", show_opt(e), "panic".into()),
            }
        }
    };
}
/// `Option<(&str, &str)>`-valued method
macro_rules! opt2 {
    ([$cx:ident $src:ident $h:ident], $name:literal, $pat:expr, $m:ident ( $($a:expr),* )) => {
        if $cx.begin($name, $pat, None, Dir::Fwd) {
            let e: Option<(&'h str, &'h str)> = $h.$m($($a),*);
            match caught(|| $src.$m($($a),*)) {
                Some(o) if o.as_ref().map(|(a, b)| (a.as_str(), b.as_str())) == e => {
                    if let (Some((oa, ob)), Some((ea, eb))) = (o, e) {
                        $cx.nontrivial += 1;
                        $cx.piece(oa, ea);
                        $cx.piece(ob, eb);
                    }
                }
                Some(o) => $cx.fail(
                    "impl-vs-oracle",
                    show_opt2(e),
                    show_opt2(o.as_ref().map(|(a, b)| (a.as_str(), b.as_str()))),
                ),
                None => $cx.fail("impl-vs-oracle", show_opt2(e), "panic".into()),
            }
        }
    };
}
/// everything that takes a pattern besides the 9 unbounded iterators; `$p` is re-evaluated per call
macro_rules! common {
    ($c:tt, $pat:expr, $p:expr) => {
        for n in 0..4usize {
            it_fwd!($c, "splitn", $pat, Some(n), splitn(n, $p));
            it_fwd!($c, "rsplitn", $pat, Some(n), rsplitn(n, $p));
        }
        opt2!($c, "split_once", $pat, split_once($p));
        opt2!($c, "rsplit_once", $pat, rsplit_once($p));
        one!($c, "trim_start_matches", $pat, trim_start_matches($p));
        one!($c, "trim_end_matches", $pat, trim_end_matches($p));
        opt!($c, "strip_prefix", $pat, strip_prefix($p));
        opt!($c, "strip_suffix", $pat, strip_suffix($p));
    };
}
/// pattern whose std searcher is not double-ended (the `&str` family)
macro_rules! pat_rev {
    ($c:tt, $pat:expr, $p:expr) => {
        it_fwd!($c, "split", $pat, None, split($p));
        it_fwd!($c, "split_inclusive", $pat, None, split_inclusive($p));
        it_fwd!($c, "split_terminator", $pat, None, split_terminator($p));
        it_fwd!($c, "rsplit", $pat, None, rsplit($p));
        it_fwd!($c, "rsplit_terminator", $pat, None, rsplit_terminator($p));
        it_fwd!($c, "matches", $pat, None, matches($p));
        it_fwd!($c, "rmatches", $pat, None, rmatches($p));
        it_fwd!($c, "match_indices", $pat, None, match_indices($p));
        it_fwd!($c, "rmatch_indices", $pat, None, rmatch_indices($p));
        common!($c, $pat, $p);
    };
}
/// pattern whose std searcher is double-ended: every iterator also backwards and mixed
macro_rules! pat_de_iter {
    ($c:tt, $pat:expr, $p:expr) => {
        it_de!($c, "split", $pat, split($p));
        it_de!($c, "split_inclusive", $pat, split_inclusive($p));
        it_de!($c, "split_terminator", $pat, split_terminator($p));
        it_de!($c, "rsplit", $pat, rsplit($p));
        it_de!($c, "rsplit_terminator", $pat, rsplit_terminator($p));
        it_de!($c, "matches", $pat, matches($p));
        it_de!($c, "rmatches", $pat, rmatches($p));
        it_de!($c, "match_indices", $pat, match_indices($p));
        it_de!($c, "rmatch_indices", $pat, rmatch_indices($p));
        common!($c, $pat, $p);
    };
}

// ----- one (non-inlined) function per pattern TYPE; hipstr's pattern traits are sealed, so each
// function is written against one concrete std pattern type (closures: the blanket impl)

#[inline(never)]
fn run_nopat<'h, B: Backend>(src: &HipStr<'h, B>, h: &'h str, cx: &mut Cx<'h, '_, B>) {
    one!([cx src h], "trim", "-", trim());
    one!([cx src h], "trim_start", "-", trim_start());
    one!([cx src h], "trim_end", "-", trim_end());
    it_de!([cx src h], "split_whitespace", "-", split_whitespace());
    it_de!([cx src h], "split_ascii_whitespace", "-", split_ascii_whitespace());
    it_de!([cx src h], "lines", "-", lines());
}
#[inline(never)]
fn run_char<'h, B: Backend>(src: &HipStr<'h, B>, h: &'h str, cx: &mut Cx<'h, '_, B>, pat: &'static str, p: char) {
    pat_de_iter!([cx src h], pat, p);
    one!([cx src h], "trim_matches", pat, trim_matches(p));
}
#[inline(never)]
fn run_str<'h, B: Backend>(src: &HipStr<'h, B>, h: &'h str, cx: &mut Cx<'h, '_, B>, pat: &'static str, p: &str) {
    pat_rev!([cx src h], pat, p);
}
#[inline(never)]
fn run_refstr<'h, B: Backend>(src: &HipStr<'h, B>, h: &'h str, cx: &mut Cx<'h, '_, B>, pat: &'static str, p: &&str) {
    pat_rev!([cx src h], pat, p);
}
#[inline(never)]
fn run_string<'h, B: Backend>(src: &HipStr<'h, B>, h: &'h str, cx: &mut Cx<'h, '_, B>, pat: &'static str, p: &String) {
    pat_rev!([cx src h], pat, p);
}
#[inline(never)]
fn run_slice<'h, B: Backend>(src: &HipStr<'h, B>, h: &'h str, cx: &mut Cx<'h, '_, B>, pat: &'static str, p: &[char]) {
    pat_de_iter!([cx src h], pat, p);
    one!([cx src h], "trim_matches", pat, trim_matches(p));
}
/// `&[char; N]`: std's searcher is double-ended, hipstr registers the type as `reverse` (no `trim_matches`)
#[inline(never)]
fn run_array<'h, B: Backend, const N: usize>(
    src: &HipStr<'h, B>,
    h: &'h str,
    cx: &mut Cx<'h, '_, B>,
    pat: &'static str,
    p: &[char; N],
) {
    pat_de_iter!([cx src h], pat, p);
}
#[inline(never)]
fn run_fn<'h, B: Backend, F: FnMut(char) -> bool + Clone>(
    src: &HipStr<'h, B>,
    h: &'h str,
    cx: &mut Cx<'h, '_, B>,
    pat: &'static str,
    p: F,
) {
    pat_de_iter!([cx src h], pat, p.clone());
    one!([cx src h], "trim_matches", pat, trim_matches(p.clone()));
}

/// The pattern-taking methods whose result depends on WHICH characters the predicate accepts.
#[inline(never)]
fn run_fn_lite<'h, B: Backend, F: FnMut(char) -> bool + Clone>(
    src: &HipStr<'h, B>,
    h: &'h str,
    cx: &mut Cx<'h, '_, B>,
    pat: &'static str,
    p: F,
) {
    it_de!([cx src h], "split", pat, split(p.clone()));
    it_de!([cx src h], "matches", pat, matches(p.clone()));
    it_de!([cx src h], "rmatches", pat, rmatches(p.clone()));
    it_de!([cx src h], "match_indices", pat, match_indices(p.clone()));
    one!([cx src h], "trim_matches", pat, trim_matches(p.clone()));
    one!([cx src h], "trim_start_matches", pat, trim_start_matches(p.clone()));
    one!([cx src h], "trim_end_matches", pat, trim_end_matches(p.clone()));
    opt!([cx src h], "strip_prefix", pat, strip_prefix(p.clone()));
    opt!([cx src h], "strip_suffix", pat, strip_suffix(p.clone()));
}

/// The methods whose std semantics depend on Unicode character properties: `trim*`,
/// `split_whitespace`, `split_ascii_whitespace`, `lines` (always all of them), and the std character
/// predicates as patterns (`all` = through every pattern-taking method, else the reduced set).
fn run_classes<'h, B: Backend>(src: &HipStr<'h, B>, h: &'h str, cx: &mut Cx<'h, '_, B>, all: bool) {
    run_nopat(src, h, cx);
    if all {
        run_fn(src, h, cx, "fn:is_whitespace", char::is_whitespace);
        run_fn(src, h, cx, "fn:is_alphanumeric", char::is_alphanumeric);
        run_fn(src, h, cx, "fn:is_numeric", char::is_numeric);
        run_fn(src, h, cx, "fn:is_ascii_whitespace", |c: char| c.is_ascii_whitespace());
        run_fn(src, h, cx, "fn:is_control", char::is_control);
        run_char(src, h, cx, "char:vt", '\u{b}');
        run_char(src, h, cx, "char:nbsp", '\u{a0}');
        run_char(src, h, cx, "char:line-separator", '\u{2028}');
        run_str(src, h, cx, "str:nel", "\u{85}");
        run_slice(src, h, cx, "slice:nbsp-ideographic-space", &NBSP_IDSP[..]);
    } else {
        run_fn_lite(src, h, cx, "fn:is_whitespace", char::is_whitespace);
        run_fn_lite(src, h, cx, "fn:is_alphanumeric", char::is_alphanumeric);
        run_fn_lite(src, h, cx, "fn:is_numeric", char::is_numeric);
        run_fn_lite(src, h, cx, "fn:is_ascii_whitespace", |c: char| c.is_ascii_whitespace());
        run_fn_lite(src, h, cx, "fn:is_control", char::is_control);
    }
}

/// Runs every inherited piece-returning method with every pattern on one source.
fn run_all<'h, B: Backend>(src: &HipStr<'h, B>, h: &'h str, cx: &mut Cx<'h, '_, B>) {
    run_nopat(src, h, cx);
    // char
    run_char(src, h, cx, "char:a", 'a');
    run_char(src, h, cx, "char:b", 'b');
    run_char(src, h, cx, "char:space", ' ');
    run_char(src, h, cx, "char:nl", '\n');
    run_char(src, h, cx, "char:cr", '\r');
    run_char(src, h, cx, "char:e-acute", 'é');
    run_char(src, h, cx, "char:euro", '€');
    run_char(src, h, cx, "char:crab", '🦀');
    // &str (incl. empty and overlapping)
    run_str(src, h, cx, "str:", "");
    run_str(src, h, cx, "str:a", "a");
    run_str(src, h, cx, "str:aa", "aa");
    run_str(src, h, cx, "str:ab", "ab");
    run_str(src, h, cx, "str:ba", "ba");
    run_str(src, h, cx, "str:space", " ");
    run_str(src, h, cx, "str:nl", "\n");
    run_str(src, h, cx, "str:crnl", "\r\n");
    run_str(src, h, cx, "str:e-acute", "é");
    run_str(src, h, cx, "str:euro-a", "€a");
    run_str(src, h, cx, "str:crab", "🦀");
    run_str(src, h, cx, "str:a-space", "a ");
    // &&str
    run_refstr(src, h, cx, "refstr:a", &"a");
    run_refstr(src, h, cx, "refstr:", &"");
    // &String
    let s_aa = String::from("aa");
    let s_empty = String::new();
    let s_e = String::from("é");
    run_string(src, h, cx, "string:aa", &s_aa);
    run_string(src, h, cx, "string:", &s_empty);
    run_string(src, h, cx, "string:e-acute", &s_e);
    // &[char]
    run_slice(src, h, cx, "slice:", &NONE[..]);
    run_slice(src, h, cx, "slice:a", &ONLY_A[..]);
    run_slice(src, h, cx, "slice:ab", &AB[..]);
    run_slice(src, h, cx, "slice:space-nl", &SP_NL[..]);
    run_slice(src, h, cx, "slice:e-acute-crab", &E_CRAB[..]);
    // &[char; N]
    run_array(src, h, cx, "array:ab", &AB);
    run_array(src, h, cx, "array:space", &ONLY_SP);
    run_array(src, h, cx, "array:", &NONE);
    // closures and fn items
    run_fn(src, h, cx, "fn:eq-a", |c: char| c == 'a');
    run_fn(src, h, cx, "fn:alphabetic", |c: char| c.is_alphabetic());
    run_fn(src, h, cx, "fn:non-ascii", |c: char| !c.is_ascii());
    run_fn(src, h, cx, "fn:is_whitespace", char::is_whitespace);
    run_fn(src, h, cx, "fn:true", |_c: char| true);
    run_fn(src, h, cx, "fn:false", |_c: char| false);
    let mut k = 0u32;
    run_fn(src, h, cx, "fn:stateful-every-2nd", move |_c: char| {
        k += 1;
        k % 2 == 0
    });
}

// ---------------------------------------------------------------------------------------------
// sources

#[derive(Clone, Copy, PartialEq, Debug)]
enum Kind {
    Inline,
    Borrowed,
    Heap,
    HeapSlice,
}
impl Kind {
    fn name(self) -> &'static str {
        match self {
            Kind::Inline => "inline",
            Kind::Borrowed => "borrowed",
            Kind::Heap => "heap",
            Kind::HeapSlice => "heapslice",
        }
    }
    fn parse(s: &str) -> Option<Kind> {
        Some(match s {
            "inline" => Kind::Inline,
            "borrowed" => Kind::Borrowed,
            "heap" => Kind::Heap,
            "heapslice" => Kind::HeapSlice,
            _ => return None,
        })
    }
}

#[derive(Clone, Copy, PartialEq, Debug)]
enum Bk {
    Arc,
    Rc,
    Unique,
}
impl Bk {
    fn name(self) -> &'static str {
        match self {
            Bk::Arc => "Arc",
            Bk::Rc => "Rc",
            Bk::Unique => "Unique",
        }
    }
    fn parse(s: &str) -> Option<Bk> {
        Some(match s {
            "Arc" => Bk::Arc,
            "Rc" => Bk::Rc,
            "Unique" => Bk::Unique,
            _ => return None,
        })
    }
}

#[derive(Default)]
struct Stats {
    evaluations: u64,
    nontrivial: u64,
    pieces: u64,
    sources: u64,
    dist: BTreeMap<String, u64>,
    samples: Vec<String>,
    /// key = kind + label  →  (haystack, source kind, backend, fail); the shortest haystack wins
    found: BTreeMap<String, (String, Kind, Bk, Fail)>,
    total_fails: u64,
    internal: Vec<String>,
    /// calls per (method, consumption mode); rendered as `method <m>` and `mode <m> <mode>`
    modes: BTreeMap<(&'static str, Dir), u64>,
    /// calls per method made on haystacks of the class alphabet
    class_methods: BTreeMap<&'static str, u64>,
    /// the haystack at hand is over the class alphabet (whatever the plan)
    class_sweep: bool,
    /// class unit index -> occurrences in the class haystacks
    class_unit_hits: BTreeMap<usize, u64>,
    /// why the run ended before the plan was through
    stop: Option<&'static str>,
    out_path: Option<String>,
    profile: &'static str,
    replay: bool,
    /// disagreements that are not haystack cases (the Lean `rows` answer)
    extra: Vec<serde_json::Value>,
}
impl Stats {
    fn hit(&mut self, k: &str, n: u64) {
        *self.dist.entry(k.to_string()).or_insert(0) += n;
    }
}

/// What one source produced; everything in here was allocated inside the TRACK window.
struct Tracked {
    fails: Vec<Fail>,
    calls: u64,
    nontrivial: u64,
    pieces: u64,
    repr: [u64; 3],
    whole_heap: u64,
    per_method: BTreeMap<(&'static str, Dir), u64>,
    samples: Vec<String>,
    src_class: &'static str,
    /// handles were leaked on purpose after a monitor fired
    forgot: bool,
}

/// Builds the source, runs everything, then mutates and drops the source and re-reads every piece.
fn tracked<B: Backend>(h: &str, kind: Kind, bk: &'static str, filter: Option<&str>, sample: Option<u64>) -> Tracked {
    // heapslice: the haystack sits at an offset inside a bigger heap buffer
    let big: String = format!("0123456789-{h}-9876543210");
    let src: HipStr<'_, B> = match kind {
        Kind::Inline | Kind::Heap => HipStr::from(h),
        Kind::Borrowed => HipStr::borrowed(h),
        Kind::HeapSlice => {
            let b: HipStr<'_, B> = HipStr::from(big.as_str());
            b.slice(11..11 + h.len())
            // `b` dropped here: the slice is the only owner of the big buffer
        }
    };
    let mut cx: Cx<'_, '_, B> = Cx::new(h, src.is_borrowed(), filter);
    cx.sample_at = sample;
    cx.src_allocated = src.is_allocated();
    cx.all_modes = h.chars().count() <= 2;
    cx.tick = h.bytes().fold(h.len() + kind as usize + bk.len(), |a, b| a.wrapping_mul(31).wrapping_add(b as usize));
    if trace_on() {
        cx.trace_prefix = format!("hay {} {} {bk}", hex(h.as_bytes()), kind.name());
    }
    let src_class = if src.is_inline() {
        "inline"
    } else if src.is_borrowed() {
        "borrowed"
    } else {
        "allocated"
    };
    let expected_class = match kind {
        Kind::Borrowed => "borrowed",
        _ if h.len() <= INLINE_CAP => "inline",
        _ => "allocated",
    };
    cx.stage("@source");
    if src_class != expected_class {
        cx.fail("monitor:source", format!("source representation {expected_class}"), src_class.to_string());
    }
    match if filter.is_some() { PLAN_BOTH } else { PLAN.load(Ordering::Relaxed) } {
        PLAN_FULL => run_all(&src, h, &mut cx),
        PLAN_CLASSES => run_classes(&src, h, &mut cx, false),
        PLAN_CLASSES_ALL => run_classes(&src, h, &mut cx, true),
        _ => {
            run_all(&src, h, &mut cx);
            run_classes(&src, h, &mut cx, true);
        }
    }
    cx.stage("@calls");
    cx.alloc_violations(true);
    // (b) mutate the source in place, then drop it
    cx.stage("@mutate-source");
    let mut src = src;
    let mutated = caught(AssertUnwindSafe(|| {
        src.make_ascii_uppercase();
        src.push_str("Xa b\u{e9}");
        src.len()
    }));
    if mutated != Some(h.len() + 6) {
        cx.fail("monitor:source", format!("mutated source of len {}", h.len() + 6), format!("{mutated:?}"));
    }
    cx.alloc_violations(true);
    cx.verify("after-source-mutation", "monitor:after-source-mutation");
    let mut forgot = false;
    if cx.fails.iter().any(|f| is_memory_safety(f.kind)) {
        // the heap cannot be trusted: no further drop
        std::mem::forget(src);
        forgot = true;
    } else {
        cx.stage("@drop-source");
        drop(src);
        cx.alloc_violations(true);
        cx.verify("after-source-drop", "monitor:after-source-drop");
    }
    if forgot || cx.fails.iter().any(|f| f.kind.starts_with("monitor")) {
        // a broken share count must not take the report down
        std::mem::forget(std::mem::take(&mut cx.pieces));
        forgot = true;
    } else {
        cx.stage("@drop-pieces");
        drop(std::mem::take(&mut cx.pieces));
        cx.alloc_violations(true);
    }
    if trace_on() {
        trace(&format!("{} | stage @end", cx.trace_prefix));
    }
    Tracked {
        fails: std::mem::take(&mut cx.fails),
        calls: cx.calls,
        nontrivial: cx.nontrivial,
        pieces: cx.pieces_total,
        repr: cx.repr_counts,
        whole_heap: cx.whole_heap,
        per_method: std::mem::take(&mut cx.per_method),
        samples: std::mem::take(&mut cx.samples),
        src_class,
        forgot,
    }
}

/// One source inside one TRACK window of the allocator; the results are copied out of the window
/// before `end_sequence` verifies and releases every block of the window.
fn run_source<B: Backend>(h: &str, kind: Kind, bk: &'static str, filter: Option<&str>, sample: Option<u64>) -> (Vec<Fail>, SrcStats) {
    let stale = alloc::take_violations();
    alloc::set_mode(alloc::TRACK);
    let t = tracked::<B>(h, kind, bk, filter, sample);
    alloc::set_mode(alloc::OFF);
    // deep copies made OUTSIDE the window
    let mut fails: Vec<Fail> = t.fails.iter().cloned().collect();
    let mut st = SrcStats {
        calls: t.calls,
        nontrivial: t.nontrivial,
        pieces: t.pieces,
        repr: t.repr,
        whole_heap: t.whole_heap,
        per_method: t.per_method.iter().map(|(k, v)| (*k, *v)).collect(),
        samples: t.samples.iter().map(|s| s.as_str().to_owned()).collect(),
        src_class: t.src_class,
        table_full: 0,
    };
    let forgot = t.forgot;
    drop(t);
    let mut viol = alloc::take_violations();
    alloc::end_sequence();
    viol.extend(alloc::take_violations());
    for (where_, list) in [("@between-sources", stale), ("@end", viol)] {
        for (k, serial, size) in list {
            if k == alloc::V_TABLE_FULL {
                st.table_full += 1;
                continue;
            }
            if forgot && (k == alloc::V_LEAK || k == alloc::V_POISON) {
                // leaked on purpose after a monitor fired
                continue;
            }
            let kind = alloc_kind(k);
            if fails.iter().any(|f| f.kind == kind && f.label.starts_with(where_)) {
                continue;
            }
            fails.push(Fail {
                kind,
                label: format!("{where_} pat=- dir=fwd"),
                expected: "every block freed exactly once with its own layout, nothing written outside live blocks, nothing leaked".into(),
                observed: format!("{} (block #{serial}, size {})", alloc::violation_name(k), size & 0xffff_ffff_ffff),
            });
        }
    }
    (fails, st)
}

struct SrcStats {
    calls: u64,
    nontrivial: u64,
    pieces: u64,
    repr: [u64; 3],
    whole_heap: u64,
    per_method: BTreeMap<(&'static str, Dir), u64>,
    samples: Vec<String>,
    src_class: &'static str,
    table_full: u64,
}

fn run_dyn(h: &str, kind: Kind, bk: Bk, filter: Option<&str>, sample: Option<u64>) -> (Vec<Fail>, SrcStats) {
    match bk {
        Bk::Arc => run_source::<Arc>(h, kind, bk.name(), filter, sample),
        Bk::Rc => run_source::<Rc>(h, kind, bk.name(), filter, sample),
        Bk::Unique => run_source::<Unique>(h, kind, bk.name(), filter, sample),
    }
}

const MAX_DISAGREEMENTS: usize = 20;

fn account(st: &mut Stats, h: &str, kind: Kind, bk: Bk, sample: Option<u64>) {
    let (fails, ss) = run_dyn(h, kind, bk, None, sample);
    st.evaluations += ss.calls;
    st.nontrivial += ss.nontrivial;
    st.pieces += ss.pieces;
    st.sources += 1;
    st.hit(&format!("source {} {}", ss.src_class, bk.name()), 1);
    st.hit("piece inline", ss.repr[0]);
    st.hit("piece borrowed", ss.repr[1]);
    st.hit("piece allocated", ss.repr[2]);
    if ss.whole_heap > 0 {
        st.hit(&format!("piece whole-haystack of heap source {}", bk.name()), ss.whole_heap);
    }
    if ss.table_full > 0 {
        st.hit("allocator block table full (blocks not tracked)", ss.table_full);
    }
    let classes = PLAN.load(Ordering::Relaxed) != PLAN_FULL || st.class_sweep;
    for (k, n) in ss.per_method {
        *st.modes.entry(k).or_insert(0) += n;
        if classes {
            *st.class_methods.entry(k.0).or_insert(0) += n;
        }
    }
    for s in ss.samples {
        if st.samples.len() < 12 {
            st.samples.push(format!("{s} [{} {}]", kind.name(), bk.name()));
        }
    }
    let mut new_key = false;
    for f in fails {
        st.total_fails += 1;
        if is_memory_safety(f.kind) {
            st.stop = Some("memory-safety monitor fired");
        }
        // one report per (impl-vs-oracle, method): the shortest haystack, first pattern in enumeration order
        // (monitor checks: one per check class)
        let method = f.label.split(|c| c == ' ' || c == '[').next().unwrap_or("");
        let key = if f.kind.starts_with("monitor") { f.kind.to_string() } else { format!("{} {method}", f.kind) };
        let old = st.found.get(&key).map(|(old, ..)| old.len());
        if old.map_or(true, |o| h.len() < o) {
            new_key |= old.is_none();
            st.found.insert(key, (h.to_string(), kind, bk, f));
        }
    }
    if st.found.len() >= MAX_DISAGREEMENTS && st.stop.is_none() {
        st.stop = Some("20 disagreements");
    }
    if new_key {
        // never lose a finding to a later crash
        flush(st, false, false);
    }
}

/// The stats document. `final_` = shrink the haystacks (never after a memory-safety monitor).
fn render(st: &Stats, complete: bool, final_: bool) -> (serde_json::Value, usize) {
    let mut disagreements: Vec<serde_json::Value> = st.extra.clone();
    let memory_unsafe = st.found.values().any(|(_, _, _, f)| is_memory_safety(f.kind));
    for (h, kind, bk, f) in st.found.values().take(40) {
        let is_piece_method = f.label.contains(" pat=");
        let (h, f) = if final_ && is_piece_method && !st.replay && !memory_unsafe && !f.label.starts_with('@') {
            shrink(h, *kind, *bk, f.clone())
        } else {
            (h.clone(), f.clone())
        };
        let input = if is_piece_method {
            vec![format!("hay {} {} {}", hex(h.as_bytes()), kind.name(), bk.name()), format!("call {}", f.label)]
        } else {
            vec![format!("{} {} {}", f.label, bk.name(), if f.label.starts_with("from_utf16") { h.clone() } else { hex(h.as_bytes()) })]
        };
        let (kind, check) = f.kind.split_once(':').unwrap_or((f.kind, ""));
        let expected = if check.is_empty() { f.expected.clone() } else { format!("[{check}] {}", f.expected) };
        disagreements.push(serde_json::json!({
            "kind": kind, "input": input, "expected": expected, "observed": f.observed, "profile": st.profile,
        }));
    }
    let n = disagreements.len();
    let mut dist = st.dist.clone();
    for ((m, d), c) in &st.modes {
        *dist.entry(format!("method {m}")).or_insert(0) += c;
        if !matches!(*m, "trim" | "trim_start" | "trim_end" | "trim_matches" | "trim_start_matches" | "trim_end_matches" | "strip_prefix" | "strip_suffix" | "split_once" | "rsplit_once") {
            *dist.entry(format!("mode {m} {}", d.name())).or_insert(0) += c;
        }
    }
    for (i, c) in &st.class_unit_hits {
        *dist.entry(format!("classes unit {}", CLASS_UNITS[*i].0)).or_insert(0) += c;
    }
    for (m, c) in &st.class_methods {
        *dist.entry(format!("classes method {m}")).or_insert(0) += c;
    }
    let v = serde_json::json!({
        "class_alphabet": CLASS_UNITS.iter().map(|(n, _)| *n).collect::<Vec<_>>(),
        "complete": complete,
        "stopped_early": st.stop,
        "evaluations": st.evaluations,
        "distinct_nontrivial": st.nontrivial,
        "rule": "every inherited str method of HipStr yields item for item (strings, indices, tuple halves, Option) what std yields on as_str(), forward/backward/mixed; every piece is borrowed iff the source is (aliasing the original data), valid UTF-8, normalised, views live memory and reads unchanged after the source is mutated and after it is dropped; every block is freed exactly once",
        "exhaustive": !st.replay && st.stop.is_none(),
        "distribution": dist,
        "pieces_checked": st.pieces,
        "sources": st.sources,
        "failing_checks_total": st.total_fails,
        "samples": st.samples,
        "disagreements": disagreements,
        "internal_errors": st.internal,
    });
    (v, n)
}

/// Writes the stats file atomically (tmp + rename); returns the number of disagreements.
fn flush(st: &Stats, complete: bool, final_: bool) -> usize {
    let (v, n) = render(st, complete, final_);
    let text = serde_json::to_string_pretty(&v).unwrap();
    match &st.out_path {
        Some(p) => {
            let tmp = format!("{p}.tmp");
            if std::fs::write(&tmp, &text).and_then(|_| std::fs::rename(&tmp, p)).is_err() {
                eprintln!("patdrive: cannot write {p}");
            }
        }
        None if complete => println!("{text}"),
        None => {}
    }
    n
}

/// deletes characters from the haystack while the same (kind, label) disagreement reproduces
fn shrink(h: &str, kind: Kind, bk: Bk, f: Fail) -> (String, Fail) {
    let mut cur = h.to_string();
    let mut cur_fail = f;
    let mut rounds = 0;
    'outer: loop {
        rounds += 1;
        if rounds > 200 {
            break;
        }
        let chars: Vec<char> = cur.chars().collect();
        for i in 0..chars.len() {
            let cand: String = chars.iter().enumerate().filter(|(j, _)| *j != i).map(|(_, c)| *c).collect();
            // a heap source needs more than 23 bytes: keep the source kind meaningful
            if matches!(kind, Kind::Heap | Kind::HeapSlice) && cand.len() <= INLINE_CAP {
                continue;
            }
            let (fails, _) = run_dyn(&cand, kind, bk, Some(&cur_fail.label), None);
            if let Some(nf) = fails.into_iter().find(|x| x.kind == cur_fail.kind && x.label == cur_fail.label) {
                cur = cand;
                cur_fail = nf;
                continue 'outer;
            }
        }
        break;
    }
    (cur, cur_fail)
}

// ---------------------------------------------------------------------------------------------
// allocating functions

fn owned_checks(st: &mut Stats, thorough: bool, rng: &mut Rng) {
    fn check<B: Backend>(st: &mut Stats, bk: Bk, what: &str, input: &str, got: Option<HipStr<'_, B>>, want: &str) {
        st.evaluations += 1;
        st.hit(&format!("method {what}"), 1);
        let ok = match &got {
            Some(g) => {
                g.as_bytes() == want.as_bytes()
                    && std::str::from_utf8(g.as_bytes()).is_ok()
                    && (g.is_inline() || g.is_borrowed() || g.len() > INLINE_CAP)
            }
            None => false,
        };
        if want != input {
            st.nontrivial += 1;
        }
        if !ok {
            st.total_fails += 1;
            let key = format!("impl-vs-oracle {what}");
            let better = st.found.get(&key).map_or(true, |(old, ..)| input.len() < old.len());
            if better {
                let observed = match &got {
                    Some(g) => format!("{} normalized={}", hex(g.as_bytes()), g.is_inline() || g.is_borrowed() || g.len() > INLINE_CAP),
                    None => "panic".into(),
                };
                st.found.insert(
                    key,
                    (
                        input.to_string(),
                        Kind::Inline,
                        bk,
                        Fail { kind: "impl-vs-oracle", label: what.to_string(), expected: hex(want.as_bytes()), observed },
                    ),
                );
            }
        }
    }
    fn case_all<B: Backend>(st: &mut Stats, bk: Bk, h: &str) {
        for borrowed in [false, true] {
            let src: HipStr<'_, B> = if borrowed { HipStr::borrowed(h) } else { HipStr::from(h) };
            check::<B>(st, bk, "to_lowercase", h, caught(|| src.to_lowercase()), &h.to_lowercase());
            check::<B>(st, bk, "to_uppercase", h, caught(|| src.to_uppercase()), &h.to_uppercase());
            check::<B>(st, bk, "to_ascii_lowercase", h, caught(|| src.to_ascii_lowercase()), &h.to_ascii_lowercase());
            check::<B>(st, bk, "to_ascii_uppercase", h, caught(|| src.to_ascii_uppercase()), &h.to_ascii_uppercase());
            for n in [0usize, 1, 2, 3, 7] {
                check::<B>(st, bk, "repeat", h, caught(|| src.repeat(n)), &h.repeat(n));
            }
            // in place
            let m = src.clone();
            check::<B>(st, bk, "make_ascii_uppercase", h, caught(move || { let mut m = m; m.make_ascii_uppercase(); m }), &h.to_ascii_uppercase());
            let m = src.clone();
            check::<B>(st, bk, "make_ascii_lowercase", h, caught(move || { let mut m = m; m.make_ascii_lowercase(); m }), &h.to_ascii_lowercase());
            // the source is untouched by the copies
            if src.as_str() != h {
                st.internal.push(format!("source changed by a to_*case/repeat call: {}", hex(h.as_bytes())));
            }
        }
    }
    // case-sensitive alphabet: ASCII both cases, ß (→ SS), İ (→ i̇), Σ/σ (final sigma), ǅ (title case), ﬁ (→ FI), é
    // " " makes word ends inside the string (final sigma: "aΣ a" → "aς a")
    let alpha: [&str; 9] = ["a", "Z", "ß", "İ", "Σ", "ǅ", "ﬁ", "É", " "];
    let max = if thorough { 4 } else { 3 };
    let mut all: Vec<String> = vec![String::new()];
    let mut frontier = vec![String::new()];
    for _ in 0..max {
        let mut next = vec![];
        for f in &frontier {
            for a in alpha {
                next.push(format!("{f}{a}"));
            }
        }
        all.extend(next.iter().cloned());
        frontier = next;
    }
    for _ in 0..(if thorough { 2000 } else { 200 }) {
        let n = 5 + rng.below(30);
        all.push((0..n).map(|_| *rng.pick(&alpha)).collect());
    }
    // named case-mapping inputs and the short class haystacks
    for s in ["ΑΣ", "ΑΣ ", "ΑΣΑ", "Σ", " Σ", "aΣ.b", "ΌΣΟΣ ΟΔΌΣ", "ǅ", "ǆ", "Ǆ", "İstanbul", "ı", "STRASSE", "straße", "ŉ", "ǰ", "ΐ", "ﬃ"] {
        all.push(s.to_string());
    }
    for (_, a) in CLASS_UNITS {
        all.push(a.to_string());
        for (_, b) in CLASS_UNITS {
            all.push(format!("{a}{b}"));
            all.push(format!("A{a}z{b}"));
        }
    }
    for (i, h) in all.iter().enumerate() {
        match i % 3 {
            _ if thorough || h.chars().count() <= 2 => {
                case_all::<Arc>(st, Bk::Arc, h);
                case_all::<Rc>(st, Bk::Rc, h);
                case_all::<Unique>(st, Bk::Unique, h);
            }
            0 => case_all::<Arc>(st, Bk::Arc, h),
            1 => case_all::<Rc>(st, Bk::Rc, h),
            _ => case_all::<Unique>(st, Bk::Unique, h),
        }
    }

    // from_utf16 / from_utf16_lossy: units incl. a surrogate pair (🦀 = D83E DD80) and lone surrogates
    fn utf16<B: Backend>(st: &mut Stats, bk: Bk, v: &[u16]) {
        let input: String = v.iter().map(|u| format!("{u:04x}")).collect::<Vec<_>>().join(" ");
        st.evaluations += 2;
        st.hit("method from_utf16", 1);
        st.hit("method from_utf16_lossy", 1);
        let want = String::from_utf16(v);
        let got = caught(|| HipStr::<'static, B>::from_utf16(v));
        let show = |r: &Result<String, ()>| match r {
            Ok(s) => format!("ok({})", hex(s.as_bytes())),
            Err(()) => "err".to_string(),
        };
        let w = want.map_err(|_| ());
        let g = match &got {
            Some(Ok(g)) => Some(Ok(g.as_str().to_string())),
            Some(Err(_)) => Some(Err(())),
            None => None,
        };
        let norm = |g: &HipStr<'_, B>| g.is_inline() || g.is_borrowed() || g.len() > INLINE_CAP;
        let ok = g.as_ref() == Some(&w) && !matches!(&got, Some(Ok(g)) if !norm(g));
        if w.is_err() {
            st.nontrivial += 1;
        }
        let mut report = |what: &str, expected: String, observed: String| {
            st.total_fails += 1;
            let key = format!("impl-vs-oracle {what}");
            let better = st.found.get(&key).map_or(true, |(old, ..)| input.len() < old.len());
            if better {
                st.found.insert(
                    key,
                    (input.clone(), Kind::Inline, bk, Fail { kind: "impl-vs-oracle", label: what.to_string(), expected, observed }),
                );
            }
        };
        if !ok {
            report("from_utf16", show(&w), g.as_ref().map_or("panic".to_string(), show));
        }
        let want_l = String::from_utf16_lossy(v);
        let got_l = caught(|| HipStr::<'static, B>::from_utf16_lossy(v));
        let ok_l = matches!(&got_l, Some(g) if g.as_str() == want_l && norm(g));
        if !ok_l {
            report(
                "from_utf16_lossy",
                hex(want_l.as_bytes()),
                got_l.map_or("panic".to_string(), |g| hex(g.as_bytes())),
            );
        }
    }
    for (name, v) in UTF16_CORPUS {
        utf16::<Arc>(st, Bk::Arc, v);
        utf16::<Rc>(st, Bk::Rc, v);
        utf16::<Unique>(st, Bk::Unique, v);
        st.hit(&format!("utf16 corpus: {name} {:04x?}", v), 3);
    }
    let units: [u16; 8] = [0x0061, 0x00E9, 0x20AC, 0xD83E, 0xDD80, 0xD800, 0xDC00, 0x0000];
    let max = if thorough { 5 } else { 4 };
    let mut all: Vec<Vec<u16>> = vec![vec![]];
    let mut frontier: Vec<Vec<u16>> = vec![vec![]];
    for _ in 0..max {
        let mut next = vec![];
        for f in &frontier {
            for u in units {
                let mut g = f.clone();
                g.push(u);
                next.push(g);
            }
        }
        all.extend(next.iter().cloned());
        frontier = next;
    }
    for _ in 0..(if thorough { 5000 } else { 500 }) {
        let n = 5 + rng.below(40);
        all.push((0..n).map(|_| *rng.pick(&units)).collect());
    }
    for (i, v) in all.iter().enumerate() {
        match i % 3 {
            0 => utf16::<Arc>(st, Bk::Arc, v),
            1 => utf16::<Rc>(st, Bk::Rc, v),
            _ => utf16::<Unique>(st, Bk::Unique, v),
        }
    }
}

// ---------------------------------------------------------------------------------------------

const UNITS: [&str; 8] = ["a", "b", " ", "\n", "\r\n", "é", "€", "🦀"];

/// The class alphabet: (name with the properties that matter, the unit).
/// White_Space (`char::is_whitespace`, what `trim*`/`split_whitespace` use): TAB LF VT FF CR SPACE NEL NBSP
/// U+1680 U+2003 LS PS U+202F U+205F U+3000. ASCII whitespace (`split_ascii_whitespace`,
/// `u8::is_ascii_whitespace`): TAB LF FF CR SPACE — NOT VT. Line breaks of `str::lines`: LF and CR LF only
/// (a lone CR, NEL, LS, PS are not). U+001C..U+001F and U+FEFF are not whitespace at all.
const CLASS_UNITS: [(&str, &str); 24] = [
    ("U+0009 TAB (white_space, ascii_ws)", "\u{9}"),
    ("U+000A LF (white_space, ascii_ws, line break)", "\n"),
    ("U+000B VT (white_space, NOT ascii_ws)", "\u{b}"),
    ("U+000C FF (white_space, ascii_ws)", "\u{c}"),
    ("U+000D CR (white_space, ascii_ws, line break only before LF)", "\r"),
    ("U+001C FS (control, NOT white_space)", "\u{1c}"),
    ("U+001D GS (control, NOT white_space)", "\u{1d}"),
    ("U+001E RS (control, NOT white_space)", "\u{1e}"),
    ("U+001F US (control, NOT white_space)", "\u{1f}"),
    ("U+0020 SPACE (white_space, ascii_ws)", " "),
    ("U+0085 NEL (white_space, control, NOT a line break for lines)", "\u{85}"),
    ("U+00A0 NBSP (white_space)", "\u{a0}"),
    ("U+1680 OGHAM SPACE (white_space)", "\u{1680}"),
    ("U+2003 EM SPACE (white_space)", "\u{2003}"),
    ("U+2028 LS (white_space, NOT a line break for lines)", "\u{2028}"),
    ("U+2029 PS (white_space, NOT a line break for lines)", "\u{2029}"),
    ("U+202F NNBSP (white_space)", "\u{202f}"),
    ("U+205F MMSP (white_space)", "\u{205f}"),
    ("U+3000 IDEOGRAPHIC SPACE (white_space)", "\u{3000}"),
    ("U+FEFF ZWNBSP/BOM (NOT white_space)", "\u{feff}"),
    ("U+0061 a (alphanumeric)", "a"),
    ("U+00E9 e-acute (alphanumeric)", "é"),
    ("U+0031 1 (numeric)", "1"),
    ("U+00B2 superscript two (numeric, NOT ascii digit)", "\u{b2}"),
];

/// Named `u16` inputs of `from_utf16` / `from_utf16_lossy` (run first, on the three backends).
const UTF16_CORPUS: [(&str, &[u16]); 12] = [
    ("unpaired high surrogate + non-surrogate unit", &[0xD800, 0x0061]),
    ("unpaired high surrogate + another high surrogate", &[0xD800, 0xD800]),
    ("unpaired high surrogate + high surrogate + low surrogate (the 2nd pairs)", &[0xD800, 0xD83E, 0xDD80]),
    ("unpaired high surrogate + non-surrogate + low surrogate", &[0xD800, 0x0061, 0xDC00]),
    ("unpaired high surrogate + BMP non-ASCII unit", &[0xD800, 0x20AC]),
    ("unpaired high surrogate at the end", &[0x0061, 0xD800]),
    ("lone high surrogate", &[0xD83E]),
    ("lone low surrogate", &[0xDC00]),
    ("low surrogate + high surrogate (wrong order)", &[0xDC00, 0xD800]),
    ("valid pair", &[0xD83E, 0xDD80]),
    ("valid pair between unpaired high surrogates", &[0xD800, 0xD83E, 0xDD80, 0xD800]),
    ("long: 24 units then unpaired high surrogate + non-surrogate", &[
        0x61, 0x61, 0x61, 0x61, 0x61, 0x61, 0x61, 0x61, 0x61, 0x61, 0x61, 0x61, 0x61, 0x61, 0x61, 0x61, 0x61, 0x61, 0x61, 0x61,
        0x61, 0x61, 0x61, 0x61, 0xD800, 0x0061,
    ]),
];

fn parse_ops(lines: &[String]) -> Option<(String, Kind, Bk, Option<String>)> {
    let mut hay = None;
    let mut call = None;
    for l in lines {
        let w: Vec<&str> = l.split(' ').collect();
        match w.as_slice() {
            ["hay", hx, k, b] => {
                let bytes = unhex(hx)?;
                hay = Some((String::from_utf8(bytes).ok()?, Kind::parse(k)?, Bk::parse(b)?));
            }
            ["call", ..] => call = Some(l["call ".len()..].to_string()),
            _ => return None,
        }
    }
    let (h, k, b) = hay?;
    Some((h, k, b, call))
}

/// Long haystacks (> 23 bytes, hence heap when owned) of which many methods return the WHOLE
/// haystack as one piece: separator absent, `splitn(1, …)`, nothing to trim, `strip_prefix("")`,
/// a single unterminated line. Run first (and in every tier) as heap, heap-slice and borrowed sources
/// on the three backends, so that the self-sufficiency of whole-haystack pieces of heap sources
/// (mutate the source then read the piece, drop the source then read the piece) does not depend on
/// the random part.
const WHOLE: [&str; 6] = [
    "abababababababababababab",
    "abababababababababababababab",
    "a\u{e9}b\u{20ac}a\u{1f980}b\u{e9}a\u{20ac}b\u{1f980}ab",
    "a b\nb a\r\nab \u{e9}\u{20ac} \u{1f980} ab ab ab",
    "bbbbbbbbbbbbbbbbbbbbbbbbbbbbbbbb",
    " abababababababababababababab\n",
];

fn main() {
    let cli = parse_cli();
    std::panic::set_hook(Box::new(|_| {}));
    let thorough = cli.tier == "thorough";
    let mut st = Stats::default();
    let mut rng = Rng::new(cli.seed);
    st.profile = if cfg!(debug_assertions) { "debug" } else { "release" };
    st.out_path = cli.out.clone();
    st.replay = cli.replay.is_some();
    let profile = st.profile;

    // crash localisation
    if let Ok(path) = std::env::var("VERIF_TRACE") {
        match std::fs::OpenOptions::new().write(true).create(true).truncate(true).open(&path) {
            Ok(f) => {
                let _ = TRACE_FILE.set(f);
                TRACE_ON.store(true, Ordering::Relaxed);
                trace("start");
            }
            Err(e) => {
                eprintln!("patdrive: VERIF_TRACE {path}: {e}");
                std::process::exit(2);
            }
        }
    }

    // optional: the wiring table must have no falsifying row
    if let Some(path) = &cli.lean {
        match LeanDriver::spawn(path, &[]).and_then(|mut d| d.ask("rows")) {
            Ok(ans) if ans == "none" => st.hit("lean wiring rows ok", 1),
            Ok(ans) => st.extra.push(serde_json::json!({
                "kind": "impl-vs-model", "input": ["rows"], "expected": "none", "observed": ans, "profile": profile,
            })),
            Err(e) => {
                eprintln!("patdrive: lean driver: {e}");
                std::process::exit(2);
            }
        }
    }
    // does the wiring table say `size_hint` is forwarded? (then it has to equal std's)
    if let Some(path) = &cli.lean {
        if let Ok(ans) = LeanDriver::spawn(path, &[]).and_then(|mut d| d.ask("forwards")) {
            if ans.split(' ').any(|m| m == "size_hint") {
                SIZE_HINT_FORWARDED.store(true, Ordering::Relaxed);
                st.hit("size_hint forwarded (compared with std's)", 1);
            }
        }
    }
    // a stats file exists from the first moment on
    flush(&st, false, false);

    if let Some(path) = &cli.replay {
        // a disagreement object, a stats file with `disagreements`, or `{"input":[…]}`
        let text = std::fs::read_to_string(path).unwrap_or_else(|e| {
            eprintln!("patdrive: {path}: {e}");
            std::process::exit(2)
        });
        let v: serde_json::Value = serde_json::from_str(&text).unwrap_or_else(|e| {
            eprintln!("patdrive: {path}: {e}");
            std::process::exit(2)
        });
        let cases: Vec<serde_json::Value> = match v.get("disagreements").and_then(|d| d.as_array()) {
            Some(a) => a.clone(),
            None => vec![v.clone()],
        };
        for c in cases {
            let lines: Vec<String> = c
                .get("input")
                .and_then(|i| i.as_array())
                .map(|a| a.iter().filter_map(|x| x.as_str().map(str::to_string)).collect())
                .unwrap_or_default();
            let Some((h, k, b, call)) = parse_ops(&lines) else {
                if lines == ["rows"] {
                    continue;
                }
                eprintln!("patdrive: cannot parse replay input {lines:?}");
                std::process::exit(2);
            };
            let (fails, ss) = run_dyn(&h, k, b, call.as_deref(), None);
            st.evaluations += ss.calls;
            st.pieces += ss.pieces;
            st.sources += 1;
            let mut unsafe_ = false;
            for f in fails {
                st.total_fails += 1;
                unsafe_ |= is_memory_safety(f.kind);
                st.found.insert(format!("{} {} {}", f.kind, f.label, hex(h.as_bytes())), (h.clone(), k, b, f));
            }
            flush(&st, false, false);
            if unsafe_ {
                st.stop = Some("memory-safety monitor fired");
                break;
            }
        }
    } else {
        'plan: {
            // ---- whole-haystack pieces of heap sources, all backends
            for h in WHOLE {
                for k in [Kind::Heap, Kind::HeapSlice, Kind::Borrowed] {
                    for b in [Bk::Arc, Bk::Rc, Bk::Unique] {
                        account(&mut st, h, k, b, None);
                        if st.stop.is_some() {
                            break 'plan;
                        }
                    }
                }
            }
            st.hit("haystacks whole-piece (fixed)", WHOLE.len() as u64);

            // ---- class alphabet: all strings of at most 3 (thorough 4) units, the class methods
            // exhaustively; every 53rd haystack additionally the full grid
            {
                st.class_sweep = true;
                let max_units = if thorough { 4 } else { 3 };
                let mut idx: Vec<usize> = vec![];
                let mut count = 0u64;
                let mut h = String::new();
                loop {
                    h.clear();
                    for &i in &idx {
                        h.push_str(CLASS_UNITS[i].1);
                    }
                    count += 1;
                    for &i in &idx {
                        *st.class_unit_hits.entry(i).or_insert(0) += 1;
                    }
                    let plans: &[u8] = if count % 53 == 3 {
                        &[PLAN_CLASSES_ALL, PLAN_FULL]
                    } else if idx.len() <= 1 {
                        &[PLAN_CLASSES_ALL]
                    } else {
                        &[PLAN_CLASSES]
                    };
                    // inline and borrowed sources never allocate: above 2 units (quick) the backend rotates
                    let bks: &[Bk] = if idx.len() <= 2 || thorough {
                        &[Bk::Arc, Bk::Rc, Bk::Unique]
                    } else {
                        match count % 3 {
                            0 => &[Bk::Arc],
                            1 => &[Bk::Rc],
                            _ => &[Bk::Unique],
                        }
                    };
                    for &plan in plans {
                        PLAN.store(plan, Ordering::Relaxed);
                        for k in [Kind::Inline, Kind::Borrowed] {
                            for &b in bks {
                                account(&mut st, &h, k, b, if count % 97 == 5 && k == Kind::Inline && b == Bk::Rc { Some(count % 40) } else { None });
                                if st.stop.is_some() {
                                    PLAN.store(PLAN_FULL, Ordering::Relaxed);
                                    break 'plan;
                                }
                            }
                        }
                    }
                    let mut pos = idx.len();
                    loop {
                        if pos == 0 {
                            idx = vec![0; idx.len() + 1];
                            break;
                        }
                        pos -= 1;
                        if idx[pos] + 1 < CLASS_UNITS.len() {
                            idx[pos] += 1;
                            for x in idx.iter_mut().skip(pos + 1) {
                                *x = 0;
                            }
                            break;
                        }
                    }
                    if idx.len() > max_units {
                        break;
                    }
                }
                st.hit("classes haystacks enumerated", count);
                // longer ones: heap, heap offset slice, borrowed; both plans
                let n_long = if thorough { 600 } else { 60 };
                PLAN.store(PLAN_BOTH, Ordering::Relaxed);
                for _ in 0..n_long {
                    let n = 9 + rng.below(14);
                    let mut h = String::new();
                    for _ in 0..n {
                        // half of the units plain letters so that words exist between the separators
                        let i = if rng.chance(1, 2) { 20 + rng.below(4) } else { rng.below(20) };
                        h.push_str(CLASS_UNITS[i].1);
                        *st.class_unit_hits.entry(i).or_insert(0) += 1;
                    }
                    let kinds: &[Kind] = if h.len() <= INLINE_CAP { &[Kind::Inline, Kind::Borrowed] } else { &[Kind::Heap, Kind::HeapSlice, Kind::Borrowed] };
                    for &k in kinds {
                        for b in [Bk::Arc, Bk::Rc, Bk::Unique] {
                            account(&mut st, &h, k, b, None);
                            if st.stop.is_some() {
                                PLAN.store(PLAN_FULL, Ordering::Relaxed);
                                break 'plan;
                            }
                        }
                    }
                }
                st.hit("classes haystacks random long", n_long as u64);
                PLAN.store(PLAN_FULL, Ordering::Relaxed);
                st.class_sweep = false;
            }

            // ---- exhaustive part: all strings of at most `max_units` units
            let max_units = if thorough { 6 } else { 4 };
            // every backend up to this many units; above, the backend rotates with the haystack index
            let all_backends_upto = if thorough { 5 } else { 4 };
            let mut idx: Vec<usize> = vec![];
            let mut count = 0u64;
            let mut h = String::new();
            loop {
                h.clear();
                for &i in &idx {
                    h.push_str(UNITS[i]);
                }
                count += 1;
                let sample = if count % 467 == 1 { Some(count * 37 % 1300) } else { None };
                let kinds: &[Kind] = if h.len() <= INLINE_CAP { &[Kind::Inline, Kind::Borrowed] } else { &[Kind::Heap, Kind::HeapSlice, Kind::Borrowed] };
                let bks: Vec<Bk> = if idx.len() <= all_backends_upto {
                    vec![Bk::Arc, Bk::Rc, Bk::Unique]
                } else {
                    vec![[Bk::Arc, Bk::Rc, Bk::Unique][(count % 3) as usize]]
                };
                for &k in kinds {
                    for &b in &bks {
                        account(&mut st, &h, k, b, if k == Kind::Inline && b == bks[0] { sample } else { None });
                        if st.stop.is_some() {
                            break 'plan;
                        }
                    }
                }
                // next index vector (shortlex)
                let mut pos = idx.len();
                loop {
                    if pos == 0 {
                        idx = vec![0; idx.len() + 1];
                        break;
                    }
                    pos -= 1;
                    if idx[pos] + 1 < UNITS.len() {
                        idx[pos] += 1;
                        for x in idx.iter_mut().skip(pos + 1) {
                            *x = 0;
                        }
                        break;
                    }
                }
                if idx.len() > max_units {
                    break;
                }
            }
            st.hit("haystacks enumerated", count);

            // ---- random longer haystacks: heap, heap offset slices, borrowed (and inline when short)
            let n_random = if thorough { 6000 } else { 600 };
            for r in 0..n_random {
                let n = if r % 4 == 0 { 5 + rng.below(6) } else { 8 + rng.below(40) };
                // skewed alphabets so that long matches / separators runs occur
                let skew = rng.below(4);
                let mut h = String::new();
                for _ in 0..n {
                    let u = match skew {
                        0 => rng.below(8),
                        1 => [0, 0, 0, 1, 2, 5][rng.below(6)],
                        2 => [2, 3, 4, 0, 2, 7][rng.below(6)],
                        _ => [0, 1, 5, 6, 7, 4][rng.below(6)],
                    };
                    h.push_str(UNITS[u]);
                }
                let kinds: &[Kind] = if h.len() <= INLINE_CAP { &[Kind::Inline, Kind::Borrowed] } else { &[Kind::Heap, Kind::HeapSlice, Kind::Borrowed] };
                for &k in kinds {
                    for b in [Bk::Arc, Bk::Rc, Bk::Unique] {
                        account(&mut st, &h, k, b, if r % 50 == 0 && k == Kind::HeapSlice && b == Bk::Arc { Some(r as u64 * 7 % 1300) } else { None });
                        if st.stop.is_some() {
                            break 'plan;
                        }
                    }
                }
            }
            st.hit("haystacks random", n_random as u64);

            if trace_on() {
                trace("allocating functions (to_*case, repeat, from_utf16*)");
            }
            owned_checks(&mut st, thorough, &mut rng);
            // these run outside a tracking window: only bad frees can be seen
            for (k, serial, size) in alloc::take_violations() {
                if k == alloc::V_TABLE_FULL {
                    continue;
                }
                st.total_fails += 1;
                st.stop = Some("memory-safety monitor fired");
                st.found.insert(
                    alloc_kind(k).to_string(),
                    (
                        String::new(),
                        Kind::Inline,
                        Bk::Arc,
                        Fail {
                            kind: alloc_kind(k),
                            label: "allocating-functions".into(),
                            expected: "every block freed exactly once".into(),
                            observed: format!("{} (block #{serial}, size {})", alloc::violation_name(k), size & 0xffff_ffff_ffff),
                        },
                    ),
                );
            }
        }
    }

    // every (iterator method x consumption mode) pair must have been exercised by a full run
    if !st.replay && st.stop.is_none() {
        const DE_METHODS: [&str; 12] = [
            "split", "split_inclusive", "split_terminator", "rsplit", "rsplit_terminator", "matches", "rmatches",
            "match_indices", "rmatch_indices", "lines", "split_whitespace", "split_ascii_whitespace",
        ];
        for m in DE_METHODS {
            for d in [Dir::Fwd, Dir::Back, Dir::Mixed].into_iter().chain(DE_EXTRA) {
                if st.modes.get(&(m, d)).copied().unwrap_or(0) == 0 {
                    st.internal.push(format!("mode never exercised: {m} {}", d.name()));
                }
            }
        }
        for m in ["splitn", "rsplitn"] {
            for d in std::iter::once(Dir::Fwd).chain(FWD_EXTRA) {
                if st.modes.get(&(m, d)).copied().unwrap_or(0) == 0 {
                    st.internal.push(format!("mode never exercised: {m} {}", d.name()));
                }
            }
        }
    }

    // ---- report (haystacks are shrunk unless the heap may be corrupted)
    if trace_on() {
        trace("report");
    }
    let n_dis = flush(&st, true, true);
    eprintln!(
        "patdrive[{profile}/{}]: {} calls, {} pieces, {} sources, {} disagreement(s){}",
        cli.tier,
        st.evaluations,
        st.pieces,
        st.sources,
        n_dis,
        st.stop.map_or(String::new(), |s| format!(" — stopped early: {s}"))
    );
    if !st.internal.is_empty() {
        std::process::exit(2);
    }
    // no destructor runs: whatever is left of the heap is not touched again
    std::process::exit(if n_dis == 0 { 0 } else { 1 });
}
