//! C08 correspondence: range / sub-slice APIs of the real crate vs std vs the GENERATED Lean
//! functions (`range_driver`).
//!
//! Exhaustive over the property's grid: bound kinds {Included, Excluded, Unbounded}^2 ×
//! boundary values {0,1,len-1,len,len+1,usize::MAX-1,usize::MAX} × lengths {0,1,5,23,24,40}
//! × representations {borrowed, inline/heap owned, heap slice at an offset} × backends
//! {Arc, Rc, Unique}, for `HipByt::try_slice`/`slice`, `HipStr::try_slice`/`slice`;
//! sub-slice probes for `try_slice_ref`/`slice_ref` (every in-range (offset,len), foreign,
//! adjacent-before/after, straddling, empty at both ends); vector range operations
//! (`ThinVec::try_drain`, `try_extend_from_within`, `InlineVec::drain`/`extend_from_within`)
//! against `Vec`.

use std::collections::BTreeMap;
use std::ops::Bound;
use std::panic::{catch_unwind, AssertUnwindSafe};

use hipstr::bytes::HipByt;
use hipstr::string::HipStr;
use hipstr::vecs::{InlineVec, ThinVec};
use hipstr::{Arc, Backend, Rc, Unique};
use hipverif_harness::util::{hex, parse_cli, LeanDriver};

#[derive(Default)]
struct Stats {
    evaluations: u64,
    distinct: std::collections::BTreeSet<String>,
    dist: BTreeMap<String, u64>,
    samples: Vec<String>,
    disagreements: Vec<serde_json::Value>,
}

impl Stats {
    fn hit(&mut self, k: &str) {
        *self.dist.entry(k.to_string()).or_insert(0) += 1;
    }
    fn disagree(&mut self, kind: &str, input: Vec<String>, expected: String, observed: String) {
        if self.disagreements.len() < 50 {
            self.disagreements.push(serde_json::json!({
                "kind": kind, "input": input, "expected": expected, "observed": observed,
                "profile": profile(),
            }));
        }
    }
}

fn profile() -> &'static str {
    if cfg!(debug_assertions) {
        "debug"
    } else {
        "release"
    }
}

fn bshow(b: &Bound<usize>) -> String {
    match b {
        Bound::Included(n) => format!("i{n}"),
        Bound::Excluded(n) => format!("x{n}"),
        Bound::Unbounded => "u".into(),
    }
}

fn grid_vals(len: usize) -> Vec<usize> {
    let mut v = vec![0, 1, len.wrapping_sub(1), len, len + 1, usize::MAX - 1, usize::MAX];
    // len - 1 for len = 0 is usize::MAX: already in the list; dedup keeps order irrelevant
    v.sort_unstable();
    v.dedup();
    v
}

fn grid_bounds(len: usize) -> Vec<Bound<usize>> {
    let mut b = vec![Bound::Unbounded];
    for v in grid_vals(len) {
        b.push(Bound::Included(v));
    }
    for v in grid_vals(len) {
        b.push(Bound::Excluded(v));
    }
    b
}

fn payload(len: usize) -> Vec<u8> {
    (0..len).map(|i| b'a' + (i % 26) as u8).collect()
}

/// Values of a given length in every representation the length allows.
fn byt_reprs<'a, B: Backend>(data: &'a [u8], big: &'a [u8]) -> Vec<(&'static str, HipByt<'a, B>)> {
    let len = data.len();
    let mut v: Vec<(&'static str, HipByt<'a, B>)> = vec![];
    v.push(("borrowed", HipByt::borrowed(data)));
    v.push(("owned", HipByt::from(data)));
    v.push(("from_vec", HipByt::from(data.to_vec())));
    // a heap value sliced at an offset (shares or copies depending on the backend)
    let whole: HipByt<'a, B> = HipByt::from(big);
    let off = 3;
    if big.len() >= off + len {
        let s = whole.slice(off..off + len);
        v.push(("heap_slice", s));
    }
    // a value with spare capacity (with_capacity lineage)
    let mut w = HipByt::with_capacity(64);
    w.push_slice(data);
    v.push(("with_capacity", w));
    v
}

fn kind_name_b(k: hipstr::bytes::SliceErrorKind) -> &'static str {
    use hipstr::bytes::SliceErrorKind as K;
    match k {
        K::StartGreaterThanEnd => "StartGreaterThanEnd",
        K::StartOutOfBounds => "StartOutOfBounds",
        K::EndOutOfBounds => "EndOutOfBounds",
    }
}

fn kind_name_s(k: hipstr::string::SliceErrorKind) -> &'static str {
    use hipstr::string::SliceErrorKind as K;
    match k {
        K::StartGreaterThanEnd => "StartGreaterThanEnd",
        K::StartOutOfBounds => "StartOutOfBounds",
        K::EndOutOfBounds => "EndOutOfBounds",
        K::StartNotACharBoundary => "StartNotACharBoundary",
        K::EndNotACharBoundary => "EndNotACharBoundary",
    }
}

fn byt_grid<B: Backend>(bk: &str, st: &mut Stats, lean: &mut Option<LeanDriver>) {
    for &len in &[0usize, 1, 5, 23, 24, 40] {
        let data = payload(len);
        let mut bigv = vec![b'#'; 3];
        bigv.extend_from_slice(&data);
        bigv.extend_from_slice(&[b'$'; 30]);
        for (rname, h) in byt_reprs::<B>(&data, &bigv) {
            assert_eq!(h.as_slice(), &data[..]);
            for sb in grid_bounds(len) {
                for eb in grid_bounds(len) {
                    st.evaluations += 1;
                    let input = vec![format!(
                        "HipByt<{bk}> repr={rname} len={len} try_slice({},{})",
                        bshow(&sb),
                        bshow(&eb)
                    )];
                    let oracle: Option<Vec<u8>> = data.get((sb, eb)).map(<[u8]>::to_vec);
                    let got = catch_unwind(AssertUnwindSafe(|| match h.try_slice((sb, eb)) {
                        Ok(s) => Ok(s.as_slice().to_vec()),
                        Err(e) => Err((kind_name_b(e.kind()), e.start(), e.end())),
                    }));
                    let impl_line = match &got {
                        Ok(Ok(bytes)) => {
                            // recover the range from the content position is not possible in general;
                            // compare content with the oracle and the range with the model through lengths
                            format!("ok {}", hex(bytes))
                        }
                        Ok(Err((k, a, b))) => format!("err {a} {b} {k}"),
                        Err(_) => "panic".to_string(),
                    };
                    let exp_line = match &oracle {
                        Some(bytes) => format!("ok {}", hex(bytes)),
                        None => "err".to_string(),
                    };
                    let agree = match (&got, &oracle) {
                        (Ok(Ok(a)), Some(b)) => a == b,
                        (Ok(Err(_)), None) => true,
                        _ => false,
                    };
                    st.hit(match &got {
                        Ok(Ok(_)) => "byt.try_slice.ok",
                        Ok(Err((k, _, _))) => k,
                        Err(_) => "byt.try_slice.panic",
                    });
                    st.distinct.insert(format!("byt {rname} {len} {} {} {}", bshow(&sb), bshow(&eb), impl_line.split(' ').next().unwrap()));
                    if !agree {
                        st.disagree("impl-vs-oracle", input.clone(), exp_line.clone(), impl_line.clone());
                    }
                    // `slice` panics exactly when `try_slice` errs
                    let sl = catch_unwind(AssertUnwindSafe(|| h.slice((sb, eb)).as_slice().to_vec()));
                    let sl_ok = match (&sl, &oracle) {
                        (Ok(a), Some(b)) => a == b,
                        (Err(_), None) => true,
                        _ => false,
                    };
                    if !sl_ok {
                        st.disagree(
                            "impl-vs-oracle",
                            vec![input[0].replace("try_slice", "slice")],
                            exp_line.clone(),
                            match &sl {
                                Ok(a) => format!("ok {}", hex(a)),
                                Err(_) => "panic".into(),
                            },
                        );
                    }
                    // model (generated function)
                    if let Some(l) = lean.as_mut() {
                        let m = l
                            .ask(&format!("simplify {} {} {len}", bshow(&sb), bshow(&eb)))
                            .unwrap_or_else(|e| format!("driver-error {e}"));
                        let model_ok = match (&got, m.split(' ').collect::<Vec<_>>().as_slice()) {
                            (Ok(Ok(bytes)), ["ok", a, b]) => {
                                let (a, b): (usize, usize) = (a.parse().unwrap(), b.parse().unwrap());
                                a <= b && b <= len && &data[a..b] == &bytes[..]
                            }
                            (Ok(Err((k, a, b))), ["err", ma, mb, mk]) => {
                                a.to_string() == *ma && b.to_string() == *mb && k == mk
                            }
                            _ => false,
                        };
                        if !model_ok {
                            st.disagree("impl-vs-model", input.clone(), m, impl_line.clone());
                        }
                    }
                    if st.samples.len() < 6 && (st.evaluations % 977 == 1) {
                        st.samples.push(format!("{} -> {}", input[0], impl_line));
                    }
                }
            }
        }
    }
}

fn str_grid<B: Backend>(bk: &str, st: &mut Stats, lean: &mut Option<LeanDriver>) {
    // strings with multi-byte scalars so that interior indices are not boundaries
    let texts: Vec<String> = vec![
        "".into(),
        "a".into(),
        "é".into(),
        "aé€b".into(),          // 1+2+3+1 = 7
        "🦀ab".into(),          // 4+1+1
        "abcdefghijklmnopqrstuvw".into(), // 23
        "abcdefghijklmnopqrstuv€".into(), // 22 + 3 = 25
        "€".repeat(14),         // 42
    ];
    for text in &texts {
        let len = text.len();
        let big = format!("###{text}$$$$$$$$$$$$$$$$$$$$$$$$$$$$$$");
        let mut reprs: Vec<(&str, HipStr<B>)> = vec![
            ("borrowed", HipStr::borrowed(text.as_str())),
            ("owned", HipStr::from(text.as_str())),
            ("from_string", HipStr::from(text.clone())),
        ];
        let whole: HipStr<B> = HipStr::from(big.as_str());
        reprs.push(("heap_slice", whole.slice(3..3 + len)));
        for (rname, h) in reprs {
            assert_eq!(h.as_str(), text.as_str());
            // every index 0..=len+1 plus the far values
            let mut vals: Vec<usize> = (0..=len + 1).collect();
            vals.push(usize::MAX - 1);
            vals.push(usize::MAX);
            let mut bounds = vec![Bound::Unbounded];
            // keep the product manageable for the long strings: all indices for short ones,
            // boundary-adjacent ones for long ones
            let vals: Vec<usize> = if len > 12 {
                let mut v = vec![0, 1, 2, 3, len / 2, len / 2 + 1, len - 3, len - 2, len - 1, len, len + 1, usize::MAX - 1, usize::MAX];
                v.sort_unstable();
                v.dedup();
                v
            } else {
                vals
            };
            for v in &vals {
                bounds.push(Bound::Included(*v));
                bounds.push(Bound::Excluded(*v));
            }
            for sb in &bounds {
                for eb in &bounds {
                    st.evaluations += 1;
                    let input = vec![format!(
                        "HipStr<{bk}> repr={rname} text={} try_slice({},{})",
                        hex(text.as_bytes()),
                        bshow(sb),
                        bshow(eb)
                    )];
                    let oracle: Option<String> = text.get((*sb, *eb)).map(str::to_string);
                    let got = catch_unwind(AssertUnwindSafe(|| match h.try_slice((*sb, *eb)) {
                        Ok(s) => Ok(s.as_str().to_string()),
                        Err(e) => Err((kind_name_s(e.kind()), e.start(), e.end())),
                    }));
                    let impl_line = match &got {
                        Ok(Ok(s)) => format!("ok {}", hex(s.as_bytes())),
                        Ok(Err((k, a, b))) => format!("err {a} {b} {k}"),
                        Err(_) => "panic".to_string(),
                    };
                    let agree = match (&got, &oracle) {
                        (Ok(Ok(a)), Some(b)) => a == b,
                        (Ok(Err(_)), None) => true,
                        _ => false,
                    };
                    st.hit(match &got {
                        Ok(Ok(_)) => "str.try_slice.ok",
                        Ok(Err((k, _, _))) => k,
                        Err(_) => "str.try_slice.panic",
                    });
                    st.distinct.insert(format!("str {rname} {} {} {} {}", hex(text.as_bytes()), bshow(sb), bshow(eb), impl_line.split(' ').next().unwrap()));
                    let exp_line = match &oracle {
                        Some(s) => format!("ok {}", hex(s.as_bytes())),
                        None => "err".into(),
                    };
                    if !agree {
                        st.disagree("impl-vs-oracle", input.clone(), exp_line.clone(), impl_line.clone());
                    }
                    // the error must name the failing bound: boundary errors only for in-range bounds
                    if let Ok(Err((k, a, b))) = &got {
                        let ok = match *k {
                            "StartNotACharBoundary" => *a <= len && *b <= len && a <= b && !text.is_char_boundary(*a),
                            "EndNotACharBoundary" => *a <= len && *b <= len && a <= b && text.is_char_boundary(*a) && !text.is_char_boundary(*b),
                            "StartOutOfBounds" => *a > len,
                            "EndOutOfBounds" => *a <= len && *b > len,
                            "StartGreaterThanEnd" => *a <= len && *b <= len && a > b,
                            _ => false,
                        };
                        if !ok {
                            st.disagree("impl-vs-oracle", input.clone(), "error kind names the failing bound".into(), impl_line.clone());
                        }
                    }
                    let sl = catch_unwind(AssertUnwindSafe(|| h.slice((*sb, *eb)).as_str().to_string()));
                    let sl_ok = match (&sl, &oracle) {
                        (Ok(a), Some(b)) => a == b,
                        (Err(_), None) => true,
                        _ => false,
                    };
                    if !sl_ok {
                        st.disagree(
                            "impl-vs-oracle",
                            vec![input[0].replace("try_slice", "slice")],
                            exp_line,
                            match &sl {
                                Ok(a) => format!("ok {}", hex(a.as_bytes())),
                                Err(_) => "panic".into(),
                            },
                        );
                    }
                    if let Some(l) = lean.as_mut() {
                        // the range part is the generated function; boundary failures come after it
                        let m = l
                            .ask(&format!("simplify {} {} {len}", bshow(sb), bshow(eb)))
                            .unwrap_or_else(|e| format!("driver-error {e}"));
                        let parts: Vec<&str> = m.split(' ').collect();
                        let model_ok = match (&got, parts.as_slice()) {
                            (Ok(Ok(s)), ["ok", a, b]) => {
                                let (a, b): (usize, usize) = (a.parse().unwrap(), b.parse().unwrap());
                                text.get(a..b) == Some(s.as_str())
                            }
                            (Ok(Err((k, a, b))), ["ok", ma, mb]) => {
                                k.ends_with("NotACharBoundary") && a.to_string() == *ma && b.to_string() == *mb
                            }
                            (Ok(Err((k, a, b))), ["err", ma, mb, mk]) => {
                                a.to_string() == *ma && b.to_string() == *mb && k == mk
                            }
                            _ => false,
                        };
                        if !model_ok {
                            st.disagree("impl-vs-model", input.clone(), m, impl_line.clone());
                        }
                    }
                }
            }
        }
    }
}

fn slice_ref_probes<B: Backend>(bk: &str, st: &mut Stats, lean: &mut Option<LeanDriver>) {
    // one big caller buffer; values borrowed from its middle make adjacent / straddling probes legal
    let arena: Vec<u8> = (0..120u8).collect();
    let foreign: Vec<u8> = vec![7u8; 64];
    for &len in &[0usize, 1, 5, 23, 24, 40] {
        let base = 30;
        let window = &arena[base..base + len];
        let mut values: Vec<(&str, HipByt<B>)> = vec![("borrowed", HipByt::borrowed(window))];
        values.push(("owned", HipByt::from(window)));
        let big: HipByt<B> = HipByt::from(&arena[..]);
        values.push(("heap_slice", big.slice(base..base + len)));
        for (rname, h) in &values {
            let whole: &[u8] = h.as_slice();
            let wp = whole.as_ptr() as usize;
            // probes: (name, slice)
            let mut probes: Vec<(String, &[u8])> = vec![];
            for off in 0..=len {
                for l in 0..=(len - off) {
                    // keep the quadratic product small for the long ones
                    if len > 8 && !(off <= 1 || off + l >= len - 1 || l == 24 || l == 23) {
                        continue;
                    }
                    probes.push((format!("in {off} {l}"), &whole[off..off + l]));
                }
            }
            probes.push(("foreign".into(), &foreign[..len.min(10)]));
            probes.push(("foreign-empty".into(), &foreign[..0]));
            if *rname == "borrowed" {
                // same allocation as the value: adjacent and straddling slices are real slices
                probes.push(("before".into(), &arena[base - 4..base - 1]));
                probes.push(("touching-before".into(), &arena[base - 3..base]));
                probes.push(("straddle-start".into(), &arena[base - 2..base + len.min(2)]));
                probes.push(("straddle-end".into(), &arena[base + len.saturating_sub(1)..base + len + 2]));
                probes.push(("touching-after".into(), &arena[base + len..base + len + 3]));
                probes.push(("after".into(), &arena[base + len + 1..base + len + 4]));
                probes.push(("empty-before".into(), &arena[base - 1..base - 1]));
                probes.push(("empty-after".into(), &arena[base + len + 1..base + len + 1]));
                probes.push(("superset".into(), &arena[base - 1..base + len + 1]));
            }
            for (pname, p) in probes {
                st.evaluations += 1;
                let pp = p.as_ptr() as usize;
                let inside = pp >= wp && pp + p.len() <= wp + whole.len();
                let input = vec![format!(
                    "HipByt<{bk}> repr={rname} len={len} try_slice_ref(probe={pname} rel={} plen={})",
                    pp as i128 - wp as i128,
                    p.len()
                )];
                let got = catch_unwind(AssertUnwindSafe(|| h.try_slice_ref(p).map(|s| s.as_slice().to_vec())));
                let impl_line = match &got {
                    Ok(Some(b)) => format!("some {}", hex(b)),
                    Ok(None) => "none".into(),
                    Err(_) => "panic".into(),
                };
                let agree = match &got {
                    Ok(Some(b)) => inside && &b[..] == p,
                    Ok(None) => !inside,
                    Err(_) => false,
                };
                st.hit(if inside { "slice_ref.inside" } else { "slice_ref.outside" });
                st.distinct.insert(format!("ref {rname} {len} {pname}"));
                if !agree {
                    st.disagree(
                        "impl-vs-oracle",
                        input.clone(),
                        if inside { format!("some {}", hex(p)) } else { "none".into() },
                        impl_line.clone(),
                    );
                }
                let sr = catch_unwind(AssertUnwindSafe(|| h.slice_ref(p).as_slice().to_vec()));
                let sr_ok = match &sr {
                    Ok(b) => inside && &b[..] == p,
                    Err(_) => !inside,
                };
                if !sr_ok {
                    st.disagree(
                        "impl-vs-oracle",
                        vec![input[0].replace("try_slice_ref", "slice_ref")],
                        if inside { "value".into() } else { "panic".into() },
                        match &sr {
                            Ok(b) => format!("ok {}", hex(b)),
                            Err(_) => "panic".into(),
                        },
                    );
                }
                if let Some(l) = lean.as_mut() {
                    // addresses are rebased so that the run is reproducible
                    let (mp, mq) = if pp >= wp { (1000usize, 1000 + (pp - wp)) } else { (1000 + (wp - pp), 1000usize) };
                    let far = (pp as i128 - wp as i128).unsigned_abs() > 100_000;
                    let (mp, mq) = if far { (1000, 9_000_000) } else { (mp, mq) };
                    let m = l
                        .ask(&format!("rangeof {mp} {} {mq} {}", whole.len(), p.len()))
                        .unwrap_or_else(|e| format!("driver-error {e}"));
                    let parts: Vec<&str> = m.split(' ').collect();
                    let model_ok = match (&got, parts.as_slice()) {
                        (Ok(Some(b)), ["some", o, e]) => {
                            let (o, e): (usize, usize) = (o.parse().unwrap(), e.parse().unwrap());
                            e <= whole.len() && o <= e && &whole[o..e] == &b[..]
                        }
                        (Ok(None), ["none"]) => true,
                        _ => false,
                    };
                    if !model_ok {
                        st.disagree("impl-vs-model", input.clone(), m, impl_line.clone());
                    }
                }
            }
        }
    }
}

fn vec_ranges(st: &mut Stats, lean: &mut Option<LeanDriver>) {
    for &len in &[0usize, 1, 5] {
        let items: Vec<u32> = (0..len as u32).map(|i| i + 10).collect();
        for sb in grid_bounds(len) {
            for eb in grid_bounds(len) {
                st.evaluations += 1;
                let rng = (sb, eb);
                // oracle: Vec::drain / extend_from_within
                let oracle_drain = catch_unwind(AssertUnwindSafe(|| {
                    let mut v = items.clone();
                    let d: Vec<u32> = v.drain(rng).collect();
                    (d, v)
                }));
                let oracle_efw = catch_unwind(AssertUnwindSafe(|| {
                    let mut v = items.clone();
                    v.extend_from_within(rng);
                    v
                }));
                // ThinVec::try_drain
                let tv_drain = catch_unwind(AssertUnwindSafe(|| {
                    let mut v: ThinVec<u32> = ThinVec::from_slice_copy(&items);
                    let r = match v.try_drain(rng) {
                        Ok(d) => Ok(d.collect::<Vec<u32>>()),
                        Err(e) => Err(format!("{e:?}")),
                    };
                    (r, v.as_slice().to_vec())
                }));
                let input = vec![format!("ThinVec<u32> len={len} try_drain({},{})", bshow(&sb), bshow(&eb))];
                let impl_line = format!("{tv_drain:?}");
                let agree = match (&tv_drain, &oracle_drain) {
                    (Ok((Ok(d), rest)), Ok((od, orest))) => d == od && rest == orest,
                    (Ok((Err(_), rest)), Err(_)) => rest == &items,
                    _ => false,
                };
                st.hit(match &tv_drain {
                    Ok((Ok(_), _)) => "tv.try_drain.ok",
                    Ok((Err(_), _)) => "tv.try_drain.err",
                    Err(_) => "tv.try_drain.panic",
                });
                st.distinct.insert(format!("tvd {len} {} {}", bshow(&sb), bshow(&eb)));
                if !agree {
                    st.disagree("impl-vs-oracle", input.clone(), format!("{oracle_drain:?}"), impl_line.clone());
                }
                if let Some(l) = lean.as_mut() {
                    let m = l
                        .ask(&format!("vecrange {} {} {len}", bshow(&sb), bshow(&eb)))
                        .unwrap_or_else(|e| format!("driver-error {e}"));
                    let parts: Vec<&str> = m.split(' ').collect();
                    let model_ok = match (&tv_drain, parts.as_slice()) {
                        (Ok((Ok(d), _)), ["ok", a, b]) => {
                            let (a, b): (usize, usize) = (a.parse().unwrap(), b.parse().unwrap());
                            a <= b && b <= len && d[..] == items[a..b]
                        }
                        (Ok((Err(e), _)), ["err", k, ..]) => e.starts_with(k),
                        _ => false,
                    };
                    if !model_ok {
                        st.disagree("impl-vs-model", input.clone(), m, impl_line.clone());
                    }
                }
                // ThinVec::drain (panicking form) and extend_from_within
                let tv_drain_p = catch_unwind(AssertUnwindSafe(|| {
                    let mut v: ThinVec<u32> = ThinVec::from_slice_copy(&items);
                    let d: Vec<u32> = v.drain(rng).collect();
                    (d, v.as_slice().to_vec())
                }));
                let ok = match (&tv_drain_p, &oracle_drain) {
                    (Ok(a), Ok(b)) => a == b,
                    (Err(_), Err(_)) => true,
                    _ => false,
                };
                if !ok {
                    st.disagree("impl-vs-oracle", vec![input[0].replace("try_drain", "drain")], format!("{oracle_drain:?}"), format!("{tv_drain_p:?}"));
                }
                let tv_efw = catch_unwind(AssertUnwindSafe(|| {
                    let mut v: ThinVec<u32> = ThinVec::from_slice_copy(&items);
                    let r = v.try_extend_from_within(rng).map_err(|e| format!("{e:?}"));
                    (r, v.as_slice().to_vec())
                }));
                let ok = match (&tv_efw, &oracle_efw) {
                    (Ok((Ok(()), v)), Ok(ov)) => v == ov,
                    (Ok((Err(_), v)), Err(_)) => v == &items,
                    _ => false,
                };
                if !ok {
                    st.disagree("impl-vs-oracle", vec![input[0].replace("try_drain", "try_extend_from_within")], format!("{oracle_efw:?}"), format!("{tv_efw:?}"));
                }
                // InlineVec (capacity 16: never the limiting factor here)
                let iv_drain = catch_unwind(AssertUnwindSafe(|| {
                    let mut v: InlineVec<u32, 16> = InlineVec::new();
                    for x in &items {
                        v.push(*x);
                    }
                    let d: Vec<u32> = v.drain(rng).collect();
                    (d, v.as_slice().to_vec())
                }));
                let ok = match (&iv_drain, &oracle_drain) {
                    (Ok(a), Ok(b)) => a == b,
                    (Err(_), Err(_)) => true,
                    _ => false,
                };
                if !ok {
                    st.disagree("impl-vs-oracle", vec![input[0].replace("ThinVec<u32>", "InlineVec<u32,16>").replace("try_drain", "drain")], format!("{oracle_drain:?}"), format!("{iv_drain:?}"));
                }
                let iv_efw = catch_unwind(AssertUnwindSafe(|| {
                    let mut v: InlineVec<u32, 16> = InlineVec::new();
                    for x in &items {
                        v.push(*x);
                    }
                    v.extend_from_within(rng);
                    v.as_slice().to_vec()
                }));
                let ok = match (&iv_efw, &oracle_efw) {
                    (Ok(a), Ok(b)) => a == b,
                    (Err(_), Err(_)) => true,
                    _ => false,
                };
                if !ok {
                    st.disagree("impl-vs-oracle", vec![input[0].replace("ThinVec<u32>", "InlineVec<u32,16>").replace("try_drain", "extend_from_within")], format!("{oracle_efw:?}"), format!("{iv_efw:?}"));
                }
            }
        }
    }
}

/// The std-side SPEC in Lean (`stdget`) against real std on the same grid: validates the spec.
fn spec_vs_std(st: &mut Stats, lean: &mut Option<LeanDriver>) {
    let Some(l) = lean.as_mut() else { return };
    for &len in &[0usize, 1, 5, 23, 24, 40] {
        let data = payload(len);
        for sb in grid_bounds(len) {
            for eb in grid_bounds(len) {
                st.evaluations += 1;
                let std_r = data.get((sb, eb)).map(|s| {
                    let a = s.as_ptr() as usize - data.as_ptr() as usize;
                    (a, a + s.len())
                });
                let m = l
                    .ask(&format!("stdget {} {} {len}", bshow(&sb), bshow(&eb)))
                    .unwrap_or_else(|e| format!("driver-error {e}"));
                let exp = match std_r {
                    Some((a, b)) => format!("some {a} {b}"),
                    None => "none".into(),
                };
                // an empty result has no observable position in std: compare emptiness only
                let ok = m == exp || (m.starts_with("some") && std_r.map_or(false, |(a, b)| a == b) && {
                    let p: Vec<&str> = m.split(' ').collect();
                    p[1] == p[2]
                });
                st.hit("spec.stdget");
                if !ok {
                    st.disagree("spec-vs-std", vec![format!("stdget {} {} {len}", bshow(&sb), bshow(&eb))], exp, m);
                }
            }
        }
    }
}

fn main() {
    let cli = parse_cli();
    std::panic::set_hook(Box::new(|_| {}));
    let mut st = Stats::default();
    let mut lean = cli.lean.as_ref().map(|p| LeanDriver::spawn(p, &[]).expect("spawn lean driver"));

    if let Some(rp) = &cli.replay {
        // a replay names the failing input in words; the grid is small enough to re-run fully
        eprintln!("replay of {rp}: re-running the exhaustive grid");
    }

    byt_grid::<Arc>("Arc", &mut st, &mut lean);
    byt_grid::<Rc>("Rc", &mut st, &mut lean);
    byt_grid::<Unique>("Unique", &mut st, &mut lean);
    str_grid::<Arc>("Arc", &mut st, &mut lean);
    str_grid::<Rc>("Rc", &mut st, &mut lean);
    str_grid::<Unique>("Unique", &mut st, &mut lean);
    slice_ref_probes::<Arc>("Arc", &mut st, &mut lean);
    slice_ref_probes::<Rc>("Rc", &mut st, &mut lean);
    slice_ref_probes::<Unique>("Unique", &mut st, &mut lean);
    vec_ranges(&mut st, &mut lean);
    spec_vs_std(&mut st, &mut lean);

    // model-side search support: which grid points make the generated functions disagree with the spec
    let mut grid_line = String::new();
    if let Some(l) = lean.as_mut() {
        grid_line = l.ask("grid").unwrap_or_default();
        if grid_line != "none" {
            st.disagree("model-vs-spec", vec!["grid".into()], "none".into(), grid_line.chars().take(2000).collect());
        }
    }

    let out = serde_json::json!({
        "evaluations": st.evaluations,
        "distinct_nontrivial": st.distinct.len(),
        "rule": "exhaustive grid: bound kinds^2 x {0,1,len-1,len,len+1,MAX-1,MAX} x len {0,1,5,23,24,40} x repr {borrowed, owned, from_vec, heap_slice, with_capacity} x backend {Arc,Rc,Unique} for HipByt try_slice/slice; HipStr over 8 multi-byte texts x all indices 0..=len+1 (+MAX-1, MAX); try_slice_ref/slice_ref address probes (every in-range (off,len), foreign, before/after/touching/straddling/superset, empty at both ends); ThinVec/InlineVec drain/try_drain/(try_)extend_from_within vs Vec on the same grid; Lean Spec.stdGet vs real std. distinct = distinct (type, repr, len, bounds/probe, outcome class)",
        "exhaustive": true,
        "distribution": st.dist,
        "samples": st.samples,
        "disagreements": st.disagreements,
        "model_grid_search": grid_line,
    });
    if let Some(p) = &cli.out {
        std::fs::write(p, serde_json::to_string_pretty(&out).unwrap()).expect("write stats");
    } else {
        println!("{}", serde_json::to_string_pretty(&out).unwrap());
    }
    std::process::exit(if st.disagreements.is_empty() { 0 } else { 1 });
}
